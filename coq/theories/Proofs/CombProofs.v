(* Stateless combinators: contract theorems, all arities (induction over the input list). *)
From Coq Require Import ZArith Bool List Lia.
From RRTK Require Import Num.Num Model.Values Model.Combinators Proofs.DatumProofs.
Import ListNotations.
Local Open Scope Z_scope.

Section Nary.
Context {T : Type}.
Variable op : T -> T -> res T.

(* the present data of an input list, in input order *)
Fixpoint presents (ins : list (out T)) : list (datum T) :=
  match ins with
  | [] => []
  | OSome d :: r => d :: presents r
  | _ :: r => presents r
  end.
(* the earliest error *)
Fixpoint first_err (ins : list (out T)) : option err :=
  match ins with
  | [] => None
  | OErr e :: _ => Some e
  | _ :: r => first_err r
  end.

Lemma scan_spec ins :
  scan ins = match first_err ins with Some e => inl e | None => inr (presents ins) end.
Proof.
  induction ins as [|i r IH]; [reflexivity|].
  destruct i as [e| |d]; cbn [scan first_err presents]; [reflexivity|exact IH|].
  rewrite IH. destruct (first_err r); reflexivity.
Qed.

Lemma first_err_earliest ins e :
  first_err ins = Some e <->
  exists pre post, ins = pre ++ OErr e :: post /\ first_err pre = None.
Proof.
  split.
  - induction ins as [|i r IH]; [discriminate|].
    destruct i as [e'| |d]; cbn [first_err].
    + intros [= ->]. exists [], r. split; reflexivity.
    + intros H. destruct (IH H) as (pre & post & -> & Hp). exists (ONone :: pre), post. split; [reflexivity|exact Hp].
    + intros H. destruct (IH H) as (pre & post & -> & Hp). exists (OSome d :: pre), post. split; [reflexivity|exact Hp].
  - intros (pre & post & -> & Hp). induction pre as [|i r IH]; [reflexivity|].
    destruct i as [e'| |d]; cbn [first_err app] in *; try discriminate; apply IH; exact Hp.
Qed.

(* nary in terms of the spec: earliest error, else absent iff nothing present, else the left fold *)
Theorem nary_spec ins :
  nary op ins =
  match first_err ins with
  | Some e => Ok (OErr e)
  | None => match presents ins with
            | [] => Ok ONone
            | d :: ds => match fold_dat op d ds with Ok r => Ok (OSome r) | Panic => Panic end
            end
  end.
Proof. unfold nary. rewrite scan_spec. destruct (first_err ins); [reflexivity|]. destruct (presents ins); reflexivity. Qed.

Lemma nary_none_iff ins : first_err ins = None -> (nary op ins = Ok ONone <-> presents ins = []).
Proof.
  intros H. rewrite nary_spec, H. destruct (presents ins) as [|d ds]; [tauto|].
  split; [|discriminate]. destruct (fold_dat op d ds); discriminate.
Qed.

(* the folded datum carries the newest time of all contributors *)
Lemma fold_dat_time d ds r :
  fold_dat op d ds = Ok r -> d_time r = fold_left Z.max (map d_time ds) (d_time d).
Proof.
  revert d. induction ds as [|x xs IH]; intros d; cbn [fold_dat fold_left map].
  - intros [= <-]. reflexivity.
  - unfold dat_op. destruct (op (d_val d) (d_val x)) as [v|]; cbn [bind]; [|discriminate].
    intros H. rewrite (IH _ H). cbn [d_time]. rewrite tmax_ge_max. reflexivity.
Qed.

(* the two-input streams are the n-ary ones on [a; b] *)
Theorem bin2_is_nary a b : bin2 op a b = nary op [a; b].
Proof.
  destruct a as [e| |x], b as [e'| |y]; try reflexivity.
  unfold nary, bin2; cbn [scan fold_dat]. destruct (dat_op op x y); reflexivity.
Qed.

Theorem binop_table a b :
  binop op a b =
  match a, b with
  | OErr e, _ => Ok (OErr e)
  | _, OErr e => Ok (OErr e)
  | ONone, _ => Ok ONone
  | OSome x, ONone => Ok (OSome x)
  | OSome x, OSome y =>
      match op (d_val x) (d_val y) with
      | Ok v => Ok (OSome (mkDatum (Z.max (d_time x) (d_time y)) v))
      | Panic => Panic
      end
  end.
Proof.
  destruct a as [e| |x], b as [e'| |y]; try reflexivity.
  unfold binop, dat_op_gt. destruct (op (d_val x) (d_val y)); cbn [bind]; [rewrite tmax_gt_max|]; reflexivity.
Qed.
End Nary.

Section Flow.
Context {T : Type}.

Theorem if_tables (cond : out bool) (i t f : out T) :
  (forall e, cond = OErr e -> if_ cond i = OErr e /\ ifelse cond t f = OErr e) /\
  (cond = ONone -> if_ cond i = ONone /\ ifelse cond t f = ONone) /\
  (forall tm, cond = OSome (mkDatum tm true) -> if_ cond i = i /\ ifelse cond t f = t) /\
  (forall tm, cond = OSome (mkDatum tm false) -> if_ cond i = ONone /\ ifelse cond t f = f).
Proof. repeat split; intros; subst; reflexivity. Qed.

Theorem expirer_table (i : out T) (now : tout) (limit : Z) :
  (forall e, i = OErr e -> expirer i now limit = Ok (OErr e)) /\
  (i = ONone -> expirer i now limit = Ok ONone) /\
  (forall d e, i = OSome d -> now = TErr e -> expirer i now limit = Ok (OErr e)) /\
  (forall d t, i = OSome d -> now = TOk t -> in_i64 (t - d_time d) = true ->
     expirer i now limit = Ok (if t - d_time d <=? limit then OSome d else ONone)).
Proof.
  repeat split; intros; subst; try reflexivity.
  unfold expirer, isub, i64_ck. rewrite H1. cbn [bind].
  destruct (Z.gtb_spec (t - d_time d) limit), (Z.leb_spec (t - d_time d) limit); try lia; reflexivity.
Qed.

Theorem none_to_tables (i : out T) (now : tout) (v : T) :
  none_to_error i = match i with ONone => OErr FromNone | x => x end /\
  none_to_value i now v = match i with
                          | ONone => match now with TErr e => OErr e | TOk t => OSome (mkDatum t v) end
                          | x => x end /\
  time_getter_from_getter i = match i with OErr e => TErr e | ONone => TErr FromNone | OSome d => TOk (d_time d) end.
Proof. repeat split; destruct i; reflexivity. Qed.

(* newest-of: a present candidate, none strictly newer, first among equals; errors/absents skipped *)
Lemma latest_go_spec (ins : list (out T)) : forall acc : option (datum T),
  match latest_go ins acc with
  | None => acc = None /\ presents ins = []
  | Some d =>
      (acc = Some d \/ In d (presents ins)) /\
      (forall a, acc = Some a -> d_time a <= d_time d) /\
      (forall g, In g (presents ins) -> d_time g <= d_time d)
  end.
Proof.
  induction ins as [|i r IH]; intros acc; cbn [latest_go presents].
  - destruct acc as [a|]; [|split; reflexivity]. repeat split; [left; reflexivity|intros a' [= <-]; lia|intros g []].
  - destruct i as [e| |g]; try exact (IH acc).
    destruct acc as [th|].
    + destruct (Z.gtb_spec (d_time g) (d_time th)) as [Hgt|Hle].
      * specialize (IH (Some g)). destruct (latest_go r (Some g)) as [d|]; [|destruct IH; discriminate].
        destruct IH as (H1 & H2 & H3). repeat split.
        -- destruct H1 as [[= <-]|H1]; right; [left; reflexivity|right; exact H1].
        -- intros a [= <-]. specialize (H2 g eq_refl). lia.
        -- intros g' [<-|Hin]; [apply H2; reflexivity|apply H3; exact Hin].
      * specialize (IH (Some th)). destruct (latest_go r (Some th)) as [d|]; [|destruct IH; discriminate].
        destruct IH as (H1 & H2 & H3). repeat split.
        -- destruct H1 as [H1|H1]; [left; exact H1|right; right; exact H1].
        -- exact H2.
        -- intros g' [<-|Hin]; [specialize (H2 th eq_refl); lia|apply H3; exact Hin].
    + specialize (IH (Some g)). destruct (latest_go r (Some g)) as [d|]; [|destruct IH; discriminate].
      destruct IH as (H1 & H2 & H3). repeat split.
      * destruct H1 as [[= <-]|H1]; right; [left; reflexivity|right; exact H1].
      * intros a [=].
      * intros g' [<-|Hin]; [apply H2; reflexivity|apply H3; exact Hin].
Qed.

Theorem latest_n_spec (ins : list (out T)) :
  match latest_n ins with
  | OSome d => In d (presents ins) /\ forall g, In g (presents ins) -> d_time g <= d_time d
  | ONone => presents ins = []
  | OErr _ => False
  end.
Proof.
  unfold latest_n. pose proof (latest_go_spec ins None) as H.
  destruct (latest_go ins None) as [d|].
  - destruct H as (H1 & _ & H3). split; [destruct H1 as [H1|H1]; [discriminate|exact H1]|exact H3].
  - exact (proj2 H).
Qed.
End Flow.

(* ---- logic: strong Kleene, absent = unknown ---- *)
Definition kval (a : out bool) : option bool := match a with OSome d => Some (d_val d) | _ => None end.
Definition k_and (x y : option bool) : option bool :=
  match x, y with
  | Some false, _ | _, Some false => Some false
  | Some true, Some true => Some true
  | _, _ => None
  end.
Definition k_or (x y : option bool) : option bool :=
  match x, y with
  | Some true, _ | _, Some true => Some true
  | Some false, Some false => Some false
  | _, _ => None
  end.
Definition k_not (x : option bool) : option bool := match x with Some b => Some (negb b) | None => None end.
Definition newest_time (a b : out bool) : option Z :=
  match a, b with
  | OSome x, OSome y => Some (Z.max (d_time x) (d_time y))
  | OSome x, _ => Some (d_time x)
  | _, OSome y => Some (d_time y)
  | _, _ => None
  end.
Definition klift (v : option bool) (t : option Z) : out bool :=
  match v, t with Some b, Some t => OSome (mkDatum t b) | _, _ => ONone end.
Definition is_err {T} (a : out T) : bool := match a with OErr _ => true | _ => false end.

Lemma newer_max t1 t2 : newer (Some t1) t2 = Some (Z.max t1 t2).
Proof. unfold newer. destruct (Z.gtb_spec t2 t1); f_equal; lia. Qed.

Theorem kleene (a b : out bool) :
  is_err a = false -> is_err b = false ->
  and_ a b = klift (k_and (kval a) (kval b)) (newest_time a b) /\
  or_ a b = klift (k_or (kval a) (kval b)) (newest_time a b) /\
  not_ a = klift (k_not (kval a)) (newest_time a a).
Proof.
  destruct a as [e| |[t1 v1]], b as [e'| |[t2 v2]]; cbn [is_err]; try discriminate; intros _ _;
  unfold and_, or_, not_; cbn [d_time d_val kval newest_time];
  rewrite ?newer_max, ?Z.max_id; try (destruct v1); try (destruct v2); repeat split; reflexivity.
Qed.

Theorem logic_errors (a b : out bool) e :
  (a = OErr e -> and_ a b = OErr e /\ or_ a b = OErr e /\ not_ a = OErr e) /\
  (is_err a = false -> b = OErr e -> and_ a b = OErr e /\ or_ a b = OErr e).
Proof.
  split.
  - intros ->. repeat split.
  - destruct a as [e'| |d]; cbn [is_err]; try discriminate; intros _ ->; split; reflexivity.
Qed.

(* De Morgan duality for ALL a b, including errors and timestamps *)
Theorem de_morgan (a b : out bool) :
  not_ (and_ a b) = or_ (not_ a) (not_ b) /\ not_ (or_ a b) = and_ (not_ a) (not_ b).
Proof.
  destruct a as [e| |[t1 v1]], b as [e'| |[t2 v2]]; try (split; reflexivity);
  unfold and_, or_, not_; cbn [d_time d_val];
  try (destruct v1); try (destruct v2); cbn; try (split; reflexivity);
  unfold newer; destruct (t2 >? t1); split; reflexivity.
Qed.
