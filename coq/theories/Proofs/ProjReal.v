(* Least-squares projections behind the device updates, in exact arithmetic (per component of a state;
   the three components are independent). *)
From Coq Require Import Reals Lra Lia List Psatz.
Import ListNotations.
Local Open Scope R_scope.

(* inverter: side2 = -side1 *)
Lemma inv_proj (x y a : R) :
  let n := (x - y) / 2 in
  (x - a)^2 + (y + a)^2 - ((x - n)^2 + (y + n)^2) = 2 * (a - n)^2.
Proof. intros n. unfold n. field. Qed.
Lemma inv_proj_min (x y a : R) :
  let n := (x - y) / 2 in (x - n)^2 + (y - - n)^2 <= (x - a)^2 + (y - - a)^2.
Proof.
  intros n. pose proof (inv_proj x y a) as H. cbv zeta in H. fold n in H.
  replace (y - - n) with (y + n) by ring. replace (y - - a) with (y + a) by ring.
  assert (0 <= (a - n)^2) by (apply pow2_ge_0). lra.
Qed.
(* gear train: side2 = r * side1 *)
Lemma gear_proj (x y r a : R) :
  let d := (x + r * y) / (r * r + 1) in
  (x - a)^2 + (y - r * a)^2 - ((x - d)^2 + (y - r * d)^2) = (r * r + 1) * (a - d)^2.
Proof. intros d. unfold d. field. nra. Qed.
Lemma gear_proj_min (x y r a : R) :
  let d := (x + r * y) / (r * r + 1) in (x - d)^2 + (y - r * d)^2 <= (x - a)^2 + (y - r * a)^2.
Proof.
  intros d. pose proof (gear_proj x y r a) as H. cbv zeta in H. fold d in H.
  assert (0 <= (r * r + 1) * (a - d)^2) by (apply Rmult_le_pos; [nra|apply pow2_ge_0]). lra.
Qed.
Lemma gear_constraint (x y r : R) :
  ((x + y * r) * r) / (r * r + 1) = r * ((x + y * r) / (r * r + 1)).
Proof. field. nra. Qed.
Lemma gear_fixed (x r : R) : (x + (r * x) * r) / (r * r + 1) = x.
Proof. field. nra. Qed.
(* axle: all equal; the mean minimises the sum of squares, for any number of terminals *)
Fixpoint sq_dev (l : list R) (m : R) : R := match l with [] => 0 | x :: r => (x - m)^2 + sq_dev r m end.
Fixpoint sum (l : list R) : R := match l with [] => 0 | x :: r => x + sum r end.
Lemma sq_dev_shift (l : list R) (mu m : R) :
  sq_dev l m = sq_dev l mu + 2 * (mu - m) * (sum l - INR (length l) * mu) + INR (length l) * (mu - m)^2.
Proof.
  induction l as [|x r IH]; [cbn; ring|].
  cbn [sq_dev sum length]. rewrite S_INR, IH. ring.
Qed.
Lemma axle_proj_min (l : list R) (m : R) :
  l <> [] -> let mu := sum l / INR (length l) in sq_dev l mu <= sq_dev l m.
Proof.
  intros Hl mu. rewrite (sq_dev_shift l mu m).
  assert (Hn : 0 < INR (length l)) by (destruct l; [contradiction|cbn [length]; apply lt_0_INR; lia]).
  assert (E : sum l - INR (length l) * mu = 0) by (unfold mu; field; lra).
  rewrite E. assert (0 <= INR (length l) * (mu - m)^2) by (apply Rmult_le_pos; [lra|apply pow2_ge_0]). lra.
Qed.
(* differential with equal trust: side1 + side2 = sum *)
Lemma diff_constraint (x y z : R) :
  (2 * x - y + z) / 3 + (- x + 2 * y + z) / 3 = (x + y + 2 * z) / 3.
Proof. field. Qed.
Lemma diff_proj_min (x y z a b : R) :
  let a' := (2 * x - y + z) / 3 in let b' := (- x + 2 * y + z) / 3 in
  (x - a')^2 + (y - b')^2 + (z - (a' + b'))^2 <= (x - a)^2 + (y - b)^2 + (z - (a + b))^2.
Proof.
  intros a' b'.
  assert (E : (x - a)^2 + (y - b)^2 + (z - (a + b))^2 - ((x - a')^2 + (y - b')^2 + (z - (a' + b'))^2)
              = (a - a')^2 + (b - b')^2 + ((a - a') + (b - b'))^2) by (unfold a', b'; field).
  assert (0 <= (a - a')^2) by apply pow2_ge_0. assert (0 <= (b - b')^2) by apply pow2_ge_0.
  assert (0 <= ((a - a') + (b - b'))^2) by apply pow2_ge_0. lra.
Qed.
Lemma diff_fixed (x y : R) :
  (2 * x - y + (x + y)) / 3 = x /\ (- x + 2 * y + (x + y)) / 3 = y /\ (x + y + 2 * (x + y)) / 3 = x + y.
Proof. repeat split; field. Qed.
