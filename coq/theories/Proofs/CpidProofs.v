(* CommandPID: one-step facts and the refinement of its state to explicit recurrences over the run of
   present samples since the last restart. *)
From Coq Require Import ZArith Bool List Lia.
From RRTK Require Import Num.Num Model.Values Model.Streams.
Import ListNotations.
Local Open Scope Z_scope.

Section Cpid.
Context {F : Type} {NF : Num F}.
Variable c : cfg.
Notation command := (@command F).
Notation state := (@state F).

(* ---- set ---- *)
Lemma cpid_set_same s cmd :
  c_eqb cmd (cp_cmd s) = true ->
  cpid_set s cmd = {| cp_last := Some cmd; cp_cmd := cp_cmd s; cp_k := cp_k s; cp_st := cp_st s |}.
Proof. unfold cpid_set. intros ->. reflexivity. Qed.
Lemma cpid_set_different s cmd :
  c_eqb cmd (cp_cmd s) = false ->
  cpid_set s cmd = {| cp_last := Some cmd; cp_cmd := cmd; cp_k := cp_k s; cp_st := CNone |}.
Proof. unfold cpid_set. intros ->. reflexivity. Qed.

(* ---- update ---- *)
Lemma cpid_follow_error s e i : cpid_step c s (Some (OErr e)) i = Ok (s, UErr e).
Proof. reflexivity. Qed.
Lemma cpid_follow_absent s i : cpid_step c s (Some ONone) i = cpid_step c s None i.
Proof. reflexivity. Qed.
Lemma cpid_follow_present s d i : cpid_step c s (Some (OSome d)) i = cpid_step c (cpid_set s (d_val d)) None i.
Proof. reflexivity. Qed.
Lemma cpid_absent_resets s : cpid_step c s None ONone = Ok (cpid_with_st s CNone, UOk).
Proof. reflexivity. Qed.
Lemma cpid_error_cached s e :
  cpid_step c s None (OErr e) = Ok (cpid_with_st s (CErr e), UErr e) /\ cpid_get (cpid_with_st s (CErr e)) = OErr e.
Proof. split; reflexivity. Qed.
(* ... and the next present sample starts afresh: a cached error behaves like the reset state *)
Lemma cpid_error_then_sample s e d :
  cpid_step c (cpid_with_st s (CErr e)) None (OSome d) = cpid_step c (cpid_with_st s CNone) None (OSome d).
Proof. reflexivity. Qed.
Lemma cpid_fresh s i s' u e :
  cpid_step c s None i = Ok (s', u) -> cpid_get s' = OErr e -> i = OErr e.
Proof.
  destruct i as [e'| |d]; cbn [cpid_step].
  - intros [= <- <-]. cbn. intros [= ->]. reflexivity.
  - intros [= <- <-]. cbn. discriminate.
  - destruct (cp_st s) as [e0| |u0].
    + intros [= <- <-]. unfold cpid_get; cbn. destruct (c_kind (cp_cmd s)); discriminate.
    + intros [= <- <-]. unfold cpid_get; cbn. destruct (c_kind (cp_cmd s)); discriminate.
    + destruct (dt_f c _ _); cbn [bind]; [|discriminate].
      destruct (cu_u1 u0) as [u1|]; intros [= <- <-]; unfold cpid_get; cbn;
      destruct (c_kind (cp_cmd s)); try discriminate; destruct (cu_out_int_int u1); discriminate.
Qed.

(* ---- the run of samples since the last restart, as explicit recurrences ---- *)
Variable cmd : command.
Variable ks : @pdkvals F.
Notation kind := (c_kind cmd).
Definition K (e i d : F) : F := pdk_eval ks kind e i d.
Definition dtf (t tp : Z) : F := fdiv (f_of_Z (t - tp)) f1e9.
Definition half (a b : F) (dt : F) : F := fmul (fdiv (fadd a b) ftwo) dt.       (* (a + b) / 2 * dt *)

(* samples newest first: (time, error) *)
Definition smp := (Z * F)%type.
(* trapezoidal integral of the error: the first trapezoid alone, then accumulated *)
Fixpoint Eint (l : list smp) : F :=
  match l with
  | (t, e) :: r =>
      match r with
      | (tp, ep) :: r' => match r' with
                          | [] => half ep e (dtf t tp)
                          | _ => fadd (Eint r) (half ep e (dtf t tp))
                          end
      | [] => fzero
      end
  | [] => fzero
  end.
Definition Dq (l : list smp) : F :=
  match l with (t, e) :: (tp, ep) :: _ => fdiv (fsub e ep) (dtf t tp) | _ => fzero end.
(* the control signal u_n = K(e_n, E_n, D_n), with E = D = 0 on the first sample *)
Definition uval (l : list smp) : F :=
  match l with
  | (t, e) :: r => K e (Eint l) (Dq l)
  | [] => fzero
  end.
(* trapezoidal integral of u *)
Fixpoint Uint (l : list smp) : F :=
  match l with
  | (t, e) :: r =>
      match r with
      | (tp, ep) :: r' => match r' with
                          | [] => half (uval r) (uval l) (dtf t tp)
                          | _ => fadd (Uint r) (half (uval r) (uval l) (dtf t tp))
                          end
      | [] => fzero
      end
  | [] => fzero
  end.
(* trapezoidal integral of that integral *)
Fixpoint Wint (l : list smp) : F :=
  match l with
  | (t, e) :: r =>
      match r with
      | (tp, ep) :: r' =>
          match r' with
          | _ :: r'' => match r'' with
                        | [] => half (Uint r) (Uint l) (dtf t tp)
                        | _ => fadd (Wint r) (half (Uint r) (Uint l) (dtf t tp))
                        end
          | [] => fzero
          end
      | [] => fzero
      end
  | [] => fzero
  end.

Definition st_of (l : list smp) : option cu0 :=
  match l with
  | [] => None
  | (t, e) :: r =>
      Some {| cu_time := t; cu_output := uval l; cu_error := e;
              cu_u1 := match r with
                       | [] => None
                       | _ :: r' => Some {| cu_out_int := Uint l; cu_err_int := Eint l;
                                            cu_out_int_int := match r' with [] => None | _ => Some (Wint l) end |}
                       end |}
  end.

(* one present sample appended to a run: the step computes exactly the recurrences *)
Definition err_of (d : datum state) : F := fsub (c_val cmd) (qv (s_get_value c (d_val d) kind)).
Lemma cpid_sample_step (s : cpid) (l : list smp) (d : datum state) :
  cp_cmd s = cmd -> cp_k s = ks ->
  (match st_of l with Some u0 => cp_st s = CSome u0 | None => cp_st s = CNone \/ exists e, cp_st s = CErr e end) ->
  (match l with (tp, _) :: _ => in_i64 (d_time d - tp) = true | [] => True end) ->
  exists s', cpid_step c s None (OSome d) = Ok (s', UOk) /\
    cp_cmd s' = cmd /\ cp_k s' = ks /\ cp_last s' = cp_last s /\
    match st_of ((d_time d, err_of d) :: l) with Some u0 => cp_st s' = CSome u0 | None => False end.
Proof.
  intros Hc Hk Hst Hov. unfold cpid_step. rewrite Hc, Hk.
  destruct l as [|[tp ep] r].
  - cbn [st_of] in Hst. destruct Hst as [->|[e ->]];
    (eexists; split; [reflexivity|]; cbn; rewrite ?Hc, ?Hk; repeat split; reflexivity).
  - cbn [st_of] in Hst. rewrite Hst. cbn [cu_time cu_output cu_error cu_u1].
    unfold dt_f, isub, i64_ck. rewrite Hov. cbn [bind].
    destruct r as [|[tpp epp] r'].
    + eexists; split; [reflexivity|]. cbn; rewrite ?Hc, ?Hk. repeat split; reflexivity.
    + cbn [cu_out_int cu_err_int cu_out_int_int].
      destruct r' as [|x r''].
      * eexists; split; [reflexivity|]. cbn; rewrite ?Hc, ?Hk. repeat split; reflexivity.
      * eexists; split; [reflexivity|]. cbn; rewrite ?Hc, ?Hk. repeat split; reflexivity.
Qed.

(* the visible output after a run of n samples: u itself, its integral (absent for n = 1), or the
   double integral (absent for n <= 2), by command kind *)
Lemma cpid_get_of_run (s : cpid) (l : list smp) u0 :
  cp_cmd s = cmd -> st_of l = Some u0 -> cp_st s = CSome u0 ->
  cpid_get s =
  match l with
  | [] => ONone
  | (t, _) :: r =>
      match kind with
      | Position => OSome (mkDatum t (uval l))
      | Velocity => match r with [] => ONone | _ => OSome (mkDatum t (Uint l)) end
      | Acceleration => match r with [] | [_] => ONone | _ => OSome (mkDatum t (Wint l)) end
      end
  end.
Proof.
  intros Hc Hl Hs. unfold cpid_get. rewrite Hs, Hc.
  destruct l as [|[t e] r]; [discriminate|]. cbn [st_of] in Hl. injection Hl as <-.
  cbn [cu_time cu_output cu_u1]. destruct kind; try reflexivity.
  - destruct r as [|x r']; reflexivity.
  - destruct r as [|x [|y r'']]; reflexivity.
Qed.
End Cpid.
