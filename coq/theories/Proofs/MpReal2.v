(* Motion profile on the real-number instance, part 2 (C07): what MpReal.v does not cover.
   Everything is about the record returned by the model's constructor [mp_new] on RR with dimension checking on
   ([cfg_chk sb], as in MpReal.v) and about the model's accessors [mp_acc] [mp_vel] [mp_pos] applied to it.
     mp_new_char        the constructor as a function of its inputs: units forced, three sign tests, [built]
     velocity_bound     |vel| <= max(|max_vel|, |v0|, |v1|) for every t; exact in the first two pieces and from t3 on,
                        + |max_acc| * 1 ns in the final piece (slack_is_needed: the slack is attained up to 0.3)
     arrival_velocity   final piece = straight line reaching the end velocity at t3, up to 2 |max_acc| ns
     arrival_position   final piece = constant-deceleration arc reaching (end pos, end vel) at t3, up to pos_slack + ...
     last_sample, completion_exact, ideal_exact_arrival, model_is_truncated_ideal
     acceptance         speeds within the limit and |displacement| >= ramp distances  ->  accepted
     negation_symmetry  non-zero displacement: mirrored inputs give mirrored outputs at every instant
                        (zero_displacement_not_symmetric: the known finding, on the reals)
   The idealised constructor is the family iT1 iT2 iT3 iA below (exact instants in seconds); the model's record is
   [built]: the same with [ns_of] (truncation to i64 nanoseconds, saturating) applied to the three instants. *)
From Coq Require Import ZArith Bool List Lia Reals Lra Psatz.
From Flocq Require Import Core.Raux.
From RRTK Require Import Num.Num Num.RR Model.Values Model.MotionProfile Proofs.ValuesProofs Proofs.MpProofs Proofs.MpReal.
Local Open Scope Z_scope.

Definition NS : R := (/ 1000000000)%R.
Definition sgn (p0 p1 : R) : R := if Rlt_bool p1 p0 then Ropp 1%R else 1%R.
Section Ideal.
Variables p0 v0 p1 v1 mv ma : R.
Definition iV : R := (Rabs mv * sgn p0 p1)%R.
Definition iA : R := (Rabs ma * sgn p0 p1)%R.
Definition iT1 : R := ((iV - v0) / iA)%R.
Definition iD3 : R := ((v1 - iV) / - iA)%R.
Definition iP1 : R := ((v0 + iV) / 2 * iT1)%R.
Definition iP3 : R := ((iV + v1) / 2 * iD3)%R.
Definition iD2 : R := ((p1 - p0 - (iP1 + iP3)) / iV)%R.
Definition iT2 : R := (iT1 + iD2)%R.
Definition iT3 : R := (iT2 + iD3)%R.
Definition accepts : bool := Rle_bool 0 iT1 && Rle_bool 0 iD3 && Rle_bool 0 iD2.
End Ideal.

Section R.
Variable sb : bool.
Notation c := (cfg_chk sb).
Notation mp := (@mp R).
Definition ns_of (x : R) : Z := r_to_i64 (x * 1000000000)%R.

Lemma mp_new_RR p0 v0 a0 p1 v1 a1 mv ma :
  mp_new c (snew_raw p0 v0 a0) (snew_raw p1 v1 a1) (qnew mv UVm) (qnew ma UAm) =
  if accepts p0 v0 p1 v1 mv ma then
    Ok {| mp_start_pos := qnew p0 UPm; mp_start_vel := qnew v0 UVm;
          mp_t1 := ns_of (iT1 p0 v0 p1 mv ma); mp_t2 := ns_of (iT2 p0 v0 p1 v1 mv ma); mp_t3 := ns_of (iT3 p0 v0 p1 v1 mv ma);
          mp_max_acc := qnew (iA p0 p1 ma) UAm; mp_end := c_of_state (snew_raw p1 v1 a1) |}
  else Panic.
Proof.
  unfold mp_new, accepts.
  cbn. unfold assert_ge0, fgeb. cbn. unfold iT3, iT2, iD2, iP1, iP3, iT1, iD3, iV, iA, sgn, ns_of.
  repeat match goal with |- context [Rle_bool ?x ?y] => destruct (Rle_bool x y) end; cbn [andb bind]; reflexivity.
Qed.

(* ---- the constructor on arbitrary arguments: units are forced, the rest is mp_new_RR ---- *)
Lemma qsub_ok_units (x y r : @quantity R) : qsub c x y = Ok r -> qu x = qu y /\ qu r = qu x.
Proof.
  intros H. destruct (qsub_spec sb x y) as [H1 H2].
  destruct (ueqb (qu x) (qu y)) eqn:E.
  - apply ueqb_eq in E. rewrite (H1 E) in H. injection H as <-. split; [exact E|reflexivity].
  - apply ueqb_neq in E. rewrite (H2 E) in H. discriminate.
Qed.
Lemma mp_new_units (s0 s1 : @state R) (mv ma : @quantity R) p :
  mp_new c s0 s1 mv ma = Ok p -> qu mv = UVm /\ qu ma = UAm.
Proof.
  destruct mv as [mvv [m1 e1]], ma as [mav [m2 e2]].
  unfold mp_new.
  match goal with |- context [bind (qsub ?c ?a ?b) _] => destruct (qsub c a b) as [d1v|] eqn:E1; cbn [bind]; [|discriminate] end.
  apply qsub_ok_units in E1. destruct E1 as [U1 U2].
  repeat (match goal with |- context [bind ?x _] => destruct x eqn:?; cbn [bind]; [|discriminate] end).
  intros _.
  match goal with H : expect_time _ (qdiv _ d1v _) = Ok _ |- _ => rename H into ET end.
  unfold expect_time, time_of_q, eq_assume_true in ET. cbn [chk cfg_chk] in ET.
  match type of ET with context [ueqb ?u ?v] => destruct (ueqb u v) eqn:EU; [|discriminate] end.
  apply ueqb_eq in EU. cbn in EU, U1, U2. rewrite U2 in EU. cbn in EU.
  injection U1 as A1 A2. injection EU as B1 B2. unfold UVm, UAm. cbn [qu]. split; f_equal; lia.
Qed.
(* the record the constructor returns, as a function of the inputs *)
Definition built (s0 s1 : @state R) (mv ma : R) : mp :=
  {| mp_start_pos := qnew (s_pos s0) UPm; mp_start_vel := qnew (s_vel s0) UVm;
     mp_t1 := ns_of (iT1 (s_pos s0) (s_vel s0) (s_pos s1) mv ma);
     mp_t2 := ns_of (iT2 (s_pos s0) (s_vel s0) (s_pos s1) (s_vel s1) mv ma);
     mp_t3 := ns_of (iT3 (s_pos s0) (s_vel s0) (s_pos s1) (s_vel s1) mv ma);
     mp_max_acc := qnew (iA (s_pos s0) (s_pos s1) ma) UAm; mp_end := c_of_state s1 |}.
Definition accepted (s0 s1 : @state R) (mv ma : R) : bool :=
  accepts (s_pos s0) (s_vel s0) (s_pos s1) (s_vel s1) mv ma.
Theorem mp_new_char (s0 s1 : @state R) (mv ma : @quantity R) :
  mp_new c s0 s1 mv ma =
  if ueqb (qu mv) UVm && ueqb (qu ma) UAm && accepted s0 s1 (qv mv) (qv ma) then Ok (built s0 s1 (qv mv) (qv ma)) else Panic.
Proof.
  destruct (ueqb (qu mv) UVm) eqn:E1; [destruct (ueqb (qu ma) UAm) eqn:E2|]; cbn [andb].
  - apply ueqb_eq in E1, E2. destruct mv as [mvv mvu], ma as [mav mau], s0 as [p0 v0 a0], s1 as [p1 v1 a1].
    cbn [qu qv] in *. subst mvu mau. exact (mp_new_RR p0 v0 a0 p1 v1 a1 mvv mav).
  - destruct (mp_new c s0 s1 mv ma) as [p|] eqn:E; [|reflexivity].
    apply mp_new_units in E. destruct E as [_ E]. apply ueqb_neq in E2. contradiction.
  - destruct (mp_new c s0 s1 mv ma) as [p|] eqn:E; [|reflexivity].
    apply mp_new_units in E. destruct E as [E _]. apply ueqb_neq in E1. contradiction.
Qed.
Lemma mp_new_inv (s0 s1 : @state R) (mv ma : @quantity R) p :
  mp_new c s0 s1 mv ma = Ok p ->
  qu mv = UVm /\ qu ma = UAm /\ accepted s0 s1 (qv mv) (qv ma) = true /\ p = built s0 s1 (qv mv) (qv ma).
Proof.
  intros H. destruct (mp_new_units _ _ _ _ _ H) as [U1 U2]. rewrite mp_new_char in H.
  destruct (accepted s0 s1 (qv mv) (qv ma)); [|rewrite andb_false_r in H; discriminate].
  rewrite U1, U2 in H. cbn in H. injection H as <-. repeat split; assumption.
Qed.
End R.

(* ---- truncation to whole nanoseconds ---- *)
Definition I64MAX : Z := 9223372036854775807.
Lemma NS_pos : (0 < NS)%R.
Proof. unfold NS. apply Rinv_0_lt_compat. lra. Qed.
Lemma secs_NS t : secs t = (IZR t * NS)%R.
Proof. reflexivity. Qed.
Lemma ns_of_nonneg x : (0 <= x)%R -> 0 <= ns_of x.
Proof.
  intros H. unfold ns_of, r_to_i64.
  assert (0 <= Ztrunc (x * 1000000000)).
  { rewrite <- (Ztrunc_IZR 0). apply Ztrunc_le. nra. }
  lia.
Qed.
Lemma ns_of_le_max x : ns_of x <= I64MAX.
Proof. unfold ns_of, r_to_i64, I64MAX. lia. Qed.
Lemma ns_of_mono x y : (x <= y)%R -> ns_of x <= ns_of y.
Proof.
  intros H. unfold ns_of, r_to_i64.
  assert (Ztrunc (x * 1000000000) <= Ztrunc (y * 1000000000)) by (apply Ztrunc_le; nra). lia.
Qed.
(* never later than the exact instant ... *)
Lemma ns_of_below x : (0 <= x)%R -> (secs (ns_of x) <= x)%R.
Proof.
  intros H. unfold ns_of, r_to_i64, secs.
  assert (H0 : (0 <= x * 1000000000)%R) by nra.
  pose proof (Zfloor_lb (x * 1000000000)) as Hl. rewrite <- (Ztrunc_floor _ H0) in Hl.
  assert (0 <= Ztrunc (x * 1000000000)).
  { rewrite <- (Ztrunc_IZR 0). apply Ztrunc_le. exact H0. }
  assert (Hm : (IZR (Z.max (-9223372036854775808) (Z.min 9223372036854775807 (Ztrunc (x * 1000000000)))) <= IZR (Ztrunc (x * 1000000000)))%R).
  { apply IZR_le. lia. }
  lra.
Qed.
(* ... and, unless the i64 saturates, less than one nanosecond earlier *)
Lemma ns_of_above x : (0 <= x)%R -> ns_of x < I64MAX -> (x - NS < secs (ns_of x))%R.
Proof.
  intros H. unfold ns_of, r_to_i64, secs, I64MAX, NS. intros Hs.
  assert (H0 : (0 <= x * 1000000000)%R) by nra.
  pose proof (Zfloor_ub (x * 1000000000)) as Hu. rewrite <- (Ztrunc_floor _ H0) in Hu.
  assert (0 <= Ztrunc (x * 1000000000)).
  { rewrite <- (Ztrunc_IZR 0). apply Ztrunc_le. exact H0. }
  replace (Z.max (-9223372036854775808) (Z.min 9223372036854775807 (Ztrunc (x * 1000000000)))) with (Ztrunc (x * 1000000000)) in * by lia.
  lra.
Qed.

(* ---- closed forms of the last piece whenever the accessor returns (i64 overflow = Panic excluded by the result) ---- *)
Section Forms.
Variable sb : bool.
Notation c := (cfg_chk sb).
Notation mp := (@mp R).
Notation a p := (qv (mp_max_acc p)).
Notation v0 p := (qv (mp_start_vel p)).
Notation p0 p := (qv (mp_start_pos p)).
Ltac units p H :=
  destruct H as (Hup & Huv & Hua);
  destruct (mp_start_pos p) as [p0v p0u] eqn:Ep; destruct (mp_start_vel p) as [v0v v0u] eqn:Ev;
  destruct (mp_max_acc p) as [av au] eqn:Ea; cbn [qu qv] in *; subst p0u v0u au.
Lemma vel3_ok (p : mp) t q : wd p -> 0 <= mp_t1 p <= mp_t2 p -> mp_t2 p <= t < mp_t3 p ->
  mp_vel c p t = Ok (Some q) -> q = qnew (a p * (secs (mp_t1 p) + secs (mp_t2 p) - secs t) + v0 p)%R UVm.
Proof.
  intros H H12 Ht. unfold mp_vel. destruct (Z.ltb_spec t 0); [lia|]. destruct (Z.ltb_spec t (mp_t1 p)); [lia|].
  destruct (Z.ltb_spec t (mp_t2 p)); [lia|]. destruct (Z.ltb_spec t (mp_t3 p)); [|lia].
  unfold iadd, isub, i64_ck. destruct (in_i64 (mp_t1 p + mp_t2 p)); cbn [bind]; [|discriminate].
  destruct (in_i64 (mp_t1 p + mp_t2 p - t)); cbn [bind]; [|discriminate].
  units p H. intros [= <-]. unfold qnew. f_equal.
  change (av * secs (mp_t1 p + mp_t2 p - t) + v0v = av * (secs (mp_t1 p) + secs (mp_t2 p) - secs t) + v0v)%R.
  rewrite secs_sub, secs_add. reflexivity.
Qed.
Lemma pos3_ok (p : mp) t q : wd p -> 0 <= mp_t1 p <= mp_t2 p -> mp_t2 p <= t < mp_t3 p -> mp_t3 p <= I64MAX ->
  mp_pos c p t = Ok (Some q) ->
  q = qnew (a p * (secs (mp_t1 p) * (secs (hneg p) + secs (mp_t2 p)))
            - / 2 * a p * ((secs t - secs (mp_t2 p)) * (secs t - 2 * secs (mp_t1 p) - secs (mp_t2 p)))
            + v0 p * secs t + p0 p)%R UPm.
Proof.
  intros H H12 Ht Hm. unfold mp_pos, I64MAX in *. destruct (Z.ltb_spec t 0); [lia|]. destruct (Z.ltb_spec t (mp_t1 p)); [lia|].
  destruct (Z.ltb_spec t (mp_t2 p)); [lia|]. destruct (Z.ltb_spec t (mp_t3 p)); [|lia].
  rewrite t1_term_val by lia. cbn [bind]. unfold isub, imul, i64_ck.
  destruct (in_i64 (t - mp_t2 p)); cbn [bind]; [|discriminate].
  destruct (in_i64 (2 * mp_t1 p)); cbn [bind]; [|discriminate].
  destruct (in_i64 (t - 2 * mp_t1 p)); cbn [bind]; [|discriminate].
  destruct (in_i64 (t - 2 * mp_t1 p - mp_t2 p)); cbn [bind]; [|discriminate].
  units p H. intros [= <-]. unfold qnew. f_equal.
  change (av * (secs (mp_t1 p) * secs (hneg p + mp_t2 p)) - / 2 * av * (secs (t - mp_t2 p) * secs (t - 2 * mp_t1 p - mp_t2 p)) + v0v * secs t + p0v
          = av * (secs (mp_t1 p) * (secs (hneg p) + secs (mp_t2 p))) - / 2 * av * ((secs t - secs (mp_t2 p)) * (secs t - 2 * secs (mp_t1 p) - secs (mp_t2 p))) + v0v * secs t + p0v)%R.
  rewrite !secs_sub, secs_add, secs_2mul. reflexivity.
Qed.
End Forms.

(* ---- real analysis of the trapezoid, independent of the model ---- *)
Local Open Scope R_scope.

Lemma Rabs_between lo hi x : lo <= x <= hi -> Rabs x <= Rmax (Rabs lo) (Rabs hi).
Proof.
  intros [H1 H2]. unfold Rmax, Rabs. destruct (Rle_dec _ _); destruct (Rcase_abs lo); destruct (Rcase_abs hi); destruct (Rcase_abs x); lra.
Qed.
Lemma sgn_cases p0 p1 : sgn p0 p1 = 1 \/ sgn p0 p1 = -1.
Proof. unfold sgn. destruct (Rlt_bool p1 p0); [right|left]; lra. Qed.

(* pieces 1 and 2: between the start velocity and the cruise velocity *)
Lemma vb12 s al U v0 T1 x : (s = 1 \/ s = -1) -> 0 <= al -> 0 <= U -> al * s * T1 = U * s - v0 -> 0 <= x <= T1 ->
  Rabs (al * s * x + v0) <= Rmax U (Rabs v0).
Proof.
  intros Hs Hal HU E1 Hx. assert (Hp : 0 <= al * x <= al * T1) by nra.
  destruct Hs as [-> | ->].
  - assert (v0 <= al * 1 * x + v0 <= U) by lra.
    pose proof (Rabs_between v0 U _ H). rewrite (Rabs_pos_eq U) in H0 by lra. rewrite Rmax_comm. exact H0.
  - assert (-U <= al * -1 * x + v0 <= v0) by lra.
    pose proof (Rabs_between (-U) v0 _ H). rewrite Rabs_Ropp, (Rabs_pos_eq U) in H0 by lra. exact H0.
Qed.
(* piece 3 *)
Lemma vb3 s al U v0 v1 T1 D3 x1 y : (s = 1 \/ s = -1) -> 0 <= al -> 0 <= U ->
  al * s * T1 = U * s - v0 -> al * s * D3 = U * s - v1 -> T1 - NS <= x1 <= T1 -> 0 <= y <= D3 ->
  Rabs (al * s * (x1 - y) + v0) <= Rmax U (Rabs v1) + al * NS.
Proof.
  intros Hs Hal HU E1 E3 Hx Hy. pose proof NS_pos as HN.
  assert (Hp : al * T1 - al * NS <= al * x1 <= al * T1) by nra.
  assert (Hq : 0 <= al * y <= al * D3) by nra.
  assert (HM : Rabs v1 <= Rmax U (Rabs v1)) by apply Rmax_r.
  assert (HM2 : U <= Rmax U (Rabs v1)) by apply Rmax_l.
  pose proof (Rle_abs v1). pose proof (Rle_abs (- v1)). rewrite Rabs_Ropp in *.
  assert (0 <= al * NS) by nra.
  apply Rabs_le.
  destruct Hs as [-> | ->]; split; nra.
Qed.

(* the polynomial the code evaluates in the last piece, as a function of the three switching instants *)
Definition V3f (A v0 y1 y2 x : R) : R := A * (y1 + y2 - x) + v0.
Definition P3f (A v0 p0 y1 y2 eta x : R) : R :=
  A * (y1 * (eta + y2)) - / 2 * A * ((x - y2) * (x - 2 * y1 - y2)) + v0 * x + p0.

(* exact arrival with the untruncated instants *)
Lemma ideal_arrival A V v0 v1 p0 p1 T1 D2 D3 :
  A * T1 = V - v0 -> A * D3 = V - v1 -> V * D2 = p1 - p0 - ((v0 + V) / 2 * T1 + (V + v1) / 2 * D3) ->
  V3f A v0 T1 (T1 + D2) (T1 + D2 + D3) = v1 /\ P3f A v0 p0 T1 (T1 + D2) (- T1 / 2) (T1 + D2 + D3) = p1.
Proof.
  intros E1 E3 E2. assert (Hv0 : v0 = V - A * T1) by lra. assert (Hv1 : v1 = V - A * D3) by lra.
  assert (Hp1 : p1 = V * D2 + p0 + ((v0 + V) / 2 * T1 + (V + v1) / 2 * D3)) by lra.
  unfold V3f, P3f. subst p1 v0 v1. split; field.
Qed.
(* the landing parabola: the last piece is exactly the constant-deceleration arc through its own value at x3 *)
Lemma P3f_arc A v0 p0 y1 y2 eta x x3 :
  P3f A v0 p0 y1 y2 eta x = P3f A v0 p0 y1 y2 eta x3 - V3f A v0 y1 y2 x3 * (x3 - x) - A / 2 * (x3 - x) * (x3 - x).
Proof. unfold P3f, V3f. field. Qed.
Lemma V3f_line A v0 y1 y2 x x3 : V3f A v0 y1 y2 x = V3f A v0 y1 y2 x3 + A * (x3 - x).
Proof. unfold V3f. ring. Qed.

Lemma arrive_vel s al U v0 v1 T1 D2 D3 x1 x2 x3 : (s = 1 \/ s = -1) -> 0 <= al ->
  al * s * T1 = U * s - v0 -> al * s * D3 = U * s - v1 ->
  T1 - NS <= x1 <= T1 -> T1 + D2 - NS <= x2 <= T1 + D2 -> T1 + D2 + D3 - NS <= x3 <= T1 + D2 + D3 ->
  Rabs (V3f (al * s) v0 x1 x2 x3 - v1) <= 2 * al * NS.
Proof.
  intros Hs Hal E1 E3 H1 H2 H3. unfold V3f. pose proof NS_pos as HN.
  replace (al * s * (x1 + x2 - x3) + v0 - v1) with (al * s * ((x1 - T1) + (x2 - (T1 + D2)) - (x3 - (T1 + D2 + D3)))) by nra.
  apply Rabs_le. destruct Hs as [-> | ->]; split; nra.
Qed.

Lemma P3f_perturb A v0 p0 T1 T2 T3 d1 d2 d3 eps :
  P3f A v0 p0 (T1 - d1) (T2 - d2) (- (T1 - d1) / 2 + eps) (T3 - d3) - P3f A v0 p0 T1 T2 (- T1 / 2) T3 =
  - (A * (T3 - T1)) * d1 - (A * (T3 - T2)) * d2 - V3f A v0 T1 T2 T3 * d3
  + A * ((- d1 * d1 - d2 * d2 - d3 * d3 + 2 * d1 * d3 + 2 * d2 * d3) / 2) + A * ((T1 - d1) * eps).
Proof. unfold P3f, V3f. field. Qed.
Lemma quad_bound d1 d2 d3 n : 0 <= d1 <= n -> 0 <= d2 <= n -> 0 <= d3 <= n ->
  - (n * n) <= (- d1 * d1 - d2 * d2 - d3 * d3 + 2 * d1 * d3 + 2 * d2 * d3) / 2 <= n * n.
Proof. intros H1 H2 H3. split; nra. Qed.

Lemma arrive_pos s al U v0 v1 p0 p1 T1 D2 D3 d1 d2 d3 eps :
  (s = 1 \/ s = -1) -> 0 <= al -> 0 <= U -> 0 <= T1 -> 0 <= D2 -> 0 <= D3 ->
  al * s * T1 = U * s - v0 -> al * s * D3 = U * s - v1 ->
  U * s * D2 = p1 - p0 - ((v0 + U * s) / 2 * T1 + (U * s + v1) / 2 * D3) ->
  0 <= d1 <= NS -> 0 <= d2 <= NS -> 0 <= d3 <= NS -> d1 <= T1 -> - (NS / 2) <= eps <= NS / 2 ->
  Rabs (P3f (al * s) v0 p0 (T1 - d1) (T1 + D2 - d2) (- (T1 - d1) / 2 + eps) (T1 + D2 + D3 - d3) - p1)
  <= NS * (al * (T1 + D2 + D3) + U + 2 * Rabs v1 + al * NS).
Proof.
  intros Hs Hal HU HT1 HD2 HD3 E1 E3 E2 H1 H2 H3 Hd1 He. pose proof NS_pos as HN.
  destruct (ideal_arrival (al * s) (U * s) v0 v1 p0 p1 T1 D2 D3 E1 E3 E2) as [Iv Ip].
  rewrite <- Ip at 1. rewrite P3f_perturb, Iv.
  pose proof (quad_bound d1 d2 d3 NS H1 H2 H3) as HQ.
  set (Q := (- d1 * d1 - d2 * d2 - d3 * d3 + 2 * d1 * d3 + 2 * d2 * d3) / 2) in *.
  replace (T1 + D2 + D3 - T1) with (D2 + D3) by ring. replace (T1 + D2 + D3 - (T1 + D2)) with D3 by ring.
  pose proof (Rle_abs v1) as Ha1. pose proof (Rle_abs (- v1)) as Ha2. rewrite Rabs_Ropp in Ha2.
  set (W := Rabs v1) in *.
  assert (B1 : 0 <= al * (D2 + D3) * d1 <= al * (D2 + D3) * NS) by (split; [apply Rmult_le_pos; [apply Rmult_le_pos|]; lra | apply Rmult_le_compat_l; [apply Rmult_le_pos; lra|lra]]).
  assert (K3 : 0 <= al * D3) by (apply Rmult_le_pos; lra).
  assert (B2 : 0 <= al * D3 * d2 <= al * D3 * NS) by (split; [apply Rmult_le_pos; lra | apply Rmult_le_compat_l; lra]).
  assert (B3 : - (W * NS) <= v1 * d3 <= W * NS) by (split; nra).
  assert (B4 : - (al * (NS * NS)) <= al * Q <= al * (NS * NS)) by (split; nra).
  assert (K5 : 0 <= al * (T1 - d1) <= al * T1) by (split; [apply Rmult_le_pos; lra|apply Rmult_le_compat_l; lra]).
  assert (B5 : - (al * T1 * (NS / 2)) <= al * ((T1 - d1) * eps) <= al * T1 * (NS / 2)).
  { replace (al * ((T1 - d1) * eps)) with (al * (T1 - d1) * eps) by ring. set (K := al * (T1 - d1)) in *. split; nra. }
  assert (B6 : al * D3 <= U + W) by (destruct Hs as [-> | ->]; lra).
  assert (B7 : al * D3 * NS <= (U + W) * NS) by (apply Rmult_le_compat_r; lra).
  assert (B8 : 0 <= al * T1) by (apply Rmult_le_pos; lra).
  apply Rabs_le.
  destruct Hs as [-> | ->]; split; nra.
Qed.

Lemma accepts_facts p0 v0 p1 v1 mv ma : accepts p0 v0 p1 v1 mv ma = true ->
  0 <= iT1 p0 v0 p1 mv ma /\ 0 <= iD3 p0 p1 v1 mv ma /\ 0 <= iD2 p0 v0 p1 v1 mv ma.
Proof.
  unfold accepts. intros H. apply andb_true_iff in H. destruct H as [H H2]. apply andb_true_iff in H. destruct H as [H1 H3].
  destruct (Rle_bool_spec 0 (iT1 p0 v0 p1 mv ma)); [|discriminate].
  destruct (Rle_bool_spec 0 (iD3 p0 p1 v1 mv ma)); [|discriminate].
  destruct (Rle_bool_spec 0 (iD2 p0 v0 p1 v1 mv ma)); [|discriminate]. repeat split; assumption.
Qed.
Lemma ideal_eqs p0 v0 p1 v1 mv ma : ma <> 0 ->
  let s := sgn p0 p1 in let al := Rabs ma in let U := Rabs mv in
  al * s * iT1 p0 v0 p1 mv ma = U * s - v0 /\ al * s * iD3 p0 p1 v1 mv ma = U * s - v1 /\
  (mv <> 0 -> U * s * iD2 p0 v0 p1 v1 mv ma =
              p1 - p0 - ((v0 + U * s) / 2 * iT1 p0 v0 p1 mv ma + (U * s + v1) / 2 * iD3 p0 p1 v1 mv ma)).
Proof.
  intros Hma s al U. assert (Hal : al <> 0) by (apply Rabs_no_R0; exact Hma).
  assert (Hs : s <> 0) by (destruct (sgn_cases p0 p1) as [E|E]; fold s in E; lra).
  unfold iT1, iD3, iD2, iP1, iP3, iT1, iD3, iV, iA. fold s al U. split; [|split].
  - field. split; assumption.
  - field. split; assumption.
  - intros Hmv. assert (HU : U <> 0) by (apply Rabs_no_R0; exact Hmv). field. repeat split; assumption.
Qed.

Local Close Scope R_scope.

(* ---- theorems about the record returned by the model's constructor ---- *)

Section Main.
Variable sb : bool.
Notation c := (cfg_chk sb).
Notation mp := (@mp R).
Definition vmax (mv v0 v1 : R) : R := Rmax (Rabs mv) (Rmax (Rabs v0) (Rabs v1)).

Lemma built_wd s0 s1 mv ma : wd (built s0 s1 mv ma).
Proof. repeat split. Qed.
(* 0 <= t1 <= t2 <= t3 on the real instance *)
Theorem built_ordered s0 s1 mv ma : accepted s0 s1 mv ma = true ->
  let p := built s0 s1 mv ma in 0 <= mp_t1 p <= mp_t2 p /\ mp_t2 p <= mp_t3 p <= I64MAX.
Proof.
  intros H p. apply accepts_facts in H. destruct H as (H1 & H3 & H2). unfold p, built. cbn [mp_t1 mp_t2 mp_t3].
  split; [split|split].
  - apply ns_of_nonneg. exact H1.
  - apply ns_of_mono. unfold iT2. lra.
  - apply ns_of_mono. unfold iT3. lra.
  - apply ns_of_le_max.
Qed.
Lemma end_vel_cases (s1 : @state R) q : c_get_vel c (c_of_state s1) = Some q -> qv q = 0%R \/ qv q = s_vel s1.
Proof.
  unfold c_of_state, c_get_vel. destruct (feqb (s_acc s1) fzero); [destruct (feqb (s_vel s1) fzero)|]; cbn [c_kind c_val cnew].
  - intros [= <-]. left. reflexivity.
  - intros [= <-]. right. reflexivity.
  - discriminate.
Qed.
Lemma vel_form (p : mp) t q : wd p -> 0 <= mp_t1 p <= mp_t2 p -> mp_t2 p <= mp_t3 p -> mp_vel c p t = Ok (Some q) ->
  (0 <= t < mp_t1 p /\ qv q = (qv (mp_max_acc p) * secs t + qv (mp_start_vel p))%R) \/
  (mp_t1 p <= t < mp_t2 p /\ qv q = (qv (mp_max_acc p) * secs (mp_t1 p) + qv (mp_start_vel p))%R) \/
  (mp_t2 p <= t < mp_t3 p /\ qv q = (qv (mp_max_acc p) * (secs (mp_t1 p) + secs (mp_t2 p) - secs t) + qv (mp_start_vel p))%R) \/
  (mp_t3 p <= t /\ c_get_vel c (mp_end p) = Some q).
Proof.
  intros Hw H12 H23 Hq.
  destruct (Z.ltb_spec t 0) as [Hn|Hn].
  { destruct (before_start_iff c p t) as (_ & _ & _ & Hb). destruct (Hb Hn) as [Hv _]. rewrite Hv in Hq. discriminate. }
  destruct (Z.ltb_spec t (mp_t1 p)) as [H1|H1].
  { left. split; [lia|]. rewrite (vel1 sb p t Hw) in Hq by lia. injection Hq as <-. reflexivity. }
  destruct (Z.ltb_spec t (mp_t2 p)) as [H2|H2].
  { right; left. split; [lia|]. rewrite (vel2 sb p t Hw) in Hq by lia. injection Hq as <-. reflexivity. }
  destruct (Z.ltb_spec t (mp_t3 p)) as [H3|H3].
  { right; right; left. split; [lia|]. rewrite (vel3_ok sb p t q Hw H12 ltac:(lia) Hq). reflexivity. }
  right; right; right. split; [lia|].
  pose proof (presence c p t) as Hp. assert (Hc : mp_piece p t = Complete) by (apply complete_iff_ordered; assumption).
  rewrite Hc in Hp. destruct Hp as [Hv _]. rewrite Hv in Hq. injection Hq as Hq. exact Hq.
Qed.

Theorem velocity_bound s0 s1 mv ma p t q :
  mp_new c s0 s1 mv ma = Ok p -> mp_vel c p t = Ok (Some q) ->
  (Rabs (qv q) <= vmax (qv mv) (s_vel s0) (s_vel s1) + (if t <? mp_t2 p then 0 else if t <? mp_t3 p then Rabs (qv ma) * NS else 0))%R.
Proof.
  intros Hn Hq. apply mp_new_inv in Hn. destruct Hn as (_ & _ & Hacc & ->).
  pose proof (built_ordered s0 s1 (qv mv) (qv ma) Hacc) as [H12 H23]. cbv zeta in H12, H23.
  pose proof (vel_form _ t q (built_wd s0 s1 (qv mv) (qv ma)) H12 (proj1 H23) Hq) as HF.
  set (p := built s0 s1 (qv mv) (qv ma)) in *.
  destruct s0 as [p0 v0 a0], s1 as [p1 v1 a1]. set (mvv := qv mv) in *. set (mav := qv ma) in *.
  unfold accepted in Hacc. cbn [s_pos s_vel] in *.
  pose proof (accepts_facts _ _ _ _ _ _ Hacc) as (HT1 & HD3 & HD2).
  pose proof (sgn_cases p0 p1) as Hs. pose proof (Rabs_pos mav) as Hal. pose proof (Rabs_pos mvv) as HU. pose proof NS_pos as HN.
  assert (M1 : (Rabs mvv <= vmax mvv v0 v1)%R) by apply Rmax_l.
  assert (M2 : (Rabs v0 <= vmax mvv v0 v1)%R) by (unfold vmax; eapply Rle_trans; [apply Rmax_l|apply Rmax_r]).
  assert (M3 : (Rabs v1 <= vmax mvv v0 v1)%R) by (unfold vmax; eapply Rle_trans; [apply Rmax_r|apply Rmax_r]).
  assert (Hx1 : (0 <= secs (mp_t1 p) <= iT1 p0 v0 p1 mvv mav)%R).
  { split; [|apply ns_of_below; exact HT1]. unfold secs. apply Rmult_le_pos; [apply IZR_le; lia|lra]. }
  destruct (Req_dec mav 0) as [Hz|Hnz].
  { (* max_acc = 0: the velocity never changes *)
    assert (Ha : qv (mp_max_acc p) = 0%R) by (unfold p, built; cbn [mp_max_acc qv qnew]; unfold iA; rewrite Hz, Rabs_R0; ring).
    assert (Hv0 : forall X, (Rabs (0 * X + v0) <= vmax mvv v0 v1 + 0)%R) by (intros X; replace (0 * X + v0)%R with v0 by ring; lra).
    destruct HF as [[Hr E]|[[Hr E]|[[Hr E]|[Hr E]]]].
    - destruct (Z.ltb_spec t (mp_t2 p)); [|lia]. rewrite E, Ha. apply Hv0.
    - destruct (Z.ltb_spec t (mp_t2 p)); [|lia]. rewrite E, Ha. apply Hv0.
    - destruct (Z.ltb_spec t (mp_t2 p)); [lia|]. destruct (Z.ltb_spec t (mp_t3 p)); [|lia]. rewrite E, Ha.
      eapply Rle_trans; [apply Hv0|]. rewrite Hz, Rabs_R0. lra.
    - destruct (Z.ltb_spec t (mp_t2 p)); [lia|]. destruct (Z.ltb_spec t (mp_t3 p)); [lia|].
      apply end_vel_cases in E. destruct E as [-> | ->]; [rewrite Rabs_R0; pose proof (Rabs_pos v0); lra|cbn [s_vel]; lra]. }
  destruct (ideal_eqs p0 v0 p1 v1 mvv mav Hnz) as (E1 & E3 & _). cbv zeta in E1, E3.
  assert (Ha : qv (mp_max_acc p) = (Rabs mav * sgn p0 p1)%R) by reflexivity.
  assert (Hv : qv (mp_start_vel p) = v0) by reflexivity.
  destruct HF as [[Hr E]|[[Hr E]|[[Hr E]|[Hr E]]]].
  - destruct (Z.ltb_spec t (mp_t2 p)); [|lia]. rewrite E, Ha, Hv.
    assert (Hx : (0 <= secs t <= iT1 p0 v0 p1 mvv mav)%R).
    { split; [unfold secs; apply Rmult_le_pos; [apply IZR_le; lia|lra]|].
      eapply Rle_trans; [|apply (proj2 Hx1)]. unfold secs. apply Rmult_le_compat_r; [lra|apply IZR_le; lia]. }
    pose proof (vb12 _ _ _ _ _ _ Hs Hal HU E1 Hx) as B.
    assert ((Rmax (Rabs mvv) (Rabs v0) <= vmax mvv v0 v1)%R) by (apply Rmax_lub; assumption). lra.
  - destruct (Z.ltb_spec t (mp_t2 p)); [|lia]. rewrite E, Ha, Hv.
    pose proof (vb12 _ _ _ _ _ _ Hs Hal HU E1 Hx1) as B.
    assert ((Rmax (Rabs mvv) (Rabs v0) <= vmax mvv v0 v1)%R) by (apply Rmax_lub; assumption). lra.
  - destruct (Z.ltb_spec t (mp_t2 p)); [lia|]. destruct (Z.ltb_spec t (mp_t3 p)); [|lia]. rewrite E, Ha, Hv.
    replace (secs (mp_t1 p) + secs (mp_t2 p) - secs t)%R with (secs (mp_t1 p) - (secs t - secs (mp_t2 p)))%R by ring.
    assert (Hns1 : mp_t1 p < I64MAX) by (unfold I64MAX in *; lia).
    assert (Hns2 : mp_t2 p < I64MAX) by (unfold I64MAX in *; lia).
    pose proof (ns_of_above _ HT1 Hns1) as A1.
    assert (HT2 : (0 <= iT2 p0 v0 p1 v1 mvv mav)%R) by (unfold iT2; lra).
    assert (HT3 : (0 <= iT3 p0 v0 p1 v1 mvv mav)%R) by (unfold iT3; lra).
    pose proof (ns_of_above _ HT2 Hns2) as A2. pose proof (ns_of_below _ HT3) as A3.
    change (ns_of (iT1 p0 v0 p1 mvv mav)) with (mp_t1 p) in A1. change (ns_of (iT2 p0 v0 p1 v1 mvv mav)) with (mp_t2 p) in A2.
    change (ns_of (iT3 p0 v0 p1 v1 mvv mav)) with (mp_t3 p) in A3.
    assert (Hy : (0 <= secs t - secs (mp_t2 p) <= iD3 p0 p1 v1 mvv mav)%R).
    { assert ((secs (mp_t2 p) <= secs t)%R) by (unfold secs; apply Rmult_le_compat_r; [lra|apply IZR_le; lia]).
      assert ((secs t <= secs (mp_t3 p) - NS)%R).
      { replace (secs (mp_t3 p) - NS)%R with (secs (mp_t3 p - 1)) by (rewrite secs_sub; unfold secs, NS; field).
        unfold secs; apply Rmult_le_compat_r; [lra|apply IZR_le; lia]. }
      unfold iT3 in A3. lra. }
    assert (Hx : (iT1 p0 v0 p1 mvv mav - NS <= secs (mp_t1 p) <= iT1 p0 v0 p1 mvv mav)%R) by lra.
    pose proof (vb3 _ _ _ _ _ _ _ _ _ Hs Hal HU E1 E3 Hx Hy) as B.
    assert ((Rmax (Rabs mvv) (Rabs v1) <= vmax mvv v0 v1)%R) by (apply Rmax_lub; assumption). lra.
  - destruct (Z.ltb_spec t (mp_t2 p)); [lia|]. destruct (Z.ltb_spec t (mp_t3 p)); [lia|].
    apply end_vel_cases in E. destruct E as [-> | ->]; [rewrite Rabs_R0; pose proof (Rabs_pos v0); lra|cbn [s_vel]; lra].
Qed.

(* the three truncated instants against the exact ones *)
Lemma trunc_window s0 s1 mv ma : accepted s0 s1 mv ma = true ->
  let p := built s0 s1 mv ma in mp_t3 p < I64MAX ->
  let T1 := iT1 (s_pos s0) (s_vel s0) (s_pos s1) mv ma in
  let T2 := iT2 (s_pos s0) (s_vel s0) (s_pos s1) (s_vel s1) mv ma in
  let T3 := iT3 (s_pos s0) (s_vel s0) (s_pos s1) (s_vel s1) mv ma in
  (0 <= T1 - secs (mp_t1 p) <= NS /\ 0 <= T2 - secs (mp_t2 p) <= NS /\ 0 <= T3 - secs (mp_t3 p) <= NS /\ 0 <= secs (mp_t1 p))%R.
Proof.
  intros Hacc p Hns T1 T2 T3. pose proof (built_ordered s0 s1 mv ma Hacc) as [H12 H23]. cbv zeta in H12, H23. fold p in H12, H23.
  unfold accepted in Hacc. pose proof (accepts_facts _ _ _ _ _ _ Hacc) as (HT1 & HD3 & HD2). fold T1 in HT1.
  assert (HT2 : (0 <= T2)%R) by (unfold T2, iT2; fold T1; lra).
  assert (HT3 : (0 <= T3)%R) by (unfold T3, iT3; fold T2; lra).
  assert (N1 : ns_of T1 < I64MAX) by (change (ns_of T1) with (mp_t1 p); lia).
  assert (N2 : ns_of T2 < I64MAX) by (change (ns_of T2) with (mp_t2 p); lia).
  assert (N3 : ns_of T3 < I64MAX) by (change (ns_of T3) with (mp_t3 p); lia).
  pose proof (ns_of_above _ HT1 N1) as A1. pose proof (ns_of_above _ HT2 N2) as A2. pose proof (ns_of_above _ HT3 N3) as A3.
  pose proof (ns_of_below _ HT1) as B1. pose proof (ns_of_below _ HT2) as B2. pose proof (ns_of_below _ HT3) as B3.
  change (ns_of T1) with (mp_t1 p) in *. change (ns_of T2) with (mp_t2 p) in *. change (ns_of T3) with (mp_t3 p) in *.
  pose proof NS_pos. repeat split; try lra. unfold secs. apply Rmult_le_pos; [apply IZR_le; lia|lra].
Qed.

(* ARRIVAL, velocity: throughout the final piece the velocity lies on the straight line of slope -a that reaches
   the end velocity exactly at t3, up to 2 |max_acc| ns *)
Theorem arrival_velocity s0 s1 mv ma p t q :
  mp_new c s0 s1 mv ma = Ok p -> qv ma <> 0%R -> mp_t3 p < I64MAX ->
  mp_t2 p <= t < mp_t3 p -> mp_vel c p t = Ok (Some q) ->
  (Rabs (qv q - (s_vel s1 + qv (mp_max_acc p) * (secs (mp_t3 p) - secs t))) <= 2 * Rabs (qv ma) * NS)%R.
Proof.
  intros Hn Hnz Hns Ht Hq. apply mp_new_inv in Hn. destruct Hn as (_ & _ & Hacc & ->).
  pose proof (built_ordered s0 s1 (qv mv) (qv ma) Hacc) as [H12 H23]. cbv zeta in H12, H23.
  pose proof (trunc_window s0 s1 (qv mv) (qv ma) Hacc Hns) as (W1 & W2 & W3 & _).
  rewrite (vel3_ok sb _ t q (built_wd s0 s1 (qv mv) (qv ma)) H12 Ht Hq). cbn [qv qnew].
  set (p := built s0 s1 (qv mv) (qv ma)) in *.
  destruct s0 as [p0 v0 a0], s1 as [p1 v1 a1]. set (mvv := qv mv) in *. set (mav := qv ma) in *.
  unfold accepted in Hacc. cbn [s_pos s_vel] in *.
  pose proof (sgn_cases p0 p1) as Hs. pose proof (Rabs_pos mav) as Hal.
  destruct (ideal_eqs p0 v0 p1 v1 mvv mav Hnz) as (E1 & E3 & _). cbv zeta in E1, E3.
  change (qv (mp_max_acc p)) with (Rabs mav * sgn p0 p1)%R. change (qv (mp_start_vel p)) with v0.
  unfold iT3, iT2 in W2, W3.
  pose proof (arrive_vel _ _ (Rabs mvv) v0 v1 (iT1 p0 v0 p1 mvv mav) (iD2 p0 v0 p1 v1 mvv mav) (iD3 p0 p1 v1 mvv mav)
               (secs (mp_t1 p)) (secs (mp_t2 p)) (secs (mp_t3 p)) Hs Hal E1 E3 ltac:(lra) ltac:(lra) ltac:(lra)) as B.
  unfold V3f in B.
  match goal with |- (Rabs ?e <= _)%R => replace e with (Rabs mav * sgn p0 p1 * (secs (mp_t1 p) + secs (mp_t2 p) - secs (mp_t3 p)) + v0 - v1)%R by ring end.
  exact B.
Qed.

(* ARRIVAL, position: throughout the final piece the position lies on the constant-deceleration arc that reaches
   (end position, end velocity) exactly at t3, up to pos_slack + 2 |max_acc| ns * (time to go) *)
Definition pos_slack (s0 s1 : @state R) (mv ma : R) : R :=
  (NS * (Rabs ma * iT3 (s_pos s0) (s_vel s0) (s_pos s1) (s_vel s1) mv ma + Rabs mv + 2 * Rabs (s_vel s1) + Rabs ma * NS))%R.
Theorem arrival_position s0 s1 mv ma p t q :
  mp_new c s0 s1 mv ma = Ok p -> qv ma <> 0%R -> qv mv <> 0%R -> mp_t3 p < I64MAX ->
  mp_t2 p <= t < mp_t3 p -> mp_pos c p t = Ok (Some q) ->
  let D := (secs (mp_t3 p) - secs t)%R in
  (Rabs (qv q - (s_pos s1 - s_vel s1 * D - qv (mp_max_acc p) / 2 * D * D))
   <= pos_slack s0 s1 (qv mv) (qv ma) + 2 * Rabs (qv ma) * NS * D)%R.
Proof.
  intros Hn Hnz Hmz Hns Ht Hq D. apply mp_new_inv in Hn. destruct Hn as (_ & _ & Hacc & ->).
  pose proof (built_ordered s0 s1 (qv mv) (qv ma) Hacc) as [H12 H23]. cbv zeta in H12, H23.
  pose proof (trunc_window s0 s1 (qv mv) (qv ma) Hacc Hns) as (W1 & W2 & W3 & W0).
  rewrite (pos3_ok sb _ t q (built_wd s0 s1 (qv mv) (qv ma)) H12 Ht ltac:(unfold I64MAX in *; lia) Hq). cbn [qv qnew].
  pose proof (pos_join1_R (built s0 s1 (qv mv) (qv ma)) (proj1 H12)) as [_ He]. cbv zeta in He.
  unfold pos_slack. subst D.
  set (p := built s0 s1 (qv mv) (qv ma)) in *.
  destruct s0 as [p0 v0 a0], s1 as [p1 v1 a1]. set (mvv := qv mv) in *. set (mav := qv ma) in *.
  unfold accepted in Hacc. cbn [s_pos s_vel] in *.
  pose proof (accepts_facts _ _ _ _ _ _ Hacc) as (HT1 & HD3 & HD2).
  pose proof (sgn_cases p0 p1) as Hs. pose proof (Rabs_pos mav) as Hal. pose proof (Rabs_pos mvv) as HU. pose proof NS_pos as HN.
  destruct (ideal_eqs p0 v0 p1 v1 mvv mav Hnz) as (E1 & E3 & E2). specialize (E2 Hmz). cbv zeta in E1, E3, E2.
  change (qv (mp_max_acc p)) with (Rabs mav * sgn p0 p1)%R. change (qv (mp_start_vel p)) with v0. change (qv (mp_start_pos p)) with p0.
  set (T1 := iT1 p0 v0 p1 mvv mav) in *. set (D2 := iD2 p0 v0 p1 v1 mvv mav) in *. set (D3 := iD3 p0 p1 v1 mvv mav) in *.
  unfold iT3, iT2 in *. fold T1 D2 D3 in W2, W3 |- *.
  set (x1 := secs (mp_t1 p)) in *. set (x2 := secs (mp_t2 p)) in *. set (x3 := secs (mp_t3 p)) in *. set (x := secs t).
  set (eta := secs (hneg p)) in *. set (A := (Rabs mav * sgn p0 p1)%R).
  assert (Hx : (x <= x3)%R) by (unfold x, x3, secs; apply Rmult_le_compat_r; [lra|apply IZR_le; lia]).
  apply Rabs_le_inv in He. replace (/ 2 / 1000000000)%R with (NS / 2)%R in He by (unfold NS; field).
  pose proof (arrive_pos _ _ (Rabs mvv) v0 v1 p0 p1 T1 D2 D3 (T1 - x1) (T1 + D2 - x2) (T1 + D2 + D3 - x3) (eta + x1 / 2)
               Hs Hal HU HT1 HD2 HD3 E1 E3 E2 ltac:(lra) ltac:(lra) ltac:(lra) ltac:(lra) ltac:(lra)) as BP.
  replace (T1 - (T1 - x1))%R with x1 in BP by ring. replace (T1 + D2 - (T1 + D2 - x2))%R with x2 in BP by ring.
  replace (T1 + D2 + D3 - (T1 + D2 + D3 - x3))%R with x3 in BP by ring. replace (- x1 / 2 + (eta + x1 / 2))%R with eta in BP by field.
  pose proof (arrive_vel _ _ (Rabs mvv) v0 v1 T1 D2 D3 x1 x2 x3 Hs Hal E1 E3 ltac:(lra) ltac:(lra) ltac:(lra)) as BV.
  fold A in BP, BV.
  match goal with |- (Rabs ?e <= _)%R =>
    replace e with ((P3f A v0 p0 x1 x2 eta x3 - p1) - (V3f A v0 x1 x2 x3 - v1) * (x3 - x))%R by (unfold P3f, V3f; field) end.
  eapply Rle_trans; [apply Rabs_triang|]. rewrite Rabs_Ropp, Rabs_mult, (Rabs_pos_eq (x3 - x)) by lra.
  assert ((Rabs (V3f A v0 x1 x2 x3 - v1) * (x3 - x) <= 2 * Rabs mav * NS * (x3 - x))%R) by (apply Rmult_le_compat_r; lra).
  lra.
Qed.
End Main.

(* ---- negation symmetry ---- *)

Section Neg.
Variable sb : bool.
Notation c := (cfg_chk sb).
Notation mp := (@mp R).
Notation quantity := (@quantity R).
Definition mp_negate (p : mp) : mp :=
  {| mp_start_pos := qneg (mp_start_pos p); mp_start_vel := qneg (mp_start_vel p);
     mp_t1 := mp_t1 p; mp_t2 := mp_t2 p; mp_t3 := mp_t3 p;
     mp_max_acc := qneg (mp_max_acc p); mp_end := c_neg (mp_end p) |}.

Lemma q_eq (x y : quantity) : qv x = qv y -> qu x = qu y -> x = y.
Proof. destruct x, y. cbn. intros -> ->. reflexivity. Qed.
Lemma qmul_neg_l (x y : quantity) : qmul c (qneg x) y = qneg (qmul c x y).
Proof. apply q_eq; [cbn; ring|reflexivity]. Qed.
Lemma qmul_neg_r (x y : quantity) : qmul c x (qneg y) = qneg (qmul c x y).
Proof. apply q_eq; [cbn; ring|reflexivity]. Qed.
Lemma qadd_neg (x y : quantity) : qadd c (qneg x) (qneg y) = res_map qneg (qadd c x y).
Proof.
  unfold qadd. cbn [qneg qu qnew]. destruct (uadd c (qu x) (qu y)) as [u|]; cbn [bind res_map]; [|reflexivity].
  f_equal. apply q_eq; [cbn; ring|reflexivity].
Qed.
Lemma qsub_neg (x y : quantity) : qsub c (qneg x) (qneg y) = res_map qneg (qsub c x y).
Proof.
  unfold qsub. cbn [qneg qu qnew]. destruct (usub c (qu x) (qu y)) as [u|]; cbn [bind res_map]; [|reflexivity].
  f_equal. apply q_eq; [cbn; ring|reflexivity].
Qed.
Lemma qneg_zero u : qnew (@fzero R RR) u = qneg (qnew (@fzero R RR) u).
Proof. apply q_eq; [cbn; ring|reflexivity]. Qed.

Lemma neg_acc (p : mp) t : mp_acc c (mp_negate p) t = option_map qneg (mp_acc c p t).
Proof.
  unfold mp_acc, mp_negate. cbn [mp_t1 mp_t2 mp_t3 mp_max_acc mp_end].
  destruct (t <? 0); [reflexivity|]. destruct (t <? mp_t1 p); [reflexivity|].
  destruct (t <? mp_t2 p); [cbn [option_map]; f_equal; apply qneg_zero|]. destruct (t <? mp_t3 p); [reflexivity|].
  cbn [option_map]. f_equal. unfold c_get_acc, c_neg. cbn [c_kind c_val cnew]. apply q_eq; [|reflexivity].
  cbn [qv qneg qnew]. destruct (c_kind (mp_end p)); cbn; ring.
Qed.
Lemma neg_vel (p : mp) t : mp_vel c (mp_negate p) t = res_map (option_map qneg) (mp_vel c p t).
Proof.
  unfold mp_vel, mp_negate. cbn [mp_t1 mp_t2 mp_t3 mp_max_acc mp_end mp_start_vel].
  destruct (t <? 0); [reflexivity|]. destruct (t <? mp_t1 p).
  { rewrite qmul_neg_l, qadd_neg. destruct (qadd c _ _); reflexivity. }
  destruct (t <? mp_t2 p).
  { rewrite qmul_neg_l, qadd_neg. destruct (qadd c _ _); reflexivity. }
  destruct (t <? mp_t3 p).
  { destruct (iadd _ _) as [s12|]; cbn [bind res_map]; [|reflexivity].
    destruct (isub _ _) as [tz|]; cbn [bind res_map]; [|reflexivity].
    rewrite qmul_neg_l, qadd_neg. destruct (qadd c _ _); reflexivity. }
  cbn [res_map]. f_equal. unfold c_get_vel, c_neg. cbn [c_kind c_val cnew].
  destruct (c_kind (mp_end p)); cbn [option_map]; [f_equal; apply qneg_zero|reflexivity|reflexivity].
Qed.
Lemma neg_pos (p : mp) t : mp_pos c (mp_negate p) t = res_map (option_map qneg) (mp_pos c p t).
Proof.
  unfold mp_pos, t1_term, mp_negate. cbn [mp_t1 mp_t2 mp_t3 mp_max_acc mp_end mp_start_vel mp_start_pos].
  destruct (t <? 0); [reflexivity|]. destruct (t <? mp_t1 p).
  { rewrite !qmul_neg_r, !qmul_neg_l, qadd_neg. destruct (qadd c _ _) as [s1|]; cbn [bind res_map]; [|reflexivity].
    rewrite qadd_neg. destruct (qadd c _ _); reflexivity. }
  destruct (t <? mp_t2 p).
  { destruct (ineg _) as [n|]; cbn [bind res_map]; [|reflexivity].
    destruct (idiv _ _) as [h|]; cbn [bind res_map]; [|reflexivity].
    destruct (iadd _ _) as [y|]; cbn [bind res_map]; [|reflexivity].
    rewrite !qmul_neg_l, qadd_neg. destruct (qadd c _ _) as [s1|]; cbn [bind res_map]; [|reflexivity].
    rewrite qadd_neg. destruct (qadd c _ _); reflexivity. }
  destruct (t <? mp_t3 p).
  { destruct (ineg _) as [n|]; cbn [bind res_map]; [|reflexivity].
    destruct (idiv _ _) as [h|]; cbn [bind res_map]; [|reflexivity].
    destruct (iadd _ _) as [y|]; cbn [bind res_map]; [|reflexivity].
    destruct (isub t _) as [d1|]; cbn [bind res_map]; [|reflexivity].
    destruct (imul _ _) as [tw|]; cbn [bind res_map]; [|reflexivity].
    destruct (isub t _) as [d2a|]; cbn [bind res_map]; [|reflexivity].
    destruct (isub d2a _) as [d2|]; cbn [bind res_map]; [|reflexivity].
    rewrite !qmul_neg_r, !qmul_neg_l, qsub_neg. destruct (qsub c _ _) as [s0'|]; cbn [bind res_map]; [|reflexivity].
    rewrite qadd_neg. destruct (qadd c _ _) as [s1|]; cbn [bind res_map]; [|reflexivity].
    rewrite qadd_neg. destruct (qadd c _ _); reflexivity. }
  cbn [res_map]. f_equal. unfold c_get_pos, c_neg. cbn [c_kind c_val cnew].
  destruct (c_kind (mp_end p)); reflexivity.
Qed.

(* the constructor: for NON-ZERO displacement the mirrored inputs give the mirrored record, with identical instants *)
Lemma sgn_neg p0 p1 : p1 <> p0 -> sgn (- p0) (- p1) = (- sgn p0 p1)%R.
Proof.
  intros H. unfold sgn. destruct (Rlt_bool_spec p1 p0) as [L|L]; destruct (Rlt_bool_spec (- p1) (- p0)) as [L'|L']; try lra.
Qed.
Lemma ideal_neg p0 v0 p1 v1 mv ma : p1 <> p0 ->
  iA (- p0) (- p1) ma = (- iA p0 p1 ma)%R /\
  iT1 (- p0) (- v0) (- p1) mv ma = iT1 p0 v0 p1 mv ma /\
  iD3 (- p0) (- p1) (- v1) mv ma = iD3 p0 p1 v1 mv ma /\
  iD2 (- p0) (- v0) (- p1) (- v1) mv ma = iD2 p0 v0 p1 v1 mv ma.
Proof.
  intros H. unfold iD2, iP1, iP3, iT1, iD3, iV, iA. rewrite (sgn_neg p0 p1 H). unfold Rdiv.
  replace (Rabs ma * - sgn p0 p1)%R with (- (Rabs ma * sgn p0 p1))%R by ring.
  replace (Rabs mv * - sgn p0 p1)%R with (- (Rabs mv * sgn p0 p1))%R by ring.
  rewrite !Rinv_opp. repeat split; ring.
Qed.
Lemma c_of_state_neg (s1 : @state R) : c_of_state (s_neg s1) = c_neg (c_of_state s1).
Proof.
  unfold c_of_state, s_neg, snew_raw. cbn [s_pos s_vel s_acc].
  assert (E : forall x : R, feqb (fneg x) fzero = feqb x fzero).
  { intros x. cbn. destruct (Req_bool_spec x 0) as [->|N].
    - apply Req_bool_true. ring.
    - apply Req_bool_false. lra. }
  rewrite !E. destruct (feqb (s_acc s1) fzero); [destruct (feqb (s_vel s1) fzero)|]; reflexivity.
Qed.
Theorem neg_constructor s0 s1 mv ma : s_pos s1 <> s_pos s0 ->
  mp_new c (s_neg s0) (s_neg s1) mv ma = res_map mp_negate (mp_new c s0 s1 mv ma).
Proof.
  intros H. rewrite !mp_new_char.
  destruct (ideal_neg (s_pos s0) (s_vel s0) (s_pos s1) (s_vel s1) (qv mv) (qv ma) H) as (EA & E1 & E3 & E2).
  assert (Eacc : accepted (s_neg s0) (s_neg s1) (qv mv) (qv ma) = accepted s0 s1 (qv mv) (qv ma)).
  { unfold accepted, accepts, s_neg, snew_raw. cbn [s_pos s_vel fneg RR]. rewrite E1, E3, E2. reflexivity. }
  rewrite Eacc. destruct (ueqb (qu mv) UVm && ueqb (qu ma) UAm && accepted s0 s1 (qv mv) (qv ma)); [|reflexivity].
  cbn [res_map]. f_equal. unfold built, mp_negate. cbn [mp_start_pos mp_start_vel mp_t1 mp_t2 mp_t3 mp_max_acc mp_end].
  rewrite c_of_state_neg. unfold iT3, iT2, s_neg, snew_raw. cbn [s_pos s_vel fneg RR]. rewrite E1, E3, E2, EA. reflexivity.
Qed.
(* NEGATION SYMMETRY (non-zero displacement): same acceptance, and every output at every instant negated exactly *)
Theorem negation_symmetry s0 s1 mv ma : s_pos s1 <> s_pos s0 ->
  match mp_new c s0 s1 mv ma, mp_new c (s_neg s0) (s_neg s1) mv ma with
  | Ok p, Ok p' => forall t,
      mp_piece p' t = mp_piece p t /\
      mp_acc c p' t = option_map qneg (mp_acc c p t) /\
      mp_vel c p' t = res_map (option_map qneg) (mp_vel c p t) /\
      mp_pos c p' t = res_map (option_map qneg) (mp_pos c p t)
  | Panic, Panic => True
  | _, _ => False
  end.
Proof.
  intros H. rewrite (neg_constructor s0 s1 mv ma H). destruct (mp_new c s0 s1 mv ma) as [p|]; cbn [res_map]; [|exact I].
  intros t. split; [reflexivity|]. split; [apply neg_acc|]. split; [apply neg_vel|apply neg_pos].
Qed.
End Neg.

(* ---- acceptance ---- *)

(* distance covered while changing speed from |v| to the cruise speed (or back) at the acceleration limit *)
Definition ramp_dist (mv ma v : R) : R := ((Rabs mv * Rabs mv - v * v) / (2 * Rabs ma))%R.
Lemma accepts_sufficient p0 v0 p1 v1 mv ma : mv <> 0%R -> ma <> 0%R ->
  (Rabs v0 <= Rabs mv)%R -> (Rabs v1 <= Rabs mv)%R ->
  (ramp_dist mv ma v0 + ramp_dist mv ma v1 <= Rabs (p1 - p0))%R ->
  accepts p0 v0 p1 v1 mv ma = true.
Proof.
  intros Hmv Hma Hv0 Hv1 Hd. unfold ramp_dist in Hd.
  pose proof (Rabs_pos_lt mv Hmv) as HU. pose proof (Rabs_pos_lt ma Hma) as Hal.
  set (U := Rabs mv) in *. set (al := Rabs ma) in *.
  apply Rabs_le_inv in Hv0, Hv1.
  assert (Hsd : (sgn p0 p1 = 1 /\ Rabs (p1 - p0) = p1 - p0 \/ sgn p0 p1 = -1 /\ Rabs (p1 - p0) = - (p1 - p0))%R).
  { unfold sgn. destruct (Rlt_bool_spec p1 p0) as [L|L]; [right|left]; split; try lra.
    - apply Rabs_left. lra. - apply Rabs_pos_eq. lra. }
  assert (E1 : iT1 p0 v0 p1 mv ma = ((U - sgn p0 p1 * v0) / al)%R).
  { unfold iT1, iV, iA. fold U al. destruct Hsd as [[-> _]|[-> _]]; field; lra. }
  assert (E3 : iD3 p0 p1 v1 mv ma = ((U - sgn p0 p1 * v1) / al)%R).
  { unfold iD3, iV, iA. fold U al. destruct Hsd as [[-> _]|[-> _]]; field; lra. }
  assert (E2 : iD2 p0 v0 p1 v1 mv ma = ((Rabs (p1 - p0) - ((U * U - v0 * v0) / (2 * al) + (U * U - v1 * v1) / (2 * al))) / U)%R).
  { unfold iD2, iP1, iP3, iT1, iD3, iV, iA. fold U al. destruct Hsd as [[-> ->]|[-> ->]]; field; lra. }
  unfold accepts. rewrite E1, E3, E2.
  assert (0 < / al)%R by (apply Rinv_0_lt_compat; exact Hal). assert (0 < / U)%R by (apply Rinv_0_lt_compat; exact HU).
  rewrite !Rle_bool_true; [reflexivity| | |]; unfold Rdiv; apply Rmult_le_pos; try lra.
  - destruct Hsd as [[-> _]|[-> _]]; lra.
  - destruct Hsd as [[-> _]|[-> _]]; lra.
Qed.

Section Acc.
Variable sb : bool.
Notation c := (cfg_chk sb).
(* ACCEPTANCE: speeds within the limit and displacement at least the acceleration + deceleration distance *)
Theorem acceptance (s0 s1 : @state R) (mv ma : @quantity R) :
  qu mv = UVm -> qu ma = UAm -> qv mv <> 0%R -> qv ma <> 0%R ->
  (Rabs (s_vel s0) <= Rabs (qv mv))%R -> (Rabs (s_vel s1) <= Rabs (qv mv))%R ->
  (ramp_dist (qv mv) (qv ma) (s_vel s0) + ramp_dist (qv mv) (qv ma) (s_vel s1) <= Rabs (s_pos s1 - s_pos s0))%R ->
  mp_new c s0 s1 mv ma = Ok (built s0 s1 (qv mv) (qv ma)).
Proof.
  intros U1 U2 Hmv Hma Hv0 Hv1 Hd. rewrite mp_new_char, U1, U2. unfold accepted.
  rewrite (accepts_sufficient _ _ _ _ _ _ Hmv Hma Hv0 Hv1 Hd). reflexivity.
Qed.
End Acc.

(* ---- completion, last sample, idealised (untruncated) constructor ---- *)

Section Extras.
Variable sb : bool.
Notation c := (cfg_chk sb).
Notation mp := (@mp R).

(* from t3 on the accessors return the end state's velocity / position exactly (when the end command carries them) *)
Theorem completion_exact s0 s1 mv ma p t :
  mp_new c s0 s1 mv ma = Ok p -> mp_t3 p <= t -> s_acc s1 = 0%R ->
  mp_vel c p t = Ok (Some (qnew (s_vel s1) UVm)) /\
  (s_vel s1 = 0%R -> mp_pos c p t = Ok (Some (qnew (s_pos s1) UPm))).
Proof.
  intros Hn Ht Ha. apply mp_new_inv in Hn. destruct Hn as (_ & _ & Hacc & ->).
  pose proof (built_ordered s0 s1 (qv mv) (qv ma) Hacc) as [H12 H23]. cbv zeta in H12, H23.
  set (p := built s0 s1 (qv mv) (qv ma)) in *.
  assert (Hc : mp_piece p t = Complete) by (apply complete_iff_ordered; [exact H12|exact (proj1 H23)|exact Ht]).
  pose proof (presence c p t) as Hp. rewrite Hc in Hp. destruct Hp as [Hv Hq]. rewrite Hv, Hq.
  change (mp_end p) with (c_of_state s1). unfold c_of_state. cbn [feqb RR fzero f_of_Z]. rewrite Ha.
  rewrite (Req_bool_true 0 0) by reflexivity.
  destruct (Req_bool_spec (s_vel s1) 0) as [E|E].
  - split; [rewrite E; reflexivity|intros _; reflexivity].
  - split; [reflexivity|intros E'; contradiction].
Qed.

(* the sample one nanosecond before completion *)
Corollary last_sample s0 s1 mv ma p qv_ qp_ :
  mp_new c s0 s1 mv ma = Ok p -> qv ma <> 0%R -> qv mv <> 0%R -> mp_t3 p < I64MAX -> mp_t2 p < mp_t3 p ->
  mp_vel c p (mp_t3 p - 1) = Ok (Some qv_) -> mp_pos c p (mp_t3 p - 1) = Ok (Some qp_) ->
  (Rabs (qv qv_ - s_vel s1) <= 3 * Rabs (qv ma) * NS /\
   Rabs (qv qp_ - s_pos s1) <= pos_slack s0 s1 (qv mv) (qv ma) + NS * (Rabs (s_vel s1) + 3 * Rabs (qv ma) * NS))%R.
Proof.
  intros Hn Hnz Hmz Hns H23 Hv Hp.
  pose proof (arrival_velocity sb s0 s1 mv ma p (mp_t3 p - 1) qv_ Hn Hnz Hns ltac:(lia) Hv) as BV.
  pose proof (arrival_position sb s0 s1 mv ma p (mp_t3 p - 1) qp_ Hn Hnz Hmz Hns ltac:(lia) Hp) as BP. cbv zeta in BP.
  assert (ED : (secs (mp_t3 p) - secs (mp_t3 p - 1) = NS)%R) by (rewrite secs_sub; unfold secs, NS; field).
  rewrite ED in BV, BP.
  assert (EA : Rabs (qv (mp_max_acc p)) = Rabs (qv ma)).
  { apply mp_new_inv in Hn. destruct Hn as (_ & _ & _ & ->). cbn [built mp_max_acc qv qnew]. unfold iA.
    rewrite Rabs_mult, Rabs_Rabsolu. destruct (sgn_cases (s_pos s0) (s_pos s1)) as [-> | ->]; [rewrite Rabs_R1|rewrite (Rabs_left (-1)) by lra]; ring. }
  pose proof NS_pos as HN. pose proof (Rabs_pos (qv ma)) as Hal.
  set (a := qv (mp_max_acc p)) in *. set (W := Rabs (qv ma)) in *.
  pose proof (Rle_abs a) as A1. pose proof (Rle_abs (- a)) as A2. rewrite Rabs_Ropp, EA in A2. rewrite EA in A1.
  pose proof (Rle_abs (s_vel s1)) as V1. pose proof (Rle_abs (- s_vel s1)) as V2. rewrite Rabs_Ropp in V2.
  set (Wv := Rabs (s_vel s1)) in *.
  apply Rabs_le_inv in BV, BP. split; apply Rabs_le; split; nra.
Qed.

(* the idealised constructor (exact instants iT1 iT2 iT3, no truncation, exact half) arrives exactly *)
Theorem ideal_exact_arrival p0 v0 p1 v1 mv ma : mv <> 0%R -> ma <> 0%R ->
  let T1 := iT1 p0 v0 p1 mv ma in let T2 := iT2 p0 v0 p1 v1 mv ma in let T3 := iT3 p0 v0 p1 v1 mv ma in
  V3f (iA p0 p1 ma) v0 T1 T2 T3 = v1 /\ P3f (iA p0 p1 ma) v0 p0 T1 T2 (- T1 / 2) T3 = p1.
Proof.
  intros Hmv Hma T1 T2 T3. destruct (ideal_eqs p0 v0 p1 v1 mv ma Hma) as (E1 & E3 & E2). specialize (E2 Hmv). cbv zeta in E1, E3, E2.
  exact (ideal_arrival (iA p0 p1 ma) (iV p0 p1 mv) v0 v1 p0 p1 _ _ _ E1 E3 E2).
Qed.
(* ... and the model's final piece is the same two polynomials at the truncated instants: the model's constructor
   differs from the idealised one only by ns_of (and the integer half of t1) *)
Theorem model_is_truncated_ideal s0 s1 mv ma p t :
  mp_new c s0 s1 mv ma = Ok p ->
  mp_t1 p = ns_of (iT1 (s_pos s0) (s_vel s0) (s_pos s1) (qv mv) (qv ma)) /\
  mp_t2 p = ns_of (iT2 (s_pos s0) (s_vel s0) (s_pos s1) (s_vel s1) (qv mv) (qv ma)) /\
  mp_t3 p = ns_of (iT3 (s_pos s0) (s_vel s0) (s_pos s1) (s_vel s1) (qv mv) (qv ma)) /\
  mp_max_acc p = qnew (iA (s_pos s0) (s_pos s1) (qv ma)) UAm /\
  (mp_t2 p <= t < mp_t3 p ->
   (forall q, mp_vel c p t = Ok (Some q) ->
      q = qnew (V3f (iA (s_pos s0) (s_pos s1) (qv ma)) (s_vel s0) (secs (mp_t1 p)) (secs (mp_t2 p)) (secs t)) UVm) /\
   (forall q, mp_pos c p t = Ok (Some q) ->
      q = qnew (P3f (iA (s_pos s0) (s_pos s1) (qv ma)) (s_vel s0) (s_pos s0) (secs (mp_t1 p)) (secs (mp_t2 p)) (secs (hneg p)) (secs t)) UPm) /\
   (Rabs (secs (hneg p) - - secs (mp_t1 p) / 2) <= NS / 2)%R).
Proof.
  intros Hn. apply mp_new_inv in Hn. destruct Hn as (_ & _ & Hacc & ->).
  pose proof (built_ordered s0 s1 (qv mv) (qv ma) Hacc) as [H12 H23]. cbv zeta in H12, H23.
  repeat (split; [reflexivity|]). intros Ht. split; [|split].
  - intros q Hq. exact (vel3_ok sb _ t q (built_wd s0 s1 (qv mv) (qv ma)) H12 Ht Hq).
  - intros q Hq. exact (pos3_ok sb _ t q (built_wd s0 s1 (qv mv) (qv ma)) H12 Ht (proj2 H23) Hq).
  - pose proof (pos_join1_R (built s0 s1 (qv mv) (qv ma)) (proj1 H12)) as [_ He]. cbv zeta in He.
    replace (NS / 2)%R with (/ 2 / 1000000000)%R by (unfold NS; field).
    match goal with |- (Rabs ?e <= _)%R => replace e with (secs (hneg (built s0 s1 (qv mv) (qv ma))) + secs (mp_t1 (built s0 s1 (qv mv) (qv ma))) / 2)%R by field end.
    exact He.
Qed.
End Extras.


(* ---- concrete instances: every hypothesis used above is satisfiable ---- *)
Lemma ns_of_floor x n : 0 <= n < I64MAX -> (IZR n <= x * 1000000000 < IZR n + 1)%R -> ns_of x = n.
Proof.
  intros Hn Hx. unfold ns_of, r_to_i64, I64MAX in *.
  assert (H0 : (0 <= x * 1000000000)%R) by (assert (0 <= IZR n)%R by (apply IZR_le; lia); lra).
  rewrite (Ztrunc_floor _ H0). rewrite (Zfloor_imp n) by (rewrite plus_IZR; lra). lia.
Qed.
Definition ex_s0 : @state R := snew_raw 0%R 0%R 0%R.
Definition ex_s1 : @state R := snew_raw 10%R 0%R 0%R.
Definition ex_mv : @quantity R := qnew 2%R UVm.
Definition ex_ma : @quantity R := qnew 1%R UAm.
Lemma ex_ideal : iT1 0 0 10 2 1 = 2%R /\ iT2 0 0 10 0 2 1 = 5%R /\ iT3 0 0 10 0 2 1 = 7%R.
Proof.
  unfold iT3, iT2, iD2, iP1, iP3, iT1, iD3, iV, iA, sgn. rewrite Rlt_bool_false by lra.
  rewrite (Rabs_pos_eq 2), (Rabs_pos_eq 1) by lra. repeat split; field.
Qed.
Example ex_accepted sb :
  exists p, mp_new (cfg_chk sb) ex_s0 ex_s1 ex_mv ex_ma = Ok p /\ mp_t1 p = 2000000000 /\ mp_t2 p = 5000000000 /\ mp_t3 p = 7000000000.
Proof.
  exists (built ex_s0 ex_s1 2 1). split.
  - apply (acceptance sb ex_s0 ex_s1 ex_mv ex_ma); try reflexivity; cbn [qv ex_mv ex_ma qnew ex_s0 ex_s1 snew_raw s_pos s_vel]; try lra.
    + rewrite Rabs_R0. apply Rabs_pos.
    + rewrite Rabs_R0. apply Rabs_pos.
    + unfold ramp_dist. rewrite (Rabs_pos_eq 2), (Rabs_pos_eq 1), (Rabs_pos_eq (10 - 0)) by lra. lra.
  - destruct ex_ideal as (E1 & E2 & E3). unfold built. cbn [mp_t1 mp_t2 mp_t3 ex_s0 ex_s1 snew_raw s_pos s_vel]. rewrite E1, E2, E3.
    repeat split; apply ns_of_floor; unfold I64MAX; try lia; lra.
Qed.
(* all the hypotheses of velocity_bound / arrival_velocity / arrival_position / last_sample / negation_symmetry at once *)
Example ex_hypotheses sb :
  exists p qv_ qp_, mp_new (cfg_chk sb) ex_s0 ex_s1 ex_mv ex_ma = Ok p /\ qv ex_ma <> 0%R /\ qv ex_mv <> 0%R /\
    mp_t3 p < I64MAX /\ mp_t2 p < mp_t3 p /\ mp_t2 p <= mp_t3 p - 1 < mp_t3 p /\
    mp_vel (cfg_chk sb) p (mp_t3 p - 1) = Ok (Some qv_) /\ mp_pos (cfg_chk sb) p (mp_t3 p - 1) = Ok (Some qp_) /\
    s_pos ex_s1 <> s_pos ex_s0 /\ s_acc ex_s1 = 0%R /\ s_vel ex_s1 = 0%R.
Proof.
  destruct (ex_accepted sb) as (p & Hn & E1 & E2 & E3).
  assert (Hw : wd p) by (apply mp_new_inv in Hn; destruct Hn as (_ & _ & _ & ->); apply built_wd).
  eexists p, _, _. split; [exact Hn|]. cbn [qv ex_ma ex_mv qnew ex_s0 ex_s1 snew_raw s_pos s_vel s_acc].
  split; [lra|]. split; [lra|]. rewrite E2, E3. unfold I64MAX. split; [lia|]. split; [lia|]. split; [lia|].
  split; [|split].
  - apply (vel3 sb p _ Hw); rewrite ?E1, ?E2, ?E3; lia.
  - apply (pos3 sb p _ Hw); rewrite ?E1, ?E2, ?E3; lia.
  - repeat split; lra.
Qed.

(* zero displacement on the reals: the sign tie-break is not mirror symmetric (known finding; the binary32 witness is in
   Properties/C07.v).  (0, 1) -> (0, 1) is complete at once, its mirror image is a 4 s excursion. *)
Example zero_displacement_not_symmetric sb :
  let s := snew_raw 0%R 1%R 0%R in let mv := qnew 1%R UVm in let ma := qnew 1%R UAm in
  exists p p', mp_new (cfg_chk sb) s s mv ma = Ok p /\ mp_new (cfg_chk sb) (s_neg s) (s_neg s) mv ma = Ok p' /\
    mp_t3 p = 0 /\ mp_t1 p' = 2000000000 /\ mp_t3 p' = 4000000000 /\
    mp_acc (cfg_chk sb) p 0 = Some (qnew 0%R UAm) /\ mp_acc (cfg_chk sb) p' 0 = Some (qnew 1%R UAm).
Proof.
  intros s mv ma.
  assert (R0 : Rabs 1 = 1%R) by (apply Rabs_pos_eq; lra).
  assert (A1 : accepts 0 1 0 1 1 1 = true /\ iT1 0 1 0 1 1 = 0%R /\ iT2 0 1 0 1 1 1 = 0%R /\ iT3 0 1 0 1 1 1 = 0%R).
  { unfold accepts, iT3, iT2, iD2, iP1, iP3, iT1, iD3, iV, iA, sgn. rewrite Rlt_bool_false by lra. rewrite R0.
    assert (E1 : ((1 * 1 - 1) / (1 * 1) = 0)%R) by field. assert (E3 : ((1 - 1 * 1) / - (1 * 1) = 0)%R) by field.
    rewrite E1, E3. assert (E2 : ((0 - 0 - ((1 + 1 * 1) / 2 * 0 + (1 * 1 + 1) / 2 * 0)) / (1 * 1) = 0)%R) by field. rewrite E2.
    rewrite Rle_bool_true by lra. repeat split; lra. }
  assert (A2 : accepts (-0) (-(1)) (-0) (-(1)) 1 1 = true /\ iT1 (-0) (-(1)) (-0) 1 1 = 2%R /\ iT2 (-0) (-(1)) (-0) (-(1)) 1 1 = 2%R /\ iT3 (-0) (-(1)) (-0) (-(1)) 1 1 = 4%R).
  { unfold accepts, iT3, iT2, iD2, iP1, iP3, iT1, iD3, iV, iA, sgn. rewrite Rlt_bool_false by lra. rewrite R0.
    assert (E1 : ((1 * 1 - - (1)) / (1 * 1) = 2)%R) by field. assert (E3 : ((- (1) - 1 * 1) / - (1 * 1) = 2)%R) by field.
    rewrite E1, E3. assert (E2 : ((- 0 - - 0 - ((- (1) + 1 * 1) / 2 * 2 + (1 * 1 + - (1)) / 2 * 2)) / (1 * 1) = 0)%R) by field. rewrite E2.
    rewrite !Rle_bool_true by lra. repeat split; lra. }
  destruct A1 as (Ac1 & T11 & T12 & T13). destruct A2 as (Ac2 & T21 & T22 & T23).
  exists (built s s 1 1), (built (s_neg s) (s_neg s) 1 1).
  split; [rewrite mp_new_char; unfold accepted; cbn [s s_pos s_vel snew_raw qv qu qnew mv ma]; rewrite Ac1; reflexivity|].
  split; [rewrite mp_new_char; unfold accepted; cbn [s s_neg s_pos s_vel snew_raw qv qu qnew mv ma fneg RR]; rewrite Ac2; reflexivity|].
  assert (N0 : ns_of 0 = 0) by (apply ns_of_floor; unfold I64MAX; [lia|lra]).
  assert (N2 : ns_of 2 = 2000000000) by (apply ns_of_floor; unfold I64MAX; [lia|lra]).
  assert (N4 : ns_of 4 = 4000000000) by (apply ns_of_floor; unfold I64MAX; [lia|lra]).
  unfold mp_acc, built. cbn [mp_t1 mp_t2 mp_t3 mp_max_acc s s_neg s_pos s_vel snew_raw fneg RR].
  rewrite T11, T12, T13, T21, T22, T23, N0, N2, N4. cbn [Z.ltb Z.compare Pos.compare Pos.compare_cont].
  repeat split.
  - unfold c_get_acc, c_of_state, s. cbn [mp_end s_acc s_vel s_pos snew_raw feqb fzero RR f_of_Z].
    rewrite (Req_bool_true 0 0) by reflexivity. rewrite Req_bool_false by lra. reflexivity.
  - unfold iA, sgn. rewrite Rlt_bool_false by lra. rewrite R0. f_equal. unfold qnew. f_equal. ring.
Qed.

(* the slack in velocity_bound is real: on the reals the truncation of t1, t2 to whole nanoseconds can make the last
   sample of the final piece overshoot the end speed, here by 0.3 ns * max_acc (so the property text "never exceeds
   the largest of max_vel, start and end speed" fails by less than max_acc * 1 ns when the end speed is the largest) *)
Definition w_v0 : R := (- 6 / 10000000000)%R.
Definition w_v1 : R := (- 1 - 3 / 10000000000)%R.
Definition w_p1 : R := (3 / 2 - 1 / 10000000000 - 225 / 1000000000000000000000)%R.
Example slack_is_needed sb :
  exists p q, mp_new (cfg_chk sb) (snew_raw 0%R w_v0 0%R) (snew_raw w_p1 w_v1 0%R) (qnew 1%R UVm) (qnew 1%R UAm) = Ok p /\
    mp_vel (cfg_chk sb) p 4000000000 = Ok (Some q) /\ (vmax 1 w_v0 w_v1 < Rabs (qv q))%R /\
    (Rabs (qv q) = vmax 1 w_v0 w_v1 + 3 / 10 * (Rabs 1 * NS))%R.
Proof.
  assert (R0 : Rabs 1 = 1%R) by (apply Rabs_pos_eq; lra).
  assert (Hs : sgn 0 w_p1 = 1%R) by (unfold sgn, w_p1; rewrite Rlt_bool_false by lra; reflexivity).
  assert (T1 : iT1 0 w_v0 w_p1 1 1 = (1 + 6 / 10000000000)%R) by (unfold iT1, iV, iA; rewrite Hs, R0; unfold w_v0; field).
  assert (D3 : iD3 0 w_p1 w_v1 1 1 = (2 + 3 / 10000000000)%R) by (unfold iD3, iV, iA; rewrite Hs, R0; unfold w_v1; field).
  assert (D2 : iD2 0 w_v0 w_p1 w_v1 1 1 = (1 + 2 / 10000000000)%R).
  { unfold iD2, iP1, iP3. rewrite T1, D3. unfold iV. rewrite Hs, R0. unfold w_v0, w_v1, w_p1. field. }
  assert (Hacc : accepts 0 w_v0 w_p1 w_v1 1 1 = true) by (unfold accepts; rewrite T1, D3, D2, !Rle_bool_true by lra; reflexivity).
  set (p := built (snew_raw 0%R w_v0 0%R) (snew_raw w_p1 w_v1 0%R) 1 1).
  assert (E1 : mp_t1 p = 1000000000).
  { unfold p, built. cbn [mp_t1 s_pos s_vel snew_raw]. rewrite T1. apply ns_of_floor; unfold I64MAX; [lia|lra]. }
  assert (E2 : mp_t2 p = 2000000000).
  { unfold p, built. cbn [mp_t2 s_pos s_vel snew_raw]. unfold iT2. rewrite T1, D2. apply ns_of_floor; unfold I64MAX; [lia|lra]. }
  assert (E3 : mp_t3 p = 4000000001).
  { unfold p, built. cbn [mp_t3 s_pos s_vel snew_raw]. unfold iT3, iT2. rewrite T1, D2, D3. apply ns_of_floor; unfold I64MAX; [lia|lra]. }
  exists p, (qnew (qv (mp_max_acc p) * secs (mp_t1 p + mp_t2 p - 4000000000) + qv (mp_start_vel p))%R UVm).
  split; [rewrite mp_new_char; unfold accepted; cbn [s_pos s_vel snew_raw qv qu qnew]; rewrite Hacc; reflexivity|].
  split; [apply (vel3 sb p _ (built_wd _ _ _ _)); rewrite ?E1, ?E2, ?E3; lia|].
  rewrite E1, E2. cbn [qv qnew p built mp_max_acc mp_start_vel s_pos s_vel snew_raw]. unfold iA. rewrite Hs, R0.
  replace (1000000000 + 2000000000 - 4000000000) with (-1000000000) by lia.
  replace (1 * 1 * secs (-1000000000) + w_v0)%R with (- 1 - 6 / 10000000000)%R by (unfold secs, w_v0; field).
  assert (V : vmax 1 w_v0 w_v1 = (1 + 3 / 10000000000)%R).
  { unfold vmax. rewrite R0. unfold w_v0, w_v1. rewrite (Rabs_left (- 6 / 10000000000)), (Rabs_left (- 1 - 3 / 10000000000)) by lra.
    rewrite (Rmax_right (- (- 6 / 10000000000))) by lra. rewrite Rmax_right by lra. field. }
  rewrite V, (Rabs_left (- 1 - 6 / 10000000000)) by lra. unfold NS. split; [lra|field].
Qed.

Print Assumptions mp_new_char.
Print Assumptions built_ordered.
Print Assumptions velocity_bound.
Print Assumptions arrival_velocity.
Print Assumptions arrival_position.
Print Assumptions last_sample.
Print Assumptions completion_exact.
Print Assumptions ideal_exact_arrival.
Print Assumptions model_is_truncated_ideal.
Print Assumptions acceptance.
Print Assumptions neg_constructor.
Print Assumptions negation_symmetry.
Print Assumptions ex_accepted.
Print Assumptions ex_hypotheses.
Print Assumptions zero_displacement_not_symmetric.
Print Assumptions slack_is_needed.
