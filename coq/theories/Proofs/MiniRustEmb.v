(* Embedding of the hand-written model's states, inputs and results into MiniRust values (Model/MiniRust.v), used by
   the theorems over the stream bodies translated from the source (coq/gen_theorems/*Streams.v).
   A struct is embedded as the record of its fields in alphabetical order (the translator builds struct literals
   in that order too; assignments replace a field in place). *)
From Coq Require Import ZArith List Bool String.
From RRTK Require Import Num.Num Model.Values Model.Prog Model.MiniRust Model.Combinators Model.Streams.
Import ListNotations.
Local Open Scope string_scope.
Local Open Scope Z_scope.

Section Emb.
Context {F : Type} {NF : Num F}.
Notation mval := (@mval F).
Notation val := (@val F).

Notation pay := (@pay F).
Notation pv := (@pv F).
Definition m_f (x : F) : mval := MV (VF x).
Definition m_q (q : @quantity F) : mval := MV (VQ q).
Definition m_t (t : Z) : mval := MV (VT t).
Definition m_dat {T} (f : T -> val) (d : datum T) : mval := MV (VDat (d_time d) (f (d_val d))).
Definition m_opt {T} (f : T -> mval) (o : option T) : mval := match o with None => MNone | Some x => MSome (f x) end.
Definition m_out {T} (f : T -> val) (o : out T) : mval :=
  match o with OErr e => MErr (MErrV e) | ONone => MOk MNone | OSome d => MOk (MSome (m_dat f d)) end.
(* symbolic containers: the evaluator forks where the program inspects them (no case analysis in the proof script) *)
Definition s_opt {T} (f : T -> mval) (o : option T) : mval := MOpt o f.
Definition s_out {T} (f : T -> val) (o : out T) : mval := MOutS o (m_dat f).
Definition m_tout (t : tout) : mval := match t with TErr e => MErr (MErrV e) | TOk t => MOk (m_t t) end.
Definition m_upd (u : upd) : mval := match u with UOk => MOk MTup0 | UErr e => MErr (MErrV e) end.
Definition m_kvals (k : @kvals F) : mval := MRec [("kd", m_f (kd k)); ("ki", m_f (ki k)); ("kp", m_f (kp k))].
Definition m_pdkvals (k : @pdkvals F) : mval :=
  MRec [("acceleration", m_kvals (k_acc k)); ("position", m_kvals (k_pos k)); ("velocity", m_kvals (k_vel k))].

(* results of a translated `update` (new state and returned NothingOrError) / `get` (state unchanged, Output) *)
Definition m_step {S} (f : S -> mval) (r : res (S * upd)) : option (res (mval * mval)) :=
  Some (match r with Ok (s', u) => Ok (f s', m_upd u) | Panic => Panic end).
Definition m_get {T} (self : mval) (f : T -> val) (r : res (out T)) : option (res (mval * mval)) :=
  Some (match r with Ok o => Ok (self, m_out f o) | Panic => Panic end).

(* ---- PIDControllerStream *)
Definition m_pid (s : @pid F) : mval :=
  MRec [("int_error", m_f (pid_int s)); ("kvals", m_kvals (pid_k s)); ("output", m_out VF (pid_out s));
        ("prev_error", m_opt (m_dat VF) (pid_prev s)); ("setpoint", m_f (pid_sp s))].

(* ---- CommandPID: `following` holds what the followed getter returns at this update *)
Definition m_cu1 (u : @cu1 F) : mval :=
  MRec [("error_int", m_f (cu_err_int u)); ("output_int", m_f (cu_out_int u)); ("output_int_int", m_opt m_f (cu_out_int_int u))].
Definition m_cu0 (u : @cu0 F) : mval :=
  MRec [("error", m_f (cu_error u)); ("maybe_update_1", m_opt m_cu1 (cu_u1 u)); ("output", m_f (cu_output u)); ("time", m_t (cu_time u))].
Definition m_cust (s : @cust F) : mval :=
  match s with CErr e => MErr (MErrV e) | CNone => MOk MNone | CSome u => MOk (MSome (m_cu0 u)) end.
Definition m_cpid (follow : option (out (@command F))) (s : @cpid F) : mval :=
  MRec [("command", MV (VC (cp_cmd s))); ("kvals", m_pdkvals (cp_k s));
        ("settable_data", MRec [("following", m_opt (m_out VC) follow); ("last_request", m_opt (fun k => MV (VC k)) (cp_last s))]);
        ("update_state", m_cust (cp_st s))].

(* ---- EWMA *)
Definition m_ewma {T} (f : T -> val) (s : @ewma F T) : mval :=
  MRec [("smoothing_constant", m_f (ew_s s)); ("update_time", m_opt m_t (ew_time s)); ("value", m_out f (ew_val s))].

(* ---- Derivative / Integral *)
Definition m_dint (s : @dint F) : mval :=
  MRec [("prev_output", m_opt (m_dat VQ) (di_prev s)); ("value", m_out VQ (di_val s))].

(* ---- to-state converters: the three private Update0 / Update1 layouts *)
Definition m_a2s (s : @tstate F) : mval :=
  MRec [("update", m_opt (fun u0 =>
     MRec [("acc", m_q (ts_a u0)); ("last_update_time", m_t (ts_time u0));
           ("update_1", m_opt (fun u1 => MRec [("update_2", m_opt m_q (ts_c u1)); ("vel", m_q (ts_b u1))]) (ts_u1 u0))]) s)].
(* VelocityToState's Update1 { acc, pos } always has a position: the model stores it as Some *)
Definition m_v2s (s : @tstate F) : mval :=
  MRec [("update", m_opt (fun u0 =>
     MRec [("last_update_time", m_t (ts_time u0));
           ("update_1", m_opt (fun u1 => MRec [("acc", m_q (ts_b u1)); ("pos", match ts_c u1 with Some p => m_q p | None => MNone end)]) (ts_u1 u0));
           ("vel", m_q (ts_a u0))]) s)].
Definition m_p2s (s : @tstate F) : mval :=
  MRec [("update", m_opt (fun u0 =>
     MRec [("last_update_time", m_t (ts_time u0)); ("pos", m_q (ts_a u0));
           ("update_1", m_opt (fun u1 => MRec [("update_2", m_opt m_q (ts_c u1)); ("vel", m_q (ts_b u1))]) (ts_u1 u0))]) s)].
Definition v2s_wf (s : @tstate F) : Prop :=
  match s with Some u0 => match ts_u1 u0 with Some u1 => ts_c u1 <> None | None => True end | None => True end.

End Emb.

(* ---------------------------------------------------------------------------------------------------------------
   The tree form of the operator table agrees with the operator table of Model/Prog.v (the one tied to the crate's
   impls by C01 / C03 / C14 / C18), for every opcode and every operand list. *)
Section PrimTree.
Context {F : Type} {NF : Num F}.
Variable c : cfg.

Ltac by_op o :=
  repeat match goal with
  | |- context [(o =? ?k) || _] => destruct (Z.eqb_spec o k); [subst o|]; cbn [orb]
  | |- context [o =? ?k] => destruct (Z.eqb_spec o k); [subst o|]
  end.

Ltac res_cases :=
  match goal with
  | |- context [match ?r with Ok _ => _ | Panic => _ end] =>
      lazymatch r with
      | qadd _ _ _ => idtac | qsub _ _ _ => idtac | iadd _ _ => idtac | isub _ _ => idtac | imul _ _ => idtac | idiv _ _ => idtac | uadd _ _ _ => idtac | usub _ _ _ => idtac | ineg _ => idtac
      | assert_ok _ _ _ => idtac | assert_not_ok _ _ _ => idtac | snew _ _ _ _ => idtac
      end;
      let E := fresh "E" in destruct r eqn:E; cbn; unfold arith_i; cbn; try rewrite E; try reflexivity
  end.
Lemma prim_tree_ok (o : Z) (ws : list (@val F)) : flatten_rv (prim_tree c o ws) = apply_op c o ws.
Proof.
  unfold prim_tree.
  repeat (first [ reflexivity
                | match goal with |- context [match ?x with _ => _ end] => is_var x; destruct x end ]).
  all: by_op o; cbn [Z.eqb Pos.eqb orb]; try reflexivity; unfold flatten_rv, tq; cbn [flatten]; try res_cases.
  all: try (match goal with u : unit |- _ => destruct u end; reflexivity).
Qed.
End PrimTree.

(* ---------------------------------------------------------------------------------------------------------------
   Symbolic execution of a translated body: the goal is  run_fn c body self inputs = <model side>.
   The value-layer operations that can panic stay folded; both sides are normalised; then the innermost scrutinee of
   the stuck head of either side (an input whose constructor is not known yet, [isub t t0], [qadd c a b], a comparison)
   is analysed by cases, until both sides are values. *)
Ltac stuck_head t :=
  lazymatch t with
  | match ?s with _ => _ end => stuck_head s
  | _ => t
  end.
Ltac mr_norm :=
  lazy -[isub iadd imul idiv ineg qadd qsub qmul qdiv qneg qabs snew assert_ok assert_not_ok q_of_time q_of_dint
         qdimless s_get_value time_of_q dint_of_q c_eqb s_eqb qeqb c_add c_sub Z.gtb Z.ltb Z.geb Z.max Z.min].
(* case analysis on a stuck scrutinee - or, when the context already knows its value (an equation produced by an earlier
   case analysis or put there by the proof script), rewriting with that *)
Ltac mr_atom h :=
  first [ match goal with H : h = _ |- _ => rewrite H end | destruct h eqn:? ].
Ltac mr_split :=
  lazymatch goal with
  | |- ?l = ?r =>
      let h := stuck_head l in
      lazymatch l with
      | h => let g := stuck_head r in
             lazymatch r with
             | g => (* both sides are constructor-headed: a stuck match below a constructor *)
                    match goal with |- context [match ?s with _ => _ end] => let k := stuck_head s in mr_atom k end
             | _ => mr_atom g
             end
      | _ => mr_atom h
      end
  end.
Ltac mr_exec := unfold run_fn; repeat (mr_norm; mr_split); mr_norm; try reflexivity.
(* the same, but a goal whose two sides have become syntactically equal is closed at once instead of being split further
   (used with symbolic containers [MOpt] / [MOutS] for parts of the state that the body never inspects) *)
Ltac mr_exec2 := unfold run_fn; repeat (mr_norm; first [lazymatch goal with |- ?x = ?x => reflexivity end | mr_split]); mr_norm; try reflexivity.

(* case analysis on the structure of the inputs and of the state (never on numbers, quantities, time stamps): after it
   the evaluator runs without meeting a value whose constructor it does not know *)
Ltac split_inputs :=
  repeat match goal with
  | x : out _ |- _ => destruct x as [?| |[? ?]]
  | x : option _ |- _ => destruct x
  | x : datum _ |- _ => destruct x
  | x : tout |- _ => destruct x
  | x : bool |- _ => destruct x
  | x : pd |- _ => destruct x
  | x : pay |- _ => destruct x
  | x : upd |- _ => destruct x
  | x : cust |- _ => destruct x
  | x : cu0 |- _ => destruct x
  | x : cu1 |- _ => destruct x
  | x : ts0 |- _ => destruct x
  | x : ts1 |- _ => destruct x
  | x : tstate |- _ => destruct x
  | x : pid |- _ => destruct x
  | x : cpid |- _ => destruct x
  | x : command |- _ => destruct x
  | x : ewma |- _ => destruct x
  | x : dint |- _ => destruct x
  end.

(* flattening commutes with sequencing (used for loops, where the number of iterations is not a literal) *)
Lemma flatten_tmap {F} {NF : Num F} {X Y} (f : X -> @tree F Y) (t : @tree F X) :
  flatten (tmap f t) = match flatten t with Ok x => flatten (f x) | Panic => Panic end.
Proof.
  induction t as [x|A r k IH|b x IHx y IHy|A o ks IHs kn IHn|p k IH|T o ke IHe kn IHn ks IHs]; cbn [tmap flatten].
  - reflexivity.
  - destruct r; [apply IH|reflexivity].
  - destruct b; assumption.
  - destruct o; [apply IHs|apply IHn].
  - destruct p; apply IH.
  - destruct o; [apply IHe|apply IHn|apply IHs].
Qed.
Lemma flatten_tbind {F} {NF : Num F} (t : tree (@outcome F)) k :
  flatten (tbind t k) = match flatten t with
                        | Ok (ONorm v en) => flatten (k v en)
                        | Ok o => Ok o
                        | Panic => Panic
                        end.
Proof. unfold tbind. rewrite flatten_tmap. destruct (flatten t) as [[]|]; reflexivity. Qed.

(* ---------------------------------------------------------------------------------------------------------------
   Running the body of a value-layer impl (tools/gen_ops.py): the result as a value of the operator table. *)
Section RunOps.
Context {F : Type} {NF : Num F}.
Variable c : cfg.
Definition base_env (n : nat) (en : @env F) : @env F := skipn (List.length en - n) en.
Definition rv_of_m (m : option (@mval F)) : @rv F :=
  match m with Some v => match lower v with Some w => RVal w | None => RType end | None => RType end.
Definition run_with (k : @mval F -> @env F -> @rv F) (g : @mexpr F) (en0 : @env F) : @rv F :=
  match flatten (eval c g en0) with
  | Ok (ONorm v en) | Ok (ORet v en) => k v (base_env (List.length en0) en)
  | Ok OPanic => RPanic
  | Ok OType => RType
  | Ok OUB => RType
  | Panic => RPanic
  end.
(* the value of the body *)
Definition run_val := run_with (fun v _ => rv_of_m (Some v)).
(* `&mut self` functions returning (): the receiver afterwards *)
Definition run_self := run_with (fun _ en => rv_of_m (lookup "self" en)).
(* functions returning () *)
Definition run_unit := run_with (fun v _ => match v with MTup0 => RVal VUnit | _ => RType end).
(* TryFrom: Ok(x) / Err(()) as the table's option *)
Definition run_try := run_with (fun v _ => match v with
                                           | MOk w => rv_of_m (Some (MSome w))
                                           | MErr _ => RVal VNone
                                           | _ => RType end).
(* State setters: the receiver afterwards and whether Ok(()) was returned *)
Definition run_setter := run_with (fun v en =>
  match lookup "self" en, v with
  | Some (MV s), MOk _ => RVal (VPair s (VB true))
  | Some (MV s), MErr _ => RVal (VPair s (VB false))
  | _, _ => RType
  end).
End RunOps.

Ltac split_ops :=
  repeat match goal with
  | x : command |- _ => destruct x
  | x : pd |- _ => destruct x
  | x : bool |- _ => destruct x
  end.
(* as mr_norm, with the quantity operators unfolded down to the unit assertion (the base impls build their result field by field) *)
Ltac ops_norm :=
  lazy -[isub iadd imul idiv ineg assert_ok assert_not_ok q_of_time q_of_dint eq_assume_true eq_assume_false
         Z.gtb Z.ltb Z.geb Z.max Z.min].
(* the unit algebra: the configuration is analysed first (the bodies are selected by the dimension-check cfg), units are opened
   into their exponents, comparisons of exponents are analysed by cases *)
Ltac unit_tac c :=
  destruct c as [[] ?]; intros; split_ops; repeat match goal with x : unit_ |- _ => destruct x end;
  unfold run_val, run_self, run_unit, run_try, run_with; cbn;
  repeat (progress unfold uadd, usub, assert_ok, assert_not_ok, eq_assume_true, eq_assume_false, umul, udiv, unew, ueqb, unit_of_pd, pd_of_unit, bind; cbn [chk mm sec]);
  cbn;
  repeat (match goal with |- context [Z.eqb ?a ?b] => destruct (Z.eqb a b) end; cbn); try reflexivity.
Ltac ops_tac :=
  intros; split_ops; unfold run_val, run_self, run_try, run_setter, run_with;
  repeat (ops_norm; mr_split); ops_norm; try reflexivity.

(* compositional evaluation of the sequencing constructs (for proofs about loops, where the body is kept folded) *)
Section Compose.
Context {F : Type} {NF : Num F}.
Variable c : cfg.
Definition after (r : res (@outcome F)) (k : @mval F -> @env F -> res (@outcome F)) : res (@outcome F) :=
  match r with Ok (ONorm v en) => k v en | Ok o => Ok o | Panic => Panic end.
Lemma flatten_let x a body en :
  flatten (eval c (ELet (PVar x) a body) en)
  = after (flatten (eval c a en)) (fun v en1 =>
      after (flatten (eval c body ((x, v) :: en1))) (fun w en2 => Ok (ONorm w (skipn 1 en2)))).
Proof.
  cbn [eval]. rewrite flatten_tbind. unfold after. destruct (flatten (eval c a en)) as [[v en1| | | |]|]; try reflexivity.
  cbn [pmatch tmap]. cbn [app List.length]. rewrite flatten_tbind. destruct (flatten (eval c body ((x, v) :: en1))) as [[]|]; reflexivity.
Qed.
Lemma flatten_let_pat p a body en :
  flatten (eval c (ELet p a body) en)
  = after (flatten (eval c a en)) (fun v en1 =>
      match flatten (pmatch c p v) with
      | Ok (Some bs) => after (flatten (eval c body (List.app bs en1))) (fun w en2 => Ok (ONorm w (skipn (List.length bs) en2)))
      | Ok None => Ok OType
      | Panic => Panic
      end).
Proof.
  cbn [eval]. rewrite flatten_tbind. unfold after. destruct (flatten (eval c a en)) as [[v en1| | | |]|]; try reflexivity.
  rewrite flatten_tmap.
  match goal with |- match ?t with _ => _ end = _ => change (flatten (pmatch c p v)) with t; destruct t as [[bs|]|] end; try reflexivity.
  rewrite flatten_tbind. destruct (flatten (eval c body (List.app bs en1))) as [[]|]; reflexivity.
Qed.
Lemma flatten_seq a b en :
  flatten (eval c (ESeq a b) en) = after (flatten (eval c a en)) (fun _ en1 => flatten (eval c b en1)).
Proof. cbn [eval]. rewrite flatten_tbind. unfold after. destruct (flatten (eval c a en)) as [[]|]; reflexivity. Qed.
Lemma flatten_for x fld body en items :
  lookup fld en = Some (MArr items) ->
  flatten (eval c (EFor x (EVar fld) body) en) = flatten (for_loop (eval c body) x items en).
Proof. intros H. cbn [eval]. rewrite H. cbn [opt_leaf]. rewrite flatten_tbind. reflexivity. Qed.
End Compose.
