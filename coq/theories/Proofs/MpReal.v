(* Motion profile on the real-number instance (which keeps the code's integer arithmetic on
   nanoseconds): closed forms of velocity and position per piece, and the exact trapezoid identity
   pos t' - pos t = (vel t + vel t') / 2 * (t' - t)  within each piece, i.e. position is the time
   integral of the (piecewise linear) velocity. *)
From Coq Require Import ZArith Bool List Lia Reals Lra.
From RRTK Require Import Num.Num Num.RR Model.Values Model.MotionProfile Proofs.ValuesProofs.
Local Open Scope Z_scope.

Section R.
Variable sb : bool.
Notation c := (cfg_chk sb).
Notation mp := (@mp R).
Definition secs (t : Z) : R := (IZR t / 1000000000)%R.
Definition UPm := {| mm := 1; sec := 0 |}.
Definition UVm := {| mm := 1; sec := -1 |}.
Definition UAm := {| mm := 1; sec := -2 |}.
(* a profile with the dimensions the constructor gives it *)
Definition wd (p : mp) : Prop :=
  qu (mp_start_pos p) = UPm /\ qu (mp_start_vel p) = UVm /\ qu (mp_max_acc p) = UAm.
Notation a p := (qv (mp_max_acc p)).
Notation v0 p := (qv (mp_start_vel p)).
Notation p0 p := (qv (mp_start_pos p)).

Lemma in_i64_of_bounds z : -9223372036854775808 <= z <= 9223372036854775807 -> in_i64 z = true.
Proof. intros H. unfold in_i64. apply andb_true_iff. split; apply Z.leb_le; lia. Qed.

Ltac units p H :=
  destruct H as (Hup & Huv & Hua);
  destruct (mp_start_pos p) as [p0v p0u] eqn:Ep; destruct (mp_start_vel p) as [v0v v0u] eqn:Ev;
  destruct (mp_max_acc p) as [av au] eqn:Ea; cbn [qu qv] in *; subst p0u v0u au.

Lemma vel1 (p : mp) t : wd p -> 0 <= t < mp_t1 p ->
  mp_vel c p t = Ok (Some (qnew (a p * secs t + v0 p)%R UVm)).
Proof.
  intros H Ht. unfold mp_vel. destruct (Z.ltb_spec t 0); [lia|]. destruct (Z.ltb_spec t (mp_t1 p)); [|lia].
  units p H. reflexivity.
Qed.
Lemma vel2 (p : mp) t : wd p -> 0 <= mp_t1 p <= t -> t < mp_t2 p ->
  mp_vel c p t = Ok (Some (qnew (a p * secs (mp_t1 p) + v0 p)%R UVm)).
Proof.
  intros H Ht Ht2. unfold mp_vel. destruct (Z.ltb_spec t 0); [lia|]. destruct (Z.ltb_spec t (mp_t1 p)); [lia|].
  destruct (Z.ltb_spec t (mp_t2 p)); [|lia]. units p H. reflexivity.
Qed.
Lemma vel3 (p : mp) t : wd p -> 0 <= mp_t1 p <= mp_t2 p -> mp_t2 p <= t < mp_t3 p -> t <= 9223372036854775807 ->
  mp_t1 p + mp_t2 p <= 9223372036854775807 ->
  mp_vel c p t = Ok (Some (qnew (a p * secs (mp_t1 p + mp_t2 p - t) + v0 p)%R UVm)).
Proof.
  intros H H12 Ht Hm Hov. unfold mp_vel. destruct (Z.ltb_spec t 0); [lia|]. destruct (Z.ltb_spec t (mp_t1 p)); [lia|].
  destruct (Z.ltb_spec t (mp_t2 p)); [lia|]. destruct (Z.ltb_spec t (mp_t3 p)); [|lia].
  unfold iadd, isub, i64_ck. rewrite (in_i64_of_bounds (mp_t1 p + mp_t2 p)) by lia. cbn [bind].
  rewrite (in_i64_of_bounds (mp_t1 p + mp_t2 p - t)) by lia. cbn [bind].
  units p H. reflexivity.
Qed.

Lemma pos1 (p : mp) t : wd p -> 0 <= t < mp_t1 p ->
  mp_pos c p t = Ok (Some (qnew (/ 2 * a p * secs t * secs t + v0 p * secs t + p0 p)%R UPm)).
Proof.
  intros H Ht. unfold mp_pos. destruct (Z.ltb_spec t 0); [lia|]. destruct (Z.ltb_spec t (mp_t1 p)); [|lia].
  units p H. reflexivity.
Qed.
(* the integer half  (-t1) / 2  truncated toward zero *)
Definition hneg (p : mp) : Z := Z.quot (- mp_t1 p) 2.
Lemma hneg_bounds (p : mp) : 0 <= mp_t1 p -> - mp_t1 p <= hneg p <= 0.
Proof.
  intros H. unfold hneg. rewrite Z.quot_opp_l by lia.
  pose proof (Z.quot_pos (mp_t1 p) 2 H ltac:(lia)). pose proof (Z.quot_le_upper_bound (mp_t1 p) 2 (mp_t1 p) ltac:(lia) ltac:(lia)). lia.
Qed.
Lemma t1_term_val (p : mp) x : 0 <= mp_t1 p <= 9223372036854775807 -> 0 <= x <= 9223372036854775807 ->
  t1_term c p x = Ok (qnew (secs (mp_t1 p) * secs (hneg p + x))%R {| mm := 0; sec := 2 |}).
Proof.
  intros H1 Hx. pose proof (hneg_bounds p ltac:(lia)) as Hb. unfold t1_term, ineg, idiv, iadd, i64_ck.
  rewrite (in_i64_of_bounds (- mp_t1 p)) by lia. cbn [bind Z.eqb].
  fold (hneg p). rewrite (in_i64_of_bounds (hneg p)) by lia. cbn [bind].
  rewrite (in_i64_of_bounds (hneg p + x)) by lia. cbn [bind]. reflexivity.
Qed.
Lemma pos2 (p : mp) t : wd p -> 0 <= mp_t1 p <= t -> t < mp_t2 p -> t <= 9223372036854775807 ->
  mp_pos c p t = Ok (Some (qnew (a p * (secs (mp_t1 p) * secs (hneg p + t)) + v0 p * secs t + p0 p)%R UPm)).
Proof.
  intros H Ht Ht2 Hm. unfold mp_pos. destruct (Z.ltb_spec t 0); [lia|]. destruct (Z.ltb_spec t (mp_t1 p)); [lia|].
  destruct (Z.ltb_spec t (mp_t2 p)); [|lia]. rewrite t1_term_val by lia. cbn [bind].
  units p H. reflexivity.
Qed.
Lemma pos3 (p : mp) t : wd p -> 0 <= mp_t1 p <= mp_t2 p -> mp_t2 p <= t < mp_t3 p -> t <= 9223372036854775807 ->
  2 * mp_t1 p + mp_t2 p <= 9223372036854775807 ->
  mp_pos c p t = Ok (Some (qnew (a p * (secs (mp_t1 p) * secs (hneg p + mp_t2 p))
                                 - / 2 * a p * (secs (t - mp_t2 p) * secs (t - 2 * mp_t1 p - mp_t2 p))
                                 + v0 p * secs t + p0 p)%R UPm)).
Proof.
  intros H H12 Ht Hm Hov. unfold mp_pos. destruct (Z.ltb_spec t 0); [lia|]. destruct (Z.ltb_spec t (mp_t1 p)); [lia|].
  destruct (Z.ltb_spec t (mp_t2 p)); [lia|]. destruct (Z.ltb_spec t (mp_t3 p)); [|lia].
  rewrite t1_term_val by lia. cbn [bind]. unfold isub, imul, i64_ck.
  rewrite (in_i64_of_bounds (t - mp_t2 p)) by lia. cbn [bind].
  rewrite (in_i64_of_bounds (2 * mp_t1 p)) by lia. cbn [bind].
  rewrite (in_i64_of_bounds (t - 2 * mp_t1 p)) by lia. cbn [bind].
  rewrite (in_i64_of_bounds (t - 2 * mp_t1 p - mp_t2 p)) by lia. cbn [bind].
  units p H. reflexivity.
Qed.

Lemma secs_sub x y : secs (x - y) = (secs x - secs y)%R.
Proof. unfold secs. rewrite minus_IZR. field. Qed.
Lemma secs_add x y : secs (x + y) = (secs x + secs y)%R.
Proof. unfold secs. rewrite plus_IZR. field. Qed.
Lemma secs_2mul x : secs (2 * x) = (2 * secs x)%R.
Proof. unfold secs. rewrite mult_IZR. field. Qed.

(* the trapezoid identity in each piece (exact: the truncated half cancels in differences) *)
Definition trapezoid (pa pb va vb : R) (ta tb : Z) : Prop := (pb - pa = (va + vb) / 2 * (secs tb - secs ta))%R.
Theorem integral_piece1 (p : mp) t t' : trapezoid
  (/ 2 * a p * secs t * secs t + v0 p * secs t + p0 p) (/ 2 * a p * secs t' * secs t' + v0 p * secs t' + p0 p)
  (a p * secs t + v0 p) (a p * secs t' + v0 p) t t'.
Proof. unfold trapezoid. field. Qed.
Theorem integral_piece2 (p : mp) t t' : trapezoid
  (a p * (secs (mp_t1 p) * secs (hneg p + t)) + v0 p * secs t + p0 p)
  (a p * (secs (mp_t1 p) * secs (hneg p + t')) + v0 p * secs t' + p0 p)
  (a p * secs (mp_t1 p) + v0 p) (a p * secs (mp_t1 p) + v0 p) t t'.
Proof. unfold trapezoid. rewrite !secs_add. field. Qed.
Theorem integral_piece3 (p : mp) t t' : trapezoid
  (a p * (secs (mp_t1 p) * secs (hneg p + mp_t2 p)) - / 2 * a p * (secs (t - mp_t2 p) * secs (t - 2 * mp_t1 p - mp_t2 p)) + v0 p * secs t + p0 p)
  (a p * (secs (mp_t1 p) * secs (hneg p + mp_t2 p)) - / 2 * a p * (secs (t' - mp_t2 p) * secs (t' - 2 * mp_t1 p - mp_t2 p)) + v0 p * secs t' + p0 p)
  (a p * secs (mp_t1 p + mp_t2 p - t) + v0 p) (a p * secs (mp_t1 p + mp_t2 p - t') + v0 p) t t'.
Proof. unfold trapezoid. rewrite !secs_sub, !secs_add, !secs_2mul. field. Qed.

(* initial conditions in exact arithmetic *)
Theorem initial_R (p : mp) : wd p -> 0 < mp_t1 p ->
  mp_vel c p 0 = Ok (Some (qnew (v0 p) UVm)) /\ mp_pos c p 0 = Ok (Some (qnew (p0 p) UPm)).
Proof.
  intros H Ht. rewrite (vel1 p 0 H) by lia. rewrite (pos1 p 0 H) by lia.
  unfold secs. split; do 2 f_equal; unfold qnew; f_equal; field.
Qed.
(* continuity of velocity at both joins (exact), of position at t1 up to the truncated half nanosecond *)
Theorem vel_continuous_R (p : mp) :
  (a p * secs (mp_t1 p) + v0 p = a p * secs (mp_t1 p) + v0 p)%R /\
  (a p * secs (mp_t1 p + mp_t2 p - mp_t2 p) + v0 p = a p * secs (mp_t1 p) + v0 p)%R.
Proof. split; [reflexivity|]. replace (mp_t1 p + mp_t2 p - mp_t2 p) with (mp_t1 p) by lia. reflexivity. Qed.
Theorem pos_join1_R (p : mp) : 0 <= mp_t1 p ->
  let t1 := mp_t1 p in
  ((a p * (secs t1 * secs (hneg p + t1)) + v0 p * secs t1 + p0 p)
   - (/ 2 * a p * secs t1 * secs t1 + v0 p * secs t1 + p0 p)
   = a p * secs t1 * (secs (hneg p) + secs t1 / 2))%R /\
  (Rabs (secs (hneg p) + secs (mp_t1 p) / 2) <= / 2 / 1000000000)%R.
Proof.
  intros H t1. split; [unfold t1; rewrite secs_add; field|].
  unfold secs, hneg. rewrite Z.quot_opp_l by lia. rewrite opp_IZR.
  pose proof (Z.quot_rem' (mp_t1 p) 2) as E.
  pose proof (Z.rem_bound_pos (mp_t1 p) 2 H ltac:(lia)) as Hr.
  assert (Hq : (IZR (mp_t1 p) = 2 * IZR (Z.quot (mp_t1 p) 2) + IZR (Z.rem (mp_t1 p) 2))%R).
  { rewrite E at 1. rewrite plus_IZR, mult_IZR. reflexivity. }
  assert (Hrr : (0 <= IZR (Z.rem (mp_t1 p) 2) <= 1)%R).
  { split; [apply IZR_le; lia|apply IZR_le; lia]. }
  replace (- IZR (mp_t1 p ÷ 2) / 1000000000 + IZR (mp_t1 p) / 1000000000 / 2)%R
    with (IZR (Z.rem (mp_t1 p) 2) / 2 / 1000000000)%R by (rewrite Hq; field).
  rewrite Rabs_pos_eq; [|apply Rmult_le_pos; [apply Rmult_le_pos; lra|lra]].
  apply Rmult_le_compat_r; [lra|]. lra.
Qed.
End R.
