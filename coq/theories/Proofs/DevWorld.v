(* C08 at world level: what an update of a gear train, an axle (any number of terminals), a differential
   (all four trust modes) and an inverter does to the STATE slots of an arbitrary world of terminals,
   stated about the model's own update functions [gear_update], [axle_update], [diff_update],
   [invert_update] as they are.
   Part G (any carrier [Num F]): the written slots hold exactly the model expressions of the states READ
   at the device's terminals before the update, stamped with the newest contributing time; one-sided
   cases; frame (other state slots, every link, the size of the world, and what happens to command slots).
   Part R (the reals): combined with [ProjReal] -- after the update the device's own state slots satisfy
   the constraint exactly, are the least-squares projection of the reads, and reads that already satisfy
   the constraint are reproduced (fixed point); componentwise for position / velocity / acceleration. *)
From Coq Require Import ZArith Bool List Lia Arith.
From RRTK Require Import Num.Num Model.Values Model.World Model.Devices
  Proofs.WorldProofs Proofs.DatumProofs Proofs.DeviceProofs Proofs.RelayProofs Proofs.ChainProofs.
Import ListNotations.

Section G.
Context {F : Type} {NF : Num F}.
Notation world := (@world F).
Notation state := (@state F).
Notation command := (@command F).

(* ------------------------------------------------------------------------------------------------ *)
(* slots after a write, no range hypothesis (a write to a terminal that does not exist is a no-op) *)
Lemma slot_s_set_state (w : world) i (d : datum state) k :
  slot_s (set_state w i d) k = if Nat.eqb k i && Nat.ltb i (length w) then Some d else slot_s w k.
Proof.
  destruct (Nat.ltb_spec i (length w)) as [Hi|Hi].
  - destruct (get_set_state w i d k Hi) as (A & _ & _). rewrite andb_true_r. exact A.
  - unfold set_state. rewrite wset_out by exact Hi. rewrite andb_false_r. reflexivity.
Qed.
Lemma slot_s_set_cmd (w : world) i (d : datum command) k : slot_s (set_cmd w i d) k = slot_s w k.
Proof.
  destruct (Nat.ltb_spec i (length w)) as [Hi|Hi].
  - destruct (get_set_cmd w i d k Hi) as (_ & A & _). exact A.
  - unfold set_cmd. rewrite wset_out by exact Hi. reflexivity.
Qed.
Lemma slot_s_fold_set_cmd (d : datum command) (ts : list nat) : forall (w : world) k,
  slot_s (fold_left (fun w' i => set_cmd w' i d) ts w) k = slot_s w k.
Proof.
  induction ts as [|t r IH]; intros w k; cbn [fold_left]; [reflexivity|].
  rewrite IH. apply slot_s_set_cmd.
Qed.
(* the command halves of the updates never touch a state slot (any terminals, in range or not) *)
Lemma slot_s_gear_cmds (w : world) t1 t2 r k : slot_s (gear_cmds w t1 t2 r) k = slot_s w k.
Proof.
  unfold gear_cmds. destruct (cmd_get w t1) as [d1|], (cmd_get w t2) as [d2|];
    try destruct (_ >=? _)%Z; try apply slot_s_set_cmd; reflexivity.
Qed.
Lemma slot_s_invert_cmds (w : world) t1 t2 k : slot_s (invert_cmds w t1 t2) k = slot_s w k.
Proof.
  unfold invert_cmds. destruct (match cmd_get w t2 with Some x => _ | None => _ end) as [dc|]; [|reflexivity].
  rewrite !slot_s_set_cmd. reflexivity.
Qed.
Lemma slot_s_axle_cmds (w : world) ts k : slot_s (axle_cmds w ts) k = slot_s w k.
Proof.
  unfold axle_cmds. destruct (newest_of _) as [d|]; [apply slot_s_fold_set_cmd|reflexivity].
Qed.
Lemma ceq_gear_cmds_len (w : world) t1 t2 r :
  length (gear_cmds w t1 t2 r) = length w /\ forall k, oth (gear_cmds w t1 t2 r) k = oth w k.
Proof.
  unfold gear_cmds. destruct (cmd_get w t1) as [d1|], (cmd_get w t2) as [d2|];
    try destruct (_ >=? _)%Z; (split; [try apply len_set_cmd; reflexivity|intros k; try apply set_cmd_slots; reflexivity]).
Qed.
Lemma ceq_invert_cmds_len (w : world) t1 t2 :
  length (invert_cmds w t1 t2) = length w /\ forall k, oth (invert_cmds w t1 t2) k = oth w k.
Proof.
  unfold invert_cmds. destruct (match cmd_get w t2 with Some x => _ | None => _ end) as [dc|]; [|split; reflexivity].
  split; [rewrite !len_set_cmd; reflexivity|].
  intros k. rewrite (proj2 (set_cmd_slots _ _ _ _)), (proj2 (set_cmd_slots _ _ _ _)). reflexivity.
Qed.
Lemma ceq_axle_cmds_len (w : world) ts :
  length (axle_cmds w ts) = length w /\ forall k, oth (axle_cmds w ts) k = oth w k.
Proof.
  unfold axle_cmds. destruct (newest_of _) as [d|]; [|split; reflexivity].
  split; [apply (fold_set_cmd_slots d ts w 0%nat)|intros k; apply (fold_set_cmd_slots d ts w k)].
Qed.

(* ------------------------------------------------------------------------------------------------ *)
(* 1. GEAR TRAIN *)
(* every state slot after the state half, whatever the two terminals are (equal or not): last write wins *)
Lemma gear_states_slots (w : world) t1 t2 r k :
  t1 < length w -> t2 < length w ->
  slot_s (gear_states w t1 t2 r) k =
  match state_get w t1, state_get w t2 with
  | Some d1, Some d2 =>
      let T := Z.max (d_time d1) (d_time d2) in
      let xpry := s_add (d_val d1) (s_mulf (d_val d2) r) in
      let r2p1 := fadd (fmul r r) fone in
      if Nat.eqb k t2 then Some (mkDatum T (s_divf (s_mulf xpry r) r2p1))
      else if Nat.eqb k t1 then Some (mkDatum T (s_divf xpry r2p1)) else slot_s w k
  | Some d1, None => if Nat.eqb k t2 then Some (mkDatum (d_time d1) (s_mulf (d_val d1) r)) else slot_s w k
  | None, Some d2 => if Nat.eqb k t1 then Some (mkDatum (d_time d2) (s_divf (d_val d2) r)) else slot_s w k
  | None, None => slot_s w k
  end.
Proof.
  intros H1 H2. apply Nat.ltb_lt in H1 as L1. apply Nat.ltb_lt in H2 as L2. unfold gear_states.
  destruct (state_get w t1) as [d1|], (state_get w t2) as [d2|]; cbv zeta.
  - rewrite !slot_s_set_state, len_set_state, L1, L2, !andb_true_r, tmax_ge_max. reflexivity.
  - rewrite slot_s_set_state, L2, andb_true_r. reflexivity.
  - rewrite slot_s_set_state, L1, andb_true_r. reflexivity.
  - reflexivity.
Qed.

(* THEOREM G1 (gear train, whole update).  For every world and two different terminals in range, after
   [gear_update]:
   - both reads present: the state slots of t1 and t2 hold (x + y*r)/(r*r+1) and ((x + y*r)*r)/(r*r+1)
     (x, y the states READ at t1, t2 before the update; these are the model's expressions, shown in part R
     to be the least-squares projection onto side2 = r*side1), both stamped with the newer of the two times;
   - only side 1 has data: t2's slot receives x*r with x's time stamp, t1's slot is untouched;
   - only side 2 has data: t1's slot receives y/r with y's time stamp, t2's slot is untouched;
   - no data: no state slot changes;
   - frame: every other state slot, every link and the size of the world are unchanged; exactly one command
     slot is written (when some command is readable at t1 or t2): t2 := c1*r if the command read at t1 is at
     least as new as the one read at t2, else t1 := c2/r; all other command slots are unchanged. *)
Theorem gear_update_effect (w : world) t1 t2 r :
  t1 <> t2 -> t1 < length w -> t2 < length w ->
  let w' := gear_update w t1 t2 r in
  length w' = length w /\
  (forall k, oth w' k = oth w k) /\
  (forall k, k <> t1 -> k <> t2 -> slot_s w' k = slot_s w k) /\
  match state_get w t1, state_get w t2 with
  | Some d1, Some d2 =>
      let T := Z.max (d_time d1) (d_time d2) in
      let xpry := s_add (d_val d1) (s_mulf (d_val d2) r) in
      let r2p1 := fadd (fmul r r) fone in
      slot_s w' t1 = Some (mkDatum T (s_divf xpry r2p1)) /\
      slot_s w' t2 = Some (mkDatum T (s_divf (s_mulf xpry r) r2p1))
  | Some d1, None =>
      slot_s w' t1 = slot_s w t1 /\ slot_s w' t2 = Some (mkDatum (d_time d1) (s_mulf (d_val d1) r))
  | None, Some d2 =>
      slot_s w' t1 = Some (mkDatum (d_time d2) (s_divf (d_val d2) r)) /\ slot_s w' t2 = slot_s w t2
  | None, None => slot_s w' t1 = slot_s w t1 /\ slot_s w' t2 = slot_s w t2
  end /\
  match cmd_get w t1, cmd_get w t2 with
  | Some c1, Some c2 =>
      if (d_time c1 >=? d_time c2)%Z
      then slot_c w' t2 = Some (dmul_c c1 r) /\ (forall k, k <> t2 -> slot_c w' k = slot_c w k)
      else slot_c w' t1 = Some (ddiv_c c2 r) /\ (forall k, k <> t1 -> slot_c w' k = slot_c w k)
  | Some c1, None => slot_c w' t2 = Some (dmul_c c1 r) /\ (forall k, k <> t2 -> slot_c w' k = slot_c w k)
  | None, Some c2 => slot_c w' t1 = Some (ddiv_c c2 r) /\ (forall k, k <> t1 -> slot_c w' k = slot_c w k)
  | None, None => forall k, slot_c w' k = slot_c w k
  end.
Proof.
  intros Hne H1 H2 w'. unfold w'. rewrite gear_update_split.
  pose proof (ceq_gear_states w t1 t2 r) as (C1 & C2 & C3). set (w1 := gear_states w t1 t2 r) in *.
  destruct (ceq_gear_cmds_len w1 t1 t2 r) as (LEN & OTH).
  assert (G : forall k, cmd_get w1 k = cmd_get w k) by (intros k; apply cmd_get_ext; assumption).
  assert (SL : forall k, slot_s (gear_cmds w1 t1 t2 r) k = slot_s (gear_states w t1 t2 r) k)
    by (intros k; apply slot_s_gear_cmds).
  split; [rewrite LEN; exact C3|]. split; [intros k; rewrite OTH; apply C2|]. split; [|split].
  - intros k K1 K2. rewrite SL, (gear_states_slots w t1 t2 r k H1 H2).
    destruct (Nat.eqb_spec k t1) as [|_]; [contradiction|]. destruct (Nat.eqb_spec k t2) as [|_]; [contradiction|].
    destruct (state_get w t1), (state_get w t2); reflexivity.
  - rewrite !SL, (gear_states_slots w t1 t2 r t1 H1 H2), (gear_states_slots w t1 t2 r t2 H1 H2).
    rewrite !Nat.eqb_refl. destruct (Nat.eqb_spec t1 t2) as [|_]; [contradiction|].
    destruct (Nat.eqb_spec t2 t1) as [E|_]; [symmetry in E; contradiction|].
    destruct (state_get w t1), (state_get w t2); split; reflexivity.
  - assert (H1' : t1 < length w1) by (rewrite C3; exact H1). assert (H2' : t2 < length w1) by (rewrite C3; exact H2).
    destruct (gear_cmd_effect w1 t1 t2 r Hne H1' H2') as (_ & E). rewrite !G in E.
    destruct (cmd_get w t1) as [c1|], (cmd_get w t2) as [c2|].
    + destruct (d_time c1 >=? d_time c2)%Z; destruct E as (E1 & E2); (split; [exact E1|]);
        intros k K; rewrite E2 by exact K; apply C1.
    + destruct E as (E1 & E2). split; [exact E1|]. intros k K; rewrite E2 by exact K; apply C1.
    + destruct E as (E1 & E2). split; [exact E1|]. intros k K; rewrite E2 by exact K; apply C1.
    + intros k. rewrite E. apply C1.
Qed.

(* the inverter, whole update: the state effect of [invert_states] (Proofs/DeviceProofs.v) survives the
   command half; links and size unchanged *)
Theorem invert_update_effect (w : world) t1 t2 :
  t1 <> t2 -> t1 < length w -> t2 < length w ->
  let w' := invert_update w t1 t2 in
  length w' = length w /\
  (forall k, oth w' k = oth w k) /\
  (forall k, k <> t1 -> k <> t2 -> slot_s w' k = slot_s w k) /\
  match state_get w t1, state_get w t2 with
  | None, None => slot_s w' t1 = slot_s w t1 /\ slot_s w' t2 = slot_s w t2
  | None, Some d2 => slot_s w' t1 = Some (mkDatum (d_time d2) (s_neg (d_val d2))) /\ slot_s w' t2 = slot_s w t2
  | Some d1, None => slot_s w' t2 = Some (mkDatum (d_time d1) (s_neg (d_val d1))) /\ slot_s w' t1 = slot_s w t1
  | Some d1, Some d2 =>
      let ns := s_divf (s_sub (d_val d1) (d_val d2)) ftwo in
      slot_s w' t1 = Some (mkDatum (Z.max (d_time d1) (d_time d2)) ns) /\
      slot_s w' t2 = Some (mkDatum (Z.max (d_time d1) (d_time d2)) (s_neg ns))
  end.
Proof.
  intros Hne H1 H2 w'. unfold w'. rewrite invert_update_split.
  pose proof (ceq_invert_states w t1 t2) as (C1 & C2 & C3).
  destruct (ceq_invert_cmds_len (invert_states w t1 t2) t1 t2) as (LEN & OTH).
  destruct (invert_state_effect w t1 t2 Hne H1 H2) as (A & _ & B).
  split; [rewrite LEN; exact C3|]. split; [intros k; rewrite OTH; apply C2|]. split.
  - intros k K1 K2. rewrite slot_s_invert_cmds. apply A; assumption.
  - rewrite !slot_s_invert_cmds. exact B.
Qed.

(* ------------------------------------------------------------------------------------------------ *)
(* 2. AXLE, any number of terminals *)
(* the states read at the terminals that have data, in terminal order *)
Definition present (w : world) (ts : list nat) : list (datum state) :=
  flat_map (fun i => match state_get w i with Some g => [g] | None => [] end) ts.
Lemma present_In (w : world) ts g : In g (present w ts) <-> exists i, In i ts /\ state_get w i = Some g.
Proof.
  unfold present. rewrite in_flat_map. split.
  - intros (i & Hi & Hg). exists i. split; [exact Hi|].
    destruct (state_get w i) as [x|]; [destruct Hg as [->|[]]; reflexivity|destruct Hg].
  - intros (i & Hi & E). exists i. split; [exact Hi|]. rewrite E. left; reflexivity.
Qed.
Lemma present_nil_iff (w : world) ts : present w ts = [] <-> forall i, In i ts -> state_get w i = None.
Proof.
  split.
  - intros E i Hi. destruct (state_get w i) as [g|] eqn:Eg; [|reflexivity].
    assert (X : In g (present w ts)) by (apply present_In; exists i; split; assumption).
    rewrite E in X. destruct X.
  - intros H. destruct (present w ts) as [|g l] eqn:E; [reflexivity|].
    assert (X : In g (present w ts)) by (rewrite E; left; reflexivity).
    apply present_In in X. destruct X as (i & Hi & Eg). rewrite (H i Hi) in Eg. discriminate.
Qed.
(* what every terminal of the axle receives: the sum of the present reads, accumulated from the left
   starting from the zero state, divided by their number; stamped with the newest of their time stamps
   (accumulated from i64::MIN) *)
Definition axle_time (ds : list (datum state)) : Z := fold_left Z.max (map (@d_time _) ds) (-9223372036854775808)%Z.
Definition axle_sum (ds : list (datum state)) : state := fold_left s_add (map (@d_val _) ds) (snew_raw fzero fzero fzero).
Definition axle_mean (ds : list (datum state)) : datum state :=
  mkDatum (axle_time ds) (s_divf (axle_sum ds) (f_of_Z (Z.of_nat (length ds)))).

Lemma fold_dstate_add (l : list (datum state)) : forall a,
  fold_left dstate_add l a = mkDatum (fold_left Z.max (map (@d_time _) l) (d_time a)) (fold_left s_add (map (@d_val _) l) (d_val a)).
Proof.
  induction l as [|g r IH]; intros a; cbn [fold_left map].
  - destruct a; reflexivity.
  - rewrite IH. unfold dstate_add. cbn [d_time d_val]. rewrite tmax_ge_max. reflexivity.
Qed.
Lemma axle_acc_present (w : world) ts : forall a : datum state * Z,
  fold_left (fun (a : datum state * Z) i =>
               match state_get w i with Some g => (dstate_add (fst a) g, (snd a + 1)%Z) | None => a end) ts a
  = (fold_left dstate_add (present w ts) (fst a), (snd a + Z.of_nat (length (present w ts)))%Z).
Proof.
  induction ts as [|t r IH]; intros a.
  - cbn [fold_left present flat_map length]. destruct a as [x n]. cbn [fst snd]. f_equal. lia.
  - cbn [fold_left]. rewrite IH. unfold present. cbn [flat_map]. fold (present w r).
    destruct (state_get w t) as [g|]; cbn [app fold_left fst snd length]; [|reflexivity].
    f_equal. lia.
Qed.
Lemma axle_states_eq (w : world) ts :
  axle_states w ts = match present w ts with
                     | [] => w
                     | _ :: _ => fold_left (fun w' i => set_state w' i (axle_mean (present w ts))) ts w
                     end.
Proof.
  unfold axle_states. rewrite axle_acc_present. cbn [fst snd]. rewrite fold_dstate_add. cbn [d_time d_val].
  destruct (present w ts) as [|g l] eqn:E.
  - reflexivity.
  - assert (X : ((0 + Z.of_nat (length (g :: l)) >=? 1) = true)%Z) by (apply Z.geb_le; cbn [length]; lia).
    rewrite X. reflexivity.
Qed.
(* writing one state to every terminal of a list *)
Lemma fold_set_state_slots (d : datum state) (ts : list nat) : forall (w : world) k,
  slot_s (fold_left (fun w' i => set_state w' i d) ts w) k
    = if existsb (Nat.eqb k) ts && Nat.ltb k (length w) then Some d else slot_s w k.
Proof.
  induction ts as [|t r IH]; intros w k; cbn [fold_left existsb].
  - reflexivity.
  - rewrite IH, len_set_state, slot_s_set_state.
    destruct (Nat.eqb_spec k t) as [->|Hn]; cbn [orb andb].
    + destruct (Nat.ltb t (length w)); [|rewrite andb_false_r]; cbn [andb]; [|reflexivity].
      destruct (existsb (Nat.eqb t) r); reflexivity.
    + reflexivity.
Qed.

(* THEOREM G2 (axle, N terminals, whole update).  [ds] = the states read, before the update, at the
   terminals that have data.  If there is none, no state slot changes.  Otherwise EVERY terminal of the axle
   that exists in the world has its state slot set to the same datum [axle_mean ds]: the left-accumulated
   sum of the reads divided by their number, stamped with the newest of their times.  State slots of
   terminals not on the axle, every link and the size of the world are unchanged; for the command slots see
   [ChainProofs.axle_relay] (all terminals of the axle receive the newest readable command, other command
   slots are unchanged).  The terminals need not be distinct. *)
Theorem axle_update_effect (w : world) (ts : list nat) :
  let w' := axle_update w ts in
  let ds := present w ts in
  length w' = length w /\
  (forall k, oth w' k = oth w k) /\
  (forall k, ~ In k ts -> slot_s w' k = slot_s w k) /\
  (ds = [] -> forall k, slot_s w' k = slot_s w k) /\
  (ds <> [] -> forall i, In i ts -> i < length w -> slot_s w' i = Some (axle_mean ds)).
Proof.
  intros w' ds. unfold w'. rewrite axle_update_split.
  pose proof (ceq_axle_states w ts) as (C1 & C2 & C3).
  destruct (ceq_axle_cmds_len (axle_states w ts) ts) as (LEN & OTH).
  split; [rewrite LEN; exact C3|]. split; [intros k; rewrite OTH; apply C2|].
  assert (SL : forall k, slot_s (axle_cmds (axle_states w ts) ts) k =
                         slot_s (match ds with
                                 | [] => w
                                 | _ :: _ => fold_left (fun w' i => set_state w' i (axle_mean ds)) ts w
                                 end) k)
    by (intros k; rewrite slot_s_axle_cmds, axle_states_eq; reflexivity).
  split; [|split].
  - intros k Hk. rewrite SL. destruct ds as [|g l]; [reflexivity|]. rewrite fold_set_state_slots.
    destruct (existsb (Nat.eqb k) ts) eqn:E; [apply existsb_eqb_In in E; contradiction|reflexivity].
  - intros E k. rewrite SL, E. reflexivity.
  - intros Hne i Hi Hr. rewrite SL. destruct ds as [|g l] eqn:E; [contradiction|]. rewrite fold_set_state_slots.
    apply existsb_eqb_In in Hi. rewrite Hi. apply Nat.ltb_lt in Hr. rewrite Hr. reflexivity.
Qed.
(* command slots of terminals not on the axle are unchanged (the rest of the command effect is [axle_relay]) *)
Corollary axle_update_cmd_frame (w : world) ts :
  (forall i, In i ts -> i < length w) -> forall k, ~ In k ts -> slot_c (axle_update w ts) k = slot_c w k.
Proof. intros Hr. apply (axle_relay w ts Hr). Qed.
(* "no data anywhere => unchanged", phrased on the reads; and every terminal of the axle in range *)
Corollary axle_update_no_data (w : world) ts :
  (forall i, In i ts -> state_get w i = None) -> forall k, slot_s (axle_update w ts) k = slot_s w k.
Proof. intros H. apply (axle_update_effect w ts). apply present_nil_iff. exact H. Qed.
Corollary axle_update_all_equal (w : world) ts i0 g0 :
  (forall i, In i ts -> i < length w) -> In i0 ts -> state_get w i0 = Some g0 ->
  forall i, In i ts -> slot_s (axle_update w ts) i = Some (axle_mean (present w ts)).
Proof.
  intros Hr Hi0 E i Hi. apply (axle_update_effect w ts); [|exact Hi|apply Hr; exact Hi].
  intros En. assert (X : In g0 (present w ts)) by (apply present_In; exists i0; split; assumption).
  rewrite En in X. destruct X.
Qed.
(* the time stamp is the newest contributing one: no contributing read is newer, and (time stamps being
   i64 values, i.e. not below i64::MIN) it IS the time stamp of one of the contributing reads *)
Lemma fold_max_ge (l : list Z) : forall m, (m <= fold_left Z.max l m)%Z /\ forall x, In x l -> (x <= fold_left Z.max l m)%Z.
Proof.
  induction l as [|y r IH]; intros m; cbn [fold_left].
  - split; [lia|intros x []].
  - destruct (IH (Z.max m y)) as (A & B). split; [lia|]. intros x [<-|Hx]; [lia|apply B; exact Hx].
Qed.
Lemma fold_max_in (l : list Z) : forall m, fold_left Z.max l m = m \/ In (fold_left Z.max l m) l.
Proof.
  induction l as [|y r IH]; intros m; cbn [fold_left]; [left; reflexivity|].
  destruct (IH (Z.max m y)) as [E|E]; [|right; right; exact E].
  rewrite E. destruct (Z.max_spec m y) as [[_ ->]|[_ ->]]; [right; left; reflexivity|left; reflexivity].
Qed.
Theorem axle_time_newest (ds : list (datum state)) :
  (forall g, In g ds -> (d_time g <= axle_time ds)%Z) /\
  (ds <> [] -> (forall g, In g ds -> (-9223372036854775808 <= d_time g)%Z) ->
   exists g, In g ds /\ axle_time ds = d_time g).
Proof.
  unfold axle_time. split.
  - intros g Hg. apply fold_max_ge. apply in_map. exact Hg.
  - intros Hne Hlo. destruct (fold_max_in (map (@d_time _) ds) (-9223372036854775808)%Z) as [E|E].
    + destruct ds as [|g l]; [contradiction|]. exists g. split; [left; reflexivity|].
      assert (Ig : In g (g :: l)) by (left; reflexivity).
      pose proof (proj2 (fold_max_ge (map (@d_time _) (g :: l)) (-9223372036854775808)%Z) (d_time g)
                        (in_map (@d_time _) _ _ Ig)) as U.
      pose proof (Hlo g Ig) as V. lia.
    + apply in_map_iff in E. destruct E as (g & Eg & Hg). exists g. split; [exact Hg|symmetry; exact Eg].
Qed.

(* ------------------------------------------------------------------------------------------------ *)
(* 3. DIFFERENTIAL, all four trust modes *)
(* every state slot after the update, whatever the three terminals are (last write wins) *)
Lemma diff_update_slots (w : world) s1 s2 sm dt k :
  s1 < length w -> s2 < length w -> sm < length w ->
  slot_s (diff_update w s1 s2 sm dt) k =
  match dt with
  | DSide1 => match state_get w sm, state_get w s2 with
              | Some c, Some b =>
                  if Nat.eqb k s1 then Some (mkDatum (Z.max (d_time c) (d_time b)) (s_sub (d_val c) (d_val b))) else slot_s w k
              | _, _ => slot_s w k end
  | DSide2 => match state_get w sm, state_get w s1 with
              | Some c, Some a =>
                  if Nat.eqb k s2 then Some (mkDatum (Z.max (d_time c) (d_time a)) (s_sub (d_val c) (d_val a))) else slot_s w k
              | _, _ => slot_s w k end
  | DSum => match state_get w s1, state_get w s2 with
            | Some a, Some b =>
                if Nat.eqb k sm then Some (mkDatum (Z.max (d_time a) (d_time b)) (s_add (d_val a) (d_val b))) else slot_s w k
            | _, _ => slot_s w k end
  | DEqual => match state_get w sm, state_get w s1, state_get w s2 with
              | Some c, Some a, Some b =>
                  let T := Z.max (Z.max (d_time a) (d_time b)) (d_time c) in
                  let x := d_val a in let y := d_val b in let z := d_val c in
                  if Nat.eqb k s2 then Some (mkDatum T (s_divf (s_add (s_add (s_neg x) (s_mulf y ftwo)) z) fthree))
                  else if Nat.eqb k s1 then Some (mkDatum T (s_divf (s_add (s_sub (s_mulf x ftwo) y) z) fthree))
                  else if Nat.eqb k sm then Some (mkDatum T (s_divf (s_add (s_add x y) (s_mulf z ftwo)) fthree))
                  else slot_s w k
              | _, _, _ => slot_s w k end
  end.
Proof.
  intros H1 H2 H3. apply Nat.ltb_lt in H1 as L1. apply Nat.ltb_lt in H2 as L2. apply Nat.ltb_lt in H3 as L3.
  unfold diff_update. destruct dt.
  - destruct (state_get w sm) as [c|]; [|reflexivity]. destruct (state_get w s2) as [b|]; [|reflexivity].
    rewrite slot_s_set_state, L1, andb_true_r. unfold dstate_sub. rewrite tmax_ge_max. reflexivity.
  - destruct (state_get w sm) as [c|]; [|reflexivity]. destruct (state_get w s1) as [a|]; [|reflexivity].
    rewrite slot_s_set_state, L2, andb_true_r. unfold dstate_sub. rewrite tmax_ge_max. reflexivity.
  - destruct (state_get w s1) as [a|]; [|reflexivity]. destruct (state_get w s2) as [b|]; [|reflexivity].
    rewrite slot_s_set_state, L3, andb_true_r. unfold dstate_add. rewrite tmax_ge_max. reflexivity.
  - destruct (state_get w sm) as [c|]; [|reflexivity]. destruct (state_get w s1) as [a|]; [|reflexivity].
    destruct (state_get w s2) as [b|]; [|destruct (state_get w s2); reflexivity]. cbv zeta.
    rewrite !slot_s_set_state, !len_set_state, L1, L2, L3, !andb_true_r.
    unfold dstate_divf, dstate_add, dstate_sub, dmul_s, dneg_s. cbn [d_time d_val]. rewrite !tmax_ge_max. reflexivity.
Qed.

(* THEOREM G3 (differential).  Three different terminals in range.
   - distrust side 1: once the sum and side-2 reads exist, side 1's slot := sum - side2 (newest of the two
     times); side 2's and the sum's slots are not written;  likewise for side 2 and for the sum (:= side1 + side2);
   - equal trust: once all three reads x, y, z (side 1, side 2, sum) exist, the slots become
     (2x - y + z)/3, (-x + 2y + z)/3, (x + y + 2z)/3, all three stamped with the newest of the three times;
   - otherwise the world is unchanged ([C08_differential_needs_data]);
   - frame: other state slots, ALL command slots, links and size unchanged; every command read unchanged. *)
Theorem diff_update_effect (w : world) s1 s2 sm dt :
  s1 <> s2 -> s1 <> sm -> s2 <> sm -> s1 < length w -> s2 < length w -> sm < length w ->
  let w' := diff_update w s1 s2 sm dt in
  length w' = length w /\
  (forall k, oth w' k = oth w k /\ slot_c w' k = slot_c w k /\ cmd_get w' k = cmd_get w k) /\
  (forall k, k <> s1 -> k <> s2 -> k <> sm -> slot_s w' k = slot_s w k) /\
  match dt with
  | DSide1 => match state_get w sm, state_get w s2 with
              | Some c, Some b =>
                  slot_s w' s1 = Some (mkDatum (Z.max (d_time c) (d_time b)) (s_sub (d_val c) (d_val b))) /\
                  slot_s w' s2 = slot_s w s2 /\ slot_s w' sm = slot_s w sm
              | _, _ => w' = w end
  | DSide2 => match state_get w sm, state_get w s1 with
              | Some c, Some a =>
                  slot_s w' s2 = Some (mkDatum (Z.max (d_time c) (d_time a)) (s_sub (d_val c) (d_val a))) /\
                  slot_s w' s1 = slot_s w s1 /\ slot_s w' sm = slot_s w sm
              | _, _ => w' = w end
  | DSum => match state_get w s1, state_get w s2 with
            | Some a, Some b =>
                slot_s w' sm = Some (mkDatum (Z.max (d_time a) (d_time b)) (s_add (d_val a) (d_val b))) /\
                slot_s w' s1 = slot_s w s1 /\ slot_s w' s2 = slot_s w s2
            | _, _ => w' = w end
  | DEqual => match state_get w sm, state_get w s1, state_get w s2 with
              | Some c, Some a, Some b =>
                  let T := Z.max (Z.max (d_time a) (d_time b)) (d_time c) in
                  let x := d_val a in let y := d_val b in let z := d_val c in
                  slot_s w' s1 = Some (mkDatum T (s_divf (s_add (s_sub (s_mulf x ftwo) y) z) fthree)) /\
                  slot_s w' s2 = Some (mkDatum T (s_divf (s_add (s_add (s_neg x) (s_mulf y ftwo)) z) fthree)) /\
                  slot_s w' sm = Some (mkDatum T (s_divf (s_add (s_add x y) (s_mulf z ftwo)) fthree))
              | _, _, _ => w' = w end
  end.
Proof.
  intros N12 N1m N2m H1 H2 H3 w'.
  pose proof (ceq_diff_update w s1 s2 sm dt) as CE. pose proof (ceq_cmd_get _ _ CE) as CG. destruct CE as (C1 & C2 & C3).
  fold w' in C1, C2, C3, CG.
  assert (SL : forall k, slot_s w' k = _) by (intros k; exact (diff_update_slots w s1 s2 sm dt k H1 H2 H3)).
  assert (E12 : Nat.eqb s1 s2 = false) by (apply Nat.eqb_neq; exact N12).
  assert (E21 : Nat.eqb s2 s1 = false) by (apply Nat.eqb_neq; intros E; apply N12; symmetry; exact E).
  assert (E1m : Nat.eqb s1 sm = false) by (apply Nat.eqb_neq; exact N1m).
  assert (Em1 : Nat.eqb sm s1 = false) by (apply Nat.eqb_neq; intros E; apply N1m; symmetry; exact E).
  assert (E2m : Nat.eqb s2 sm = false) by (apply Nat.eqb_neq; exact N2m).
  assert (Em2 : Nat.eqb sm s2 = false) by (apply Nat.eqb_neq; intros E; apply N2m; symmetry; exact E).
  split; [exact C3|]. split; [intros k; split; [apply C2|split; [apply C1|apply CG]]|]. split.
  - intros k K1 K2 K3. rewrite SL.
    apply Nat.eqb_neq in K1. apply Nat.eqb_neq in K2. apply Nat.eqb_neq in K3. rewrite ?K1, ?K2, ?K3.
    destruct dt.
    + destruct (state_get w sm), (state_get w s2); rewrite ?K1; reflexivity.
    + destruct (state_get w sm), (state_get w s1); rewrite ?K2; reflexivity.
    + destruct (state_get w s1), (state_get w s2); rewrite ?K3; reflexivity.
    + destruct (state_get w sm), (state_get w s1), (state_get w s2); cbv zeta; rewrite ?K1, ?K2, ?K3; reflexivity.
  - destruct dt.
    + destruct (state_get w sm) as [c|] eqn:Ec; [destruct (state_get w s2) as [b|] eqn:Eb|].
      * rewrite !SL, Nat.eqb_refl, E21, Em1. repeat split.
      * unfold w', diff_update. rewrite Ec, Eb. reflexivity.
      * unfold w', diff_update. rewrite Ec. reflexivity.
    + destruct (state_get w sm) as [c|] eqn:Ec; [destruct (state_get w s1) as [a|] eqn:Ea|].
      * rewrite !SL, Nat.eqb_refl, E12, Em2. repeat split.
      * unfold w', diff_update. rewrite Ec, Ea. reflexivity.
      * unfold w', diff_update. rewrite Ec. reflexivity.
    + destruct (state_get w s1) as [a|] eqn:Ea; [destruct (state_get w s2) as [b|] eqn:Eb|].
      * rewrite !SL, Nat.eqb_refl, E1m, E2m. repeat split.
      * unfold w', diff_update. rewrite Ea, Eb. reflexivity.
      * unfold w', diff_update. rewrite Ea. reflexivity.
    + destruct (state_get w sm) as [c|] eqn:Ec; [destruct (state_get w s1) as [a|] eqn:Ea; [destruct (state_get w s2) as [b|] eqn:Eb|]|].
      * cbv zeta. rewrite !SL. cbv zeta. rewrite !Nat.eqb_refl, E12, Em1, Em2. repeat split.
      * unfold w', diff_update. rewrite Ec, Ea, Eb. reflexivity.
      * unfold w', diff_update. rewrite Ec, Ea. reflexivity.
      * unfold w', diff_update. rewrite Ec. reflexivity.
Qed.
End G.

(* ------------------------------------------------------------------------------------------------ *)
(* WHY the range and distinctness hypotheses (generic carrier) *)
Section Witness.
Context {F : Type} {NF : Num F}.
Variable (x : @state F) (r : F).
Let one : @world F := [ {| t_state := Some (mkDatum 7%Z x); t_cmd := None; t_other := None |} ].
(* a terminal index outside the world: it reads nothing and a write to it is lost, so "the side without
   information receives the implied value" cannot hold for it *)
Example gear_out_of_range_witness :
  state_get one 5 = None /\ state_get one 0 = Some (mkDatum 7%Z x) /\ slot_s (gear_update one 5 0 r) 5 = None.
Proof. repeat split. Qed.
(* t1 = t2: the second write (the side-2 expression) overwrites the first *)
Example gear_same_terminal_witness :
  slot_s (gear_update one 0 0 r) 0 =
  Some (mkDatum 7%Z (s_divf (s_mulf (s_add x (s_mulf x r)) r) (fadd (fmul r r) fone))).
Proof. reflexivity. Qed.
End Witness.

(* ================================================================================================ *)
(* Part R: the reals *)
From Coq Require Import Reals Lra Psatz.
From RRTK Require Import Num.RR Proofs.ProjReal.
Section RW.
Local Open Scope R_scope.
Notation stateR := (@state R).
Notation worldR := (@world R).
(* the three components of a state; every statement below is "for every component p" *)
Definition comps : list (stateR -> R) := [@s_pos R; @s_vel R; @s_acc R].
Lemma state_ext (a b : stateR) : (forall p, In p comps -> p a = p b) -> a = b.
Proof.
  intros H. destruct a as [a1 a2 a3], b as [b1 b2 b3].
  pose proof (H (@s_pos R) (or_introl eq_refl)) as E1.
  pose proof (H (@s_vel R) (or_intror (or_introl eq_refl))) as E2.
  pose proof (H (@s_acc R) (or_intror (or_intror (or_introl eq_refl)))) as E3.
  cbn in E1, E2, E3. subst. reflexivity.
Qed.
Ltac comp_cases p Hp := destruct Hp as [<-|[<-|[<-|[]]]].
Ltac rr := unfold fone, ftwo, fthree, fzero;
  cbn [s_pos s_vel s_acc s_divf s_mulf s_add s_sub s_neg snew_raw fadd fsub fmul fdiv fneg f_of_Z RR d_val d_time].

(* an unconnected terminal (or one whose partner holds no state) reads exactly its own slot *)
Lemma read_is_slot {F : Type} {NF : Num F} (w : @world F) i : partner_state w i = None -> state_get w i = slot_s w i.
Proof. unfold state_get, slot_s. intros ->. destruct (t_state (wget w i)); reflexivity. Qed.

(* ---------------- gear train ---------------- *)
(* THEOREM R1.  Both sides have data (reads x at t1, y at t2).  After [gear_update] the two state slots hold
   n1, n2 with the newest time stamp and, for position, velocity and acceleration alike:
   n2 = r*n1 exactly (the constraint); n1 = (x + r*y)/(r^2+1); (n1,n2) is the point of the line side2 = r*side1
   nearest to (x,y) (least squares); and if the reads already satisfy y = r*x then n1 = x and n2 = y. *)
Theorem gear_world_R (w : worldR) t1 t2 (r : R) d1 d2 :
  t1 <> t2 -> (t1 < length w)%nat -> (t2 < length w)%nat ->
  state_get w t1 = Some d1 -> state_get w t2 = Some d2 ->
  let w' := gear_update w t1 t2 r in
  let T := Z.max (d_time d1) (d_time d2) in
  exists n1 n2 : stateR,
    slot_s w' t1 = Some (mkDatum T n1) /\ slot_s w' t2 = Some (mkDatum T n2) /\
    forall p, In p comps ->
      let x := p (d_val d1) in let y := p (d_val d2) in
      p n2 = r * p n1 /\
      p n1 = (x + r * y) / (r * r + 1) /\
      (forall a, (x - p n1)^2 + (y - p n2)^2 <= (x - a)^2 + (y - r * a)^2) /\
      (y = r * x -> p n1 = x /\ p n2 = y).
Proof.
  intros Hne H1 H2 E1 E2 w' T.
  destruct (gear_update_effect w t1 t2 r Hne H1 H2) as (_ & _ & _ & S & _). rewrite E1, E2 in S. cbv zeta in S.
  destruct S as (S1 & S2). eexists. eexists. split; [exact S1|]. split; [exact S2|].
  intros p Hp x y.
  assert (A : p (s_divf (s_add (d_val d1) (s_mulf (d_val d2) r)) (fadd (fmul r r) fone)) = (x + r * y) / (r * r + 1)).
  { unfold x, y. comp_cases p Hp; rr; f_equal; ring. }
  assert (B : p (s_divf (s_mulf (s_add (d_val d1) (s_mulf (d_val d2) r)) r) (fadd (fmul r r) fone))
              = r * ((x + r * y) / (r * r + 1))).
  { unfold x, y. comp_cases p Hp; rr; field; nra. }
  rewrite A, B. split; [reflexivity|]. split; [reflexivity|]. split.
  - intros a. apply (gear_proj_min x y r a).
  - intros ->. split; field; nra.
Qed.
(* fixed point for the whole state: reads already on the constraint are written back unchanged (the
   older one gets the newer time stamp) *)
Corollary gear_fixed_point_R (w : worldR) t1 t2 (r : R) d1 d2 :
  t1 <> t2 -> (t1 < length w)%nat -> (t2 < length w)%nat ->
  state_get w t1 = Some d1 -> state_get w t2 = Some d2 ->
  (forall p, In p comps -> p (d_val d2) = r * p (d_val d1)) ->
  let w' := gear_update w t1 t2 r in
  slot_s w' t1 = Some (mkDatum (Z.max (d_time d1) (d_time d2)) (d_val d1)) /\
  slot_s w' t2 = Some (mkDatum (Z.max (d_time d1) (d_time d2)) (d_val d2)).
Proof.
  intros Hne H1 H2 E1 E2 HC w'.
  destruct (gear_world_R w t1 t2 r d1 d2 Hne H1 H2 E1 E2) as (n1 & n2 & S1 & S2 & P). fold w' in S1, S2.
  assert (X1 : n1 = d_val d1) by (apply state_ext; intros p Hp; apply (P p Hp); apply HC; exact Hp).
  assert (X2 : n2 = d_val d2) by (apply state_ext; intros p Hp; apply (P p Hp); apply HC; exact Hp).
  rewrite S1, S2, X1, X2. split; reflexivity.
Qed.
(* one side without information: it receives the value implied by the other side's READ; from side 2 to
   side 1 this needs r <> 0 *)
Theorem gear_one_sided_R (w : worldR) t1 t2 (r : R) :
  t1 <> t2 -> (t1 < length w)%nat -> (t2 < length w)%nat ->
  let w' := gear_update w t1 t2 r in
  (forall d1, state_get w t1 = Some d1 -> state_get w t2 = None ->
     exists n2, slot_s w' t2 = Some (mkDatum (d_time d1) n2) /\ slot_s w' t1 = slot_s w t1 /\
                forall p, In p comps -> p n2 = r * p (d_val d1)) /\
  (forall d2, state_get w t1 = None -> state_get w t2 = Some d2 -> r <> 0 ->
     exists n1, slot_s w' t1 = Some (mkDatum (d_time d2) n1) /\ slot_s w' t2 = slot_s w t2 /\
                forall p, In p comps -> p (d_val d2) = r * p n1).
Proof.
  intros Hne H1 H2 w'. destruct (gear_update_effect w t1 t2 r Hne H1 H2) as (_ & _ & _ & S & _). fold w' in S. split.
  - intros d1 E1 E2. rewrite E1, E2 in S. destruct S as (S1 & S2). eexists. split; [exact S2|]. split; [exact S1|].
    intros p Hp. comp_cases p Hp; rr; ring.
  - intros d2 E1 E2 Hr. rewrite E1, E2 in S. destruct S as (S1 & S2). eexists. split; [exact S1|]. split; [exact S2|].
    intros p Hp. comp_cases p Hp; rr; field; exact Hr.
Qed.

(* ---------------- inverter ---------------- *)
(* THEOREM R2.  Both sides have data: n2 = -n1 exactly, n1 = (x - y)/2, least squares, fixed point. *)
Theorem invert_world_R (w : worldR) t1 t2 d1 d2 :
  t1 <> t2 -> (t1 < length w)%nat -> (t2 < length w)%nat ->
  state_get w t1 = Some d1 -> state_get w t2 = Some d2 ->
  let w' := invert_update w t1 t2 in
  let T := Z.max (d_time d1) (d_time d2) in
  exists n1 n2 : stateR,
    slot_s w' t1 = Some (mkDatum T n1) /\ slot_s w' t2 = Some (mkDatum T n2) /\
    forall p, In p comps ->
      let x := p (d_val d1) in let y := p (d_val d2) in
      p n2 = - p n1 /\
      p n1 = (x - y) / 2 /\
      (forall a, (x - p n1)^2 + (y - p n2)^2 <= (x - a)^2 + (y - - a)^2) /\
      (y = - x -> p n1 = x /\ p n2 = y).
Proof.
  intros Hne H1 H2 E1 E2 w' T.
  destruct (invert_update_effect w t1 t2 Hne H1 H2) as (_ & _ & _ & S). rewrite E1, E2 in S. cbv zeta in S.
  destruct S as (S1 & S2). eexists. eexists. split; [exact S1|]. split; [exact S2|].
  intros p Hp x y.
  assert (A : p (s_divf (s_sub (d_val d1) (d_val d2)) ftwo) = (x - y) / 2) by (unfold x, y; comp_cases p Hp; reflexivity).
  assert (B : p (s_neg (s_divf (s_sub (d_val d1) (d_val d2)) ftwo)) = - ((x - y) / 2)) by (unfold x, y; comp_cases p Hp; reflexivity).
  rewrite A, B. split; [reflexivity|]. split; [reflexivity|]. split.
  - intros a. apply (inv_proj_min x y a).
  - intros ->. split; field.
Qed.
Theorem invert_one_sided_R (w : worldR) t1 t2 :
  t1 <> t2 -> (t1 < length w)%nat -> (t2 < length w)%nat ->
  let w' := invert_update w t1 t2 in
  (forall d1, state_get w t1 = Some d1 -> state_get w t2 = None ->
     exists n2, slot_s w' t2 = Some (mkDatum (d_time d1) n2) /\ slot_s w' t1 = slot_s w t1 /\
                forall p, In p comps -> p n2 = - p (d_val d1)) /\
  (forall d2, state_get w t1 = None -> state_get w t2 = Some d2 ->
     exists n1, slot_s w' t1 = Some (mkDatum (d_time d2) n1) /\ slot_s w' t2 = slot_s w t2 /\
                forall p, In p comps -> p (d_val d2) = - p n1).
Proof.
  intros Hne H1 H2 w'. destruct (invert_update_effect w t1 t2 Hne H1 H2) as (_ & _ & _ & S). fold w' in S. split.
  - intros d1 E1 E2. rewrite E1, E2 in S. destruct S as (S2 & S1). eexists. split; [exact S2|]. split; [exact S1|].
    intros p Hp. comp_cases p Hp; reflexivity.
  - intros d2 E1 E2. rewrite E1, E2 in S. destruct S as (S1 & S2). eexists. split; [exact S1|]. split; [exact S2|].
    intros p Hp. comp_cases p Hp; rr; ring.
Qed.

(* ---------------- axle ---------------- *)
Lemma fold_s_add_comp (p : stateR -> R) (Hp : In p comps) (l : list stateR) : forall a,
  p (fold_left s_add l a) = p a + sum (map p l).
Proof.
  induction l as [|s r IH]; intros a; cbn [fold_left map sum]; [ring|].
  rewrite IH. assert (E : p (s_add a s) = p a + p s) by (comp_cases p Hp; reflexivity). rewrite E. ring.
Qed.
Lemma sum_const (l : list R) (v : R) : (forall x, In x l -> x = v) -> sum l = INR (length l) * v.
Proof.
  induction l as [|x r IH]; intros H; [cbn; ring|].
  cbn [sum length]. rewrite S_INR, IH by (intros y Hy; apply H; right; exact Hy).
  rewrite (H x (or_introl eq_refl)). ring.
Qed.
(* THEOREM R3.  ds = the reads of the terminals that have data (non-empty).  After [axle_update] every
   terminal of the axle holds the SAME datum (the constraint "all equal", exactly), stamped [axle_time ds]
   (newest, see [axle_time_newest]); per component its value is the arithmetic mean of the reads, which
   minimises the sum of squared deviations from the reads; if all reads already agree on a component, that
   common value is what is written. *)
Theorem axle_world_R (w : worldR) (ts : list nat) :
  (forall i, In i ts -> (i < length w)%nat) ->
  let ds := present w ts in
  ds <> [] ->
  let w' := axle_update w ts in
  exists m : stateR,
    (forall i, In i ts -> slot_s w' i = Some (mkDatum (axle_time ds) m)) /\
    forall p, In p comps ->
      let xs := map (fun g => p (d_val g)) ds in
      p m = sum xs / INR (length xs) /\
      (forall a, sq_dev xs (p m) <= sq_dev xs a) /\
      (forall v, (forall g, In g ds -> p (d_val g) = v) -> p m = v).
Proof.
  intros Hr ds Hne w'. destruct (axle_update_effect w ts) as (_ & _ & _ & _ & S). fold ds w' in S.
  exists (d_val (axle_mean ds)). split.
  - intros i Hi. rewrite (S Hne i Hi (Hr i Hi)). reflexivity.
  - intros p Hp xs.
    assert (Hn : 0 < INR (length ds)) by (destruct ds; [contradiction|cbn [length]; apply lt_0_INR; lia]).
    assert (L : length xs = length ds) by (unfold xs; apply map_length).
    assert (A : p (d_val (axle_mean ds)) = sum xs / INR (length xs)).
    { rewrite L. unfold axle_mean, axle_sum. cbn [d_val].
      assert (E : forall s k, p (s_divf s k) = p s / k) by (intros s k; comp_cases p Hp; reflexivity).
      rewrite E, (fold_s_add_comp p Hp). unfold xs. rewrite map_map.
      assert (Z0 : p (snew_raw fzero fzero fzero) = 0) by (comp_cases p Hp; reflexivity).
      rewrite Z0. change (f_of_Z (Z.of_nat (length ds))) with (IZR (Z.of_nat (length ds))).
      rewrite <- INR_IZR_INZ. f_equal. ring. }
    rewrite A. split; [reflexivity|]. split.
    + intros a. apply (axle_proj_min xs a). unfold xs. destruct ds; [contradiction|discriminate].
    + intros v Hv. rewrite (sum_const xs v).
      * rewrite L. field. lra.
      * intros x Hx. unfold xs in Hx. apply in_map_iff in Hx. destruct Hx as (g & <- & Hg). apply Hv. exact Hg.
Qed.
(* fixed point for the whole state: if every terminal with data reads the same state s, every terminal of
   the axle is set to s *)
Corollary axle_fixed_point_R (w : worldR) (ts : list nat) (s : stateR) :
  (forall i, In i ts -> (i < length w)%nat) ->
  present w ts <> [] ->
  (forall i g, In i ts -> state_get w i = Some g -> d_val g = s) ->
  forall i, In i ts -> slot_s (axle_update w ts) i = Some (mkDatum (axle_time (present w ts)) s).
Proof.
  intros Hr Hne Hs i Hi. destruct (axle_world_R w ts Hr Hne) as (m & S & P).
  assert (X : m = s).
  { apply state_ext. intros p Hp. apply (P p Hp). intros g Hg. apply present_In in Hg.
    destruct Hg as (j & Hj & Ej). rewrite (Hs j g Hj Ej). reflexivity. }
  rewrite (S i Hi), X. reflexivity.
Qed.

(* ---------------- differential ---------------- *)
(* THEOREM R4 (equal trust).  All three reads exist (x at side 1, y at side 2, z at the sum).  After the
   update the three slots hold n1, n2, ns with n1 + n2 = ns exactly; they are the least-squares projection
   of (x,y,z) onto side1 + side2 = sum; and reads with z = x + y are written back unchanged. *)
Theorem diff_equal_world_R (w : worldR) s1 s2 sm a b c :
  s1 <> s2 -> s1 <> sm -> s2 <> sm -> (s1 < length w)%nat -> (s2 < length w)%nat -> (sm < length w)%nat ->
  state_get w s1 = Some a -> state_get w s2 = Some b -> state_get w sm = Some c ->
  let w' := diff_update w s1 s2 sm DEqual in
  let T := Z.max (Z.max (d_time a) (d_time b)) (d_time c) in
  exists n1 n2 ns : stateR,
    slot_s w' s1 = Some (mkDatum T n1) /\ slot_s w' s2 = Some (mkDatum T n2) /\ slot_s w' sm = Some (mkDatum T ns) /\
    forall p, In p comps ->
      let x := p (d_val a) in let y := p (d_val b) in let z := p (d_val c) in
      p n1 + p n2 = p ns /\
      p n1 = (2 * x - y + z) / 3 /\ p n2 = (- x + 2 * y + z) / 3 /\ p ns = (x + y + 2 * z) / 3 /\
      (forall a' b', (x - p n1)^2 + (y - p n2)^2 + (z - p ns)^2 <= (x - a')^2 + (y - b')^2 + (z - (a' + b'))^2) /\
      (z = x + y -> p n1 = x /\ p n2 = y /\ p ns = z).
Proof.
  intros N12 N1m N2m H1 H2 H3 Ea Eb Ec w' T.
  destruct (diff_update_effect w s1 s2 sm DEqual N12 N1m N2m H1 H2 H3) as (_ & _ & _ & S).
  rewrite Ea, Eb, Ec in S. cbv zeta in S. destruct S as (S1 & S2 & S3).
  eexists. eexists. eexists. split; [exact S1|]. split; [exact S2|]. split; [exact S3|].
  intros p Hp x y z.
  assert (A1 : p (s_divf (s_add (s_sub (s_mulf (d_val a) ftwo) (d_val b)) (d_val c)) fthree) = (2 * x - y + z) / 3)
    by (unfold x, y, z; comp_cases p Hp; rr; f_equal; ring).
  assert (A2 : p (s_divf (s_add (s_add (s_neg (d_val a)) (s_mulf (d_val b) ftwo)) (d_val c)) fthree) = (- x + 2 * y + z) / 3)
    by (unfold x, y, z; comp_cases p Hp; rr; f_equal; ring).
  assert (A3 : p (s_divf (s_add (s_add (d_val a) (d_val b)) (s_mulf (d_val c) ftwo)) fthree) = (x + y + 2 * z) / 3)
    by (unfold x, y, z; comp_cases p Hp; rr; f_equal; ring).
  rewrite A1, A2, A3. split; [apply diff_constraint|]. split; [reflexivity|]. split; [reflexivity|]. split; [reflexivity|]. split.
  - intros a' b'. rewrite <- (diff_constraint x y z). apply (diff_proj_min x y z a' b').
  - intros ->. destruct (diff_fixed x y) as (F1 & F2 & F3). rewrite F1, F2, F3. repeat split.
Qed.
Corollary diff_equal_fixed_point_R (w : worldR) s1 s2 sm a b c :
  s1 <> s2 -> s1 <> sm -> s2 <> sm -> (s1 < length w)%nat -> (s2 < length w)%nat -> (sm < length w)%nat ->
  state_get w s1 = Some a -> state_get w s2 = Some b -> state_get w sm = Some c ->
  (forall p, In p comps -> p (d_val c) = p (d_val a) + p (d_val b)) ->
  let w' := diff_update w s1 s2 sm DEqual in
  let T := Z.max (Z.max (d_time a) (d_time b)) (d_time c) in
  slot_s w' s1 = Some (mkDatum T (d_val a)) /\ slot_s w' s2 = Some (mkDatum T (d_val b)) /\
  slot_s w' sm = Some (mkDatum T (d_val c)).
Proof.
  intros N12 N1m N2m H1 H2 H3 Ea Eb Ec HC w' T.
  destruct (diff_equal_world_R w s1 s2 sm a b c N12 N1m N2m H1 H2 H3 Ea Eb Ec) as (n1 & n2 & ns & S1 & S2 & S3 & P).
  fold w' T in S1, S2, S3.
  assert (X1 : n1 = d_val a) by (apply state_ext; intros p Hp; apply (P p Hp); apply HC; exact Hp).
  assert (X2 : n2 = d_val b) by (apply state_ext; intros p Hp; apply (P p Hp); apply HC; exact Hp).
  assert (X3 : ns = d_val c) by (apply state_ext; intros p Hp; apply (P p Hp); apply HC; exact Hp).
  rewrite S1, S2, S3, X1, X2, X3. repeat split.
Qed.
(* THEOREM R5 (one distrusted branch).  The distrusted branch's slot is recomputed from the READS of the two
   trusted branches, so that (new slot, the two reads) satisfy side1 + side2 = sum exactly; the trusted
   branches' slots are not written; and if the value v read at (or held by) the distrusted branch already
   satisfies the constraint with the two trusted reads, v is what is written. *)
Theorem diff_distrust_world_R (w : worldR) s1 s2 sm :
  s1 <> s2 -> s1 <> sm -> s2 <> sm -> (s1 < length w)%nat -> (s2 < length w)%nat -> (sm < length w)%nat ->
  (forall b c, state_get w s2 = Some b -> state_get w sm = Some c ->
     let w' := diff_update w s1 s2 sm DSide1 in
     exists n, slot_s w' s1 = Some (mkDatum (Z.max (d_time c) (d_time b)) n) /\
               slot_s w' s2 = slot_s w s2 /\ slot_s w' sm = slot_s w sm /\
               forall p, In p comps -> p n + p (d_val b) = p (d_val c) /\
                                       forall v, v + p (d_val b) = p (d_val c) -> p n = v) /\
  (forall a c, state_get w s1 = Some a -> state_get w sm = Some c ->
     let w' := diff_update w s1 s2 sm DSide2 in
     exists n, slot_s w' s2 = Some (mkDatum (Z.max (d_time c) (d_time a)) n) /\
               slot_s w' s1 = slot_s w s1 /\ slot_s w' sm = slot_s w sm /\
               forall p, In p comps -> p (d_val a) + p n = p (d_val c) /\
                                       forall v, p (d_val a) + v = p (d_val c) -> p n = v) /\
  (forall a b, state_get w s1 = Some a -> state_get w s2 = Some b ->
     let w' := diff_update w s1 s2 sm DSum in
     exists n, slot_s w' sm = Some (mkDatum (Z.max (d_time a) (d_time b)) n) /\
               slot_s w' s1 = slot_s w s1 /\ slot_s w' s2 = slot_s w s2 /\
               forall p, In p comps -> p (d_val a) + p (d_val b) = p n /\
                                       forall v, p (d_val a) + p (d_val b) = v -> p n = v).
Proof.
  intros N12 N1m N2m H1 H2 H3. split; [|split].
  - intros b c Eb Ec w'.
    destruct (diff_update_effect w s1 s2 sm DSide1 N12 N1m N2m H1 H2 H3) as (_ & _ & _ & S).
    rewrite Eb, Ec in S. destruct S as (S1 & S2 & S3). eexists. split; [exact S1|]. split; [exact S2|]. split; [exact S3|].
    intros p Hp. comp_cases p Hp; rr; (split; [ring|intros v Hv; lra]).
  - intros a c Ea Ec w'.
    destruct (diff_update_effect w s1 s2 sm DSide2 N12 N1m N2m H1 H2 H3) as (_ & _ & _ & S).
    rewrite Ea, Ec in S. destruct S as (S1 & S2 & S3). eexists. split; [exact S1|]. split; [exact S2|]. split; [exact S3|].
    intros p Hp. comp_cases p Hp; rr; (split; [ring|intros v Hv; lra]).
  - intros a b Ea Eb w'.
    destruct (diff_update_effect w s1 s2 sm DSum N12 N1m N2m H1 H2 H3) as (_ & _ & _ & S).
    rewrite Ea, Eb in S. destruct S as (S1 & S2 & S3). eexists. split; [exact S1|]. split; [exact S2|]. split; [exact S3|].
    intros p Hp. comp_cases p Hp; rr; (split; [ring|intros v Hv; lra]).
Qed.
End RW.

(* ------------------------------------------------------------------------------------------------ *)
(* the hypotheses are satisfiable, and witnesses for the restrictions (reals) *)
Section ExamplesR.
Local Open Scope R_scope.
Let st (p v a : R) : @state R := snew_raw p v a.
Let tm (s : option (datum (@state R))) (o : option nat) : @term R := {| t_state := s; t_cmd := None; t_other := o |}.
(* terminal 0 belongs to an encoder and is connected to side 1 (terminal 1) of a gear train with ratio 2;
   side 2 (terminal 2) holds a state of its own; terminal 3 is a bystander *)
Definition exg_world : @world R :=
  [ tm (Some (mkDatum 3%Z (st 2 0 0))) (Some 1%nat); tm None (Some 0%nat);
    tm (Some (mkDatum 5%Z (st 8 1 0))) None; tm (Some (mkDatum 1%Z (st 9 9 9))) None ].
Example exg_hyps :
  1%nat <> 2%nat /\ (1 < length exg_world)%nat /\ (2 < length exg_world)%nat /\
  state_get exg_world 1 = Some (mkDatum 3%Z (st 2 0 0)) /\ state_get exg_world 2 = Some (mkDatum 5%Z (st 8 1 0)).
Proof. repeat split; cbn; lia. Qed.
Example exg_result :
  exists n1 n2, slot_s (gear_update exg_world 1 2 2) 1 = Some (mkDatum 5%Z n1) /\
                slot_s (gear_update exg_world 1 2 2) 2 = Some (mkDatum 5%Z n2) /\
                s_pos n1 = 18 / 5 /\ s_pos n2 = 36 / 5 /\ s_vel n1 = 2 / 5 /\ s_vel n2 = 4 / 5 /\
                slot_s (gear_update exg_world 1 2 2) 3 = Some (mkDatum 1%Z (st 9 9 9)).
Proof.
  destruct exg_hyps as (A & B & C & D & E).
  destruct (gear_world_R exg_world 1 2 2 _ _ A B C D E) as (n1 & n2 & S1 & S2 & P).
  exists n1, n2. split; [exact S1|]. split; [exact S2|].
  destruct (P (@s_pos R) (or_introl eq_refl)) as (P1 & P2 & _).
  destruct (P (@s_vel R) (or_intror (or_introl eq_refl))) as (V1 & V2 & _).
  cbn [d_val st snew_raw s_pos s_vel] in P1, P2, V1, V2.
  split; [lra|]. split; [lra|]. split; [lra|]. split; [lra|].
  destruct (gear_update_effect exg_world 1 2 2 A B C) as (_ & _ & Fr & _).
  rewrite (Fr 3%nat) by lia. reflexivity.
Qed.
(* reads already on the constraint (y = 2x): written back unchanged *)
Definition exf_world : @world R :=
  [ tm (Some (mkDatum 3%Z (st 1 (-3) 0))) None; tm (Some (mkDatum 3%Z (st 2 (-6) 0))) None ].
Example exf_fixed :
  slot_s (gear_update exf_world 0 1 2) 0 = slot_s exf_world 0 /\ slot_s (gear_update exf_world 0 1 2) 1 = slot_s exf_world 1.
Proof.
  assert (HC : forall p, In p comps -> p (d_val (mkDatum 3%Z (st 2 (-6) 0))) = 2 * p (d_val (mkDatum 3%Z (st 1 (-3) 0)))).
  { intros p [<-|[<-|[<-|[]]]]; cbn; lra. }
  assert (A : 0%nat <> 1%nat) by lia. assert (B : (0 < length exf_world)%nat) by (cbn; lia).
  assert (C : (1 < length exf_world)%nat) by (cbn; lia).
  destruct (gear_fixed_point_R exf_world 0 1 2 _ _ A B C eq_refl eq_refl HC) as (S1 & S2).
  rewrite S1, S2. split; reflexivity.
Qed.
(* WITNESS (distinctness): on one terminal the gear train leaves the side-2 expression, not the side-1 one *)
Example gear_same_terminal_R :
  exists n, slot_s (gear_update [tm (Some (mkDatum 7%Z (st 1 0 0))) None] 0 0 2) 0 = Some (mkDatum 7%Z n) /\
            s_pos n = 6 / 5 /\ (1 + 2 * 1) / (2 * 2 + 1) = 3 / 5.
Proof. eexists. split; [reflexivity|]. cbn. split; lra. Qed.
(* WITNESS (r <> 0 from side 2 to side 1): with ratio 0 the implied value y/0 cannot satisfy y = 0 * n1 *)
Example gear_zero_ratio_R :
  exists n1, slot_s (gear_update [tm None None; tm (Some (mkDatum 7%Z (st 1 0 0))) None] 0 1 0) 0 = Some (mkDatum 7%Z n1) /\
             1 <> 0 * s_pos n1.
Proof. eexists. split; [reflexivity|]. cbn. lra. Qed.
(* SCOPE of "the states HELD by the device's own terminals satisfy the constraint" in the one-sided case: a
   side that has data is not written, and what it READS is the mean of its own slot and its partner's.
   Here side 2 (terminal 1) holds 2, its partner (terminal 2) holds 4, so it reads 3; side 1 receives
   3/1 = 3 while side 2 still holds 2: the new slot agrees with side 2's READ, not with its slot.
   (With both sides present both slots are overwritten and the constraint holds between the slots.) *)
Definition exo_world : @world R :=
  [ tm None None; tm (Some (mkDatum 1%Z (st 2 0 0))) (Some 2%nat); tm (Some (mkDatum 1%Z (st 4 0 0))) (Some 1%nat) ].
Example gear_one_sided_held_witness :
  state_get exo_world 0 = None /\
  (exists g, state_get exo_world 1 = Some g /\ s_pos (d_val g) = 3) /\
  (exists n, slot_s (gear_update exo_world 0 1 1) 0 = Some n /\ s_pos (d_val n) = 3) /\
  slot_s (gear_update exo_world 0 1 1) 1 = Some (mkDatum 1%Z (st 2 0 0)).
Proof.
  split; [reflexivity|]. split; [eexists; split; [reflexivity|cbn; lra]|].
  split; [eexists; split; [reflexivity|cbn; lra]|reflexivity].
Qed.
(* axle with four terminals, one of them without data and one listed terminal connected to an outside
   terminal: all four receive the mean of the three reads, stamped with the newest time *)
Definition exa_world : @world R :=
  [ tm (Some (mkDatum 2%Z (st 3 0 0))) None; tm None None; tm (Some (mkDatum 9%Z (st 6 0 0))) None;
    tm None (Some 4%nat); tm (Some (mkDatum 4%Z (st 0 3 0))) (Some 3%nat) ].
Example exa_result :
  exists m, (forall i, In i [0; 1; 2; 3]%nat -> slot_s (axle_update exa_world [0; 1; 2; 3]%nat) i = Some (mkDatum 9%Z m)) /\
            s_pos m = 3 /\ s_vel m = 1 /\ slot_s (axle_update exa_world [0; 1; 2; 3]%nat) 4 = slot_s exa_world 4.
Proof.
  assert (Hr : forall i, In i [0; 1; 2; 3]%nat -> (i < length exa_world)%nat)
    by (intros i Hi; cbn in Hi; cbn [length exa_world]; lia).
  assert (Hne : present exa_world [0; 1; 2; 3]%nat <> []) by (cbn; discriminate).
  destruct (axle_world_R exa_world [0; 1; 2; 3]%nat Hr Hne) as (m & S & P).
  exists m. split; [exact S|].
  destruct (P (@s_pos R) (or_introl eq_refl)) as (P1 & _).
  destruct (P (@s_vel R) (or_intror (or_introl eq_refl))) as (V1 & _).
  cbn in P1, V1. split; [lra|]. split; [lra|].
  destruct (axle_update_effect exa_world [0; 1; 2; 3]%nat) as (_ & _ & Fr & _). apply Fr. cbn [In]. lia.
Qed.
(* differential, equal trust, three different terminals with data *)
Definition exd_world : @world R :=
  [ tm (Some (mkDatum 1%Z (st 1 0 0))) None; tm (Some (mkDatum 2%Z (st 2 0 0))) None; tm (Some (mkDatum 3%Z (st 6 0 0))) None ].
Example exd_result :
  exists n1 n2 ns, slot_s (diff_update exd_world 0 1 2 DEqual) 0 = Some (mkDatum 3%Z n1) /\
                   slot_s (diff_update exd_world 0 1 2 DEqual) 1 = Some (mkDatum 3%Z n2) /\
                   slot_s (diff_update exd_world 0 1 2 DEqual) 2 = Some (mkDatum 3%Z ns) /\
                   s_pos n1 = 2 /\ s_pos n2 = 3 /\ s_pos ns = 5.
Proof.
  assert (A : 0%nat <> 1%nat) by lia. assert (B : 0%nat <> 2%nat) by lia. assert (C : 1%nat <> 2%nat) by lia.
  assert (L0 : (0 < length exd_world)%nat) by (cbn; lia). assert (L1 : (1 < length exd_world)%nat) by (cbn; lia).
  assert (L2 : (2 < length exd_world)%nat) by (cbn; lia).
  destruct (diff_equal_world_R exd_world 0 1 2 _ _ _ A B C L0 L1 L2 eq_refl eq_refl eq_refl) as (n1 & n2 & ns & S1 & S2 & S3 & P).
  exists n1, n2, ns. split; [exact S1|]. split; [exact S2|]. split; [exact S3|].
  destruct (P (@s_pos R) (or_introl eq_refl)) as (_ & P1 & P2 & P3 & _). cbn in P1, P2, P3. repeat split; lra.
Qed.
End ExamplesR.

Print Assumptions gear_update_effect.
Print Assumptions invert_update_effect.
Print Assumptions axle_update_effect.
Print Assumptions axle_update_cmd_frame.
Print Assumptions axle_update_no_data.
Print Assumptions axle_update_all_equal.
Print Assumptions axle_time_newest.
Print Assumptions diff_update_slots.
Print Assumptions diff_update_effect.
Print Assumptions gear_out_of_range_witness.
Print Assumptions gear_same_terminal_witness.
Print Assumptions gear_world_R.
Print Assumptions gear_fixed_point_R.
Print Assumptions gear_one_sided_R.
Print Assumptions invert_world_R.
Print Assumptions invert_one_sided_R.
Print Assumptions axle_world_R.
Print Assumptions axle_fixed_point_R.
Print Assumptions diff_equal_world_R.
Print Assumptions diff_equal_fixed_point_R.
Print Assumptions diff_distrust_world_R.
Print Assumptions exg_result.
Print Assumptions exf_fixed.
Print Assumptions gear_same_terminal_R.
Print Assumptions gear_zero_ratio_R.
Print Assumptions gear_one_sided_held_witness.
Print Assumptions exa_result.
Print Assumptions exd_result.
