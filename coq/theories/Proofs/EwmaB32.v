(* EWMA on binary32: the first sample after a start or reset is returned bit-identically, given that
   the power function returns 1 for exponent 0 (the one fact assumed of the powf oracle here). *)
From Coq Require Import ZArith Bool List Reals.
From Flocq Require Import Core.Core IEEE754.Binary IEEE754.BinarySingleNaN.
From RRTK Require Import Num.Num Num.B32 Model.Values Model.Streams Proofs.B32Laws.
Import ListNotations.

Lemma b32_add_zero_same_sign (x : f32) :
  BinarySingleNaN.is_finite x = true -> b32_add x (B754_zero (BinarySingleNaN.Bsign x)) = x.
Proof.
  destruct x as [s| | |s m e H]; try discriminate; intros _.
  - destruct s; reflexivity.
  - reflexivity.
Qed.
Lemma b32_mul_poszero (x : f32) :
  BinarySingleNaN.is_finite x = true -> b32_mul x (B754_zero false) = B754_zero (BinarySingleNaN.Bsign x).
Proof.
  destruct x as [s| | |s m e H]; try discriminate; intros _.
  - destruct s; reflexivity.
  - cbn. destruct s; reflexivity.
Qed.
Definition one32 : f32 := b32_of_Z 1.
Lemma one_minus_one : b32_sub one32 one32 = B754_zero false.
Proof. vm_compute. reflexivity. Qed.
Lemma one_minus_zero : b32_sub one32 (B754_zero false) = one32.
Proof. vm_compute. reflexivity. Qed.

Section First.
Variable tbl : list (Z * Z * Z).
Variable c : cfg.
Notation NP := (B32_with_pow tbl).

Theorem ewma_first_sample_exact (sm : f32) (s : @ewma f32 f32) (d : datum f32) :
  ew_s s = sm ->
  (ew_val s = ONone \/ exists e, ew_val s = OErr e) ->
  BinarySingleNaN.is_finite (d_val d) = true ->
  b32_pow tbl (b32_sub one32 sm) (B754_zero false) = one32 ->
  exists s', @ewma_step f32 NP c f32 (@mix_f f32 NP) s (OSome d) = Ok (s', UOk) /\ ew_val s' = OSome d.
Proof.
  intros Hs Hv Hf Hp.
  assert (E : @ewma_step f32 NP c f32 (@mix_f f32 NP) s (OSome d)
              = Ok ({| ew_s := sm; ew_val := OSome (mkDatum (d_time d) (d_val d)); ew_time := Some (d_time d) |}, UOk)).
  { unfold ewma_step. rewrite Hs.
    assert (Hdt : @dt_f f32 NP c (d_time d) (d_time d) = Ok (B754_zero false)).
    { unfold dt_f, isub, i64_ck. rewrite Z.sub_diag. vm_compute. reflexivity. }
    destruct Hv as [Hv|[e Hv]]; rewrite Hv; rewrite Hdt; cbn [bind];
    unfold mix_f; cbn [bind fadd fmul fsub fone fpow f_of_Z NP B32_with_pow];
    change (b32_of_Z 1) with one32; rewrite Hp, one_minus_one, one_minus_zero;
    unfold one32; rewrite b32_mul_one, (b32_mul_poszero _ Hf), (b32_add_zero_same_sign _ Hf); reflexivity. }
  eexists; split; [exact E|]. cbn. destruct d; reflexivity.
Qed.
End First.
