(* Stateful streams: freshness of errors, canonical resets, deletable absents, freeze. *)
From Coq Require Import ZArith Bool List Lia.
From RRTK Require Import Num.Num Model.Values Model.Streams.
Import ListNotations.
Local Open Scope Z_scope.

Definition is_oerr {T} (o : out T) (e : err) : Prop := o = OErr e.

Section S.
Context {F : Type} {NF : Num F}.
Variable c : cfg.
Notation quantity := (@quantity F).

(* ---------------- an error is reported only if the input returned it at this very update ---------------- *)
Lemma pid_fresh s i s' u e : pid_step c s i = Ok (s', u) -> pid_get s' = OErr e -> i = OErr e.
Proof.
  destruct i as [e'| |d]; cbn [pid_step].
  - intros [= <- <-]. cbn. intros [= ->]. reflexivity.
  - intros [= <- <-]. cbn. discriminate.
  - destruct (pid_prev s) as [pe|]; cbn [bind];
    [destruct (dt_f c (d_time d) (d_time pe)); cbn [bind]; [|discriminate]|];
    intros [= <- <-]; cbn; discriminate.
Qed.

Section EW.
Context {T : Type}.
Variable mix : T -> T -> F -> res T.
Lemma ewma_fresh s i s' u e : ewma_step c mix s i = Ok (s', u) -> ew_val s' = OErr e -> i = OErr e.
Proof.
  destruct i as [e'| |d]; cbn [ewma_step].
  - intros [= <- <-]. cbn. intros [= ->]. reflexivity.
  - destruct (ew_val s) eqn:V; intros [= <- <-]; cbn; try discriminate; rewrite V; discriminate.
  - destruct (ew_val s) as [e0| |p]; cbn.
    + destruct (dt_f c (d_time d) (d_time d)); cbn [bind]; [|discriminate].
      destruct (mix (d_val d) (d_val d) _); cbn [bind]; [|discriminate]. intros [= <- <-]. cbn. discriminate.
    + destruct (dt_f c (d_time d) (d_time d)); cbn [bind]; [|discriminate].
      destruct (mix (d_val d) (d_val d) _); cbn [bind]; [|discriminate]. intros [= <- <-]. cbn. discriminate.
    + destruct (ew_time s) as [pt|]; [|discriminate].
      destruct (dt_f c (d_time d) pt); cbn [bind]; [|discriminate].
      destruct (mix (d_val p) (d_val d) _); cbn [bind]; [|discriminate]. intros [= <- <-]. cbn. discriminate.
Qed.
(* an error event resets: the resulting state does not depend on the history *)
Lemma ewma_reset s1 s2 e : ew_s s1 = ew_s s2 -> ewma_step c mix s1 (OErr e) = ewma_step c mix s2 (OErr e).
Proof. intros H. cbn. rewrite H. reflexivity. Qed.
(* an absent event can be deleted: whatever comes next behaves the same *)
Lemma ewma_absent_deletable s i :
  match ewma_step c mix s ONone with
  | Ok (s1, _) => ewma_step c mix s1 i = ewma_step c mix s i
  | Panic => False
  end.
Proof.
  cbn [ewma_step]. destruct (ew_val s) as [e0| |p] eqn:V; try reflexivity.
  destruct i as [e'| |d]; cbn [ewma_step ew_s ew_val ew_time]; rewrite ?V; reflexivity.
Qed.
(* no update panics on the expect: a present value always has its update time *)
Definition ewma_inv (s : @ewma F T) : Prop := match ew_val s with OSome _ => ew_time s <> None | _ => True end.
Lemma ewma_inv_step s i s' u : ewma_inv s -> ewma_step c mix s i = Ok (s', u) -> ewma_inv s'.
Proof.
  unfold ewma_inv. intros Hi. destruct i as [e'| |d]; cbn [ewma_step].
  - intros [= <- <-]. exact I.
  - destruct (ew_val s) eqn:V; intros [= <- <-]; cbn; try exact I; rewrite V in *; exact Hi.
  - destruct (ew_val s) as [e0| |p].
    + cbn. destruct (dt_f c (d_time d) (d_time d)); cbn [bind]; [|discriminate].
      destruct (mix _ _ _); cbn [bind]; [|discriminate]. intros [= <- <-]. cbn. discriminate.
    + cbn. destruct (dt_f c (d_time d) (d_time d)); cbn [bind]; [|discriminate].
      destruct (mix _ _ _); cbn [bind]; [|discriminate]. intros [= <- <-]. cbn. discriminate.
    + destruct (ew_time s) as [pt|]; [|discriminate].
      destruct (dt_f c (d_time d) pt); cbn [bind]; [|discriminate].
      destruct (mix _ _ _); cbn [bind]; [|discriminate]. intros [= <- <-]. cbn. discriminate.
Qed.
Lemma ewma_expect_never_fires s d :
  ewma_inv s -> (forall a b, dt_f c a b <> Panic) -> (forall a b l, mix a b l <> Panic) ->
  ewma_step c mix s (OSome d) <> Panic.
Proof.
  unfold ewma_inv. intros Hi Hdt Hmix. cbn [ewma_step].
  destruct (ew_val s) as [e0| |p]; cbn.
  - destruct (dt_f c (d_time d) (d_time d)) eqn:D; [|exfalso; eapply Hdt; exact D]. cbn [bind].
    destruct (mix (d_val d) (d_val d) _) eqn:M; [discriminate|exfalso; eapply Hmix; exact M].
  - destruct (dt_f c (d_time d) (d_time d)) eqn:D; [|exfalso; eapply Hdt; exact D]. cbn [bind].
    destruct (mix (d_val d) (d_val d) _) eqn:M; [discriminate|exfalso; eapply Hmix; exact M].
  - destruct (ew_time s) as [pt|]; [|contradiction].
    destruct (dt_f c (d_time d) pt) eqn:D; [|exfalso; eapply Hdt; exact D]. cbn [bind].
    destruct (mix (d_val p) (d_val d) _) eqn:M; [discriminate|exfalso; eapply Hmix; exact M].
Qed.
End EW.

Section MAv.
Context {T : Type}.
Variable acc : list (datum T) -> list Z -> Z -> res T.
Lemma ma_fresh s i s' u e : ma_step acc s i = Ok (s', u) -> ma_val s' = OErr e -> i = OErr e.
Proof.
  destruct i as [e'| |d]; cbn [ma_step].
  - intros [= <- <-]. cbn. intros [= ->]. reflexivity.
  - destruct (ma_val s) eqn:V; intros [= <- <-]; cbn; try discriminate; rewrite V; discriminate.
  - destruct (isub (d_time d) (ma_win s)); cbn [bind]; [|discriminate].
    destruct (ma_trim _ _) as [|x q]; [discriminate|].
    destruct (ma_weights _ _); cbn [bind]; [|discriminate].
    destruct (acc _ _ _); cbn [bind]; [|discriminate]. intros [= <- <-]. cbn. discriminate.
Qed.
Lemma ma_reset s1 s2 e : ma_win s1 = ma_win s2 -> ma_step acc s1 (OErr e) = ma_step acc s2 (OErr e).
Proof. intros H. cbn. rewrite H. reflexivity. Qed.
Lemma ma_absent_deletable s i :
  match ma_step acc s ONone with
  | Ok (s1, _) => ma_step acc s1 i = ma_step acc s i
  | Panic => False
  end.
Proof.
  cbn [ma_step]. destruct (ma_val s) as [e0| |p] eqn:V; try reflexivity.
  destruct i as [e'| |d]; cbn [ma_step ma_win ma_val ma_q]; rewrite ?V; reflexivity.
Qed.
End MAv.

(* ---------------- integral / derivative ---------------- *)
Lemma integ_fresh s i s' u e : integ_step c s i = Ok (s', u) -> dint_get s' = OErr e -> i = OErr e.
Proof.
  destruct i as [e'| |d]; cbn [integ_step].
  - intros [= <- <-]. cbn. intros [= ->]. reflexivity.
  - intros [= <- <-]. cbn. discriminate.
  - destruct (di_prev s) as [p|].
    + destruct (dt_q c _ _); cbn [bind]; [|discriminate].
      destruct (qadd c _ _); cbn [bind]; [|discriminate].
      destruct (match di_val s with OSome real => _ | _ => _ end); cbn [bind]; [|discriminate].
      intros [= <- <-]. cbn. discriminate.
    + intros [= <- <-]. cbn. destruct (di_val s); discriminate.
Qed.
Lemma deriv_fresh s i s' u e : deriv_step c s i = Ok (s', u) -> dint_get s' = OErr e -> i = OErr e.
Proof.
  destruct i as [e'| |d]; cbn [deriv_step].
  - intros [= <- <-]. cbn. intros [= ->]. reflexivity.
  - intros [= <- <-]. cbn. discriminate.
  - destruct (di_prev s) as [p|].
    + destruct (dt_q c _ _); cbn [bind]; [|discriminate].
      destruct (qsub c _ _); cbn [bind]; [|discriminate].
      intros [= <- <-]. cbn. discriminate.
    + intros [= <- <-]. cbn. destruct (di_val s); discriminate.
Qed.
Lemma dint_reset s1 s2 (r : out quantity) :
  (r = ONone \/ exists e, r = OErr e) ->
  integ_step c s1 r = integ_step c s2 r /\ deriv_step c s1 r = deriv_step c s2 r.
Proof. intros [->|[e ->]]; split; reflexivity. Qed.

(* ---------------- to-state converters ---------------- *)
Lemma tostate_reset (s1 s2 : @tstate F) e :
  a2s_step c s1 (OErr e) = a2s_step c s2 (OErr e) /\ v2s_step c s1 (OErr e) = v2s_step c s2 (OErr e) /\
  p2s_step c s1 (OErr e) = p2s_step c s2 (OErr e).
Proof. repeat split. Qed.
Lemma tostate_absent_ignored (s : @tstate F) :
  a2s_step c s ONone = Ok (s, UOk) /\ v2s_step c s ONone = Ok (s, UOk) /\ p2s_step c s ONone = Ok (s, UOk).
Proof. repeat split. Qed.
Lemma tostate_get_never_errors (s : @tstate F) e :
  a2s_get c s <> Ok (OErr e) /\ v2s_get c s <> Ok (OErr e) /\ p2s_get c s <> Ok (OErr e).
Proof.
  unfold a2s_get, v2s_get, p2s_get. repeat split;
  (destruct s as [u0|]; [|discriminate]); (destruct (ts_u1 u0) as [u1|]; [|discriminate]);
  (destruct (ts_c u1) as [x|]; [|discriminate]); (destruct (snew c _ _ _); discriminate).
Qed.
Lemma tostate_update_error s i s' u :
  (a2s_step c s i = Ok (s', u) \/ v2s_step c s i = Ok (s', u) \/ p2s_step c s i = Ok (s', u)) ->
  forall e, u = UErr e -> i = OErr e.
Proof.
  intros H e ->. destruct i as [e'| |d].
  - destruct H as [H|[H|H]]; cbn in H; injection H as _ <-; reflexivity.
  - destruct H as [H|[H|H]]; cbn in H; discriminate.
  - exfalso. destruct H as [H|[H|H]]; revert H; cbn [a2s_step v2s_step p2s_step];
    (destruct (assert_ok c _ _); cbn [bind]; [|discriminate]);
    (destruct s as [u0|]; [|discriminate]);
    (destruct (dt_q c _ _); cbn [bind]; [|discriminate]).
    + destruct (half_sum_dt c _ _ _); cbn [bind]; [|discriminate].
      destruct (ts_u1 u0) as [u1|]; [|discriminate].
      destruct (qadd c _ _); cbn [bind]; [|discriminate].
      destruct (half_sum_dt c _ _ _); cbn [bind]; [|discriminate].
      destruct (match ts_c u1 with Some op => _ | None => _ end); cbn [bind]; discriminate.
    + destruct (qsub c _ _); cbn [bind]; [|discriminate].
      destruct (half_sum_dt c _ _ _); cbn [bind]; [|discriminate].
      destruct (match ts_u1 u0 with Some u1 => _ | None => _ end); cbn [bind]; discriminate.
    + destruct (qsub c _ _); cbn [bind]; [|discriminate].
      destruct (ts_u1 u0) as [u1|]; [|discriminate].
      destruct (qsub c _ _); cbn [bind]; discriminate.
Qed.

(* ---------------- pass-through converters: every event is a reset ---------------- *)
Lemma passthrough s1 s2 (i : out F) (iq : out quantity) :
  f2q_step s1 i = f2q_step s2 i /\ q2f_step s1 iq = q2f_step s2 iq /\
  (forall u e, f2q_get u (fst (f2q_step s1 i)) = OErr e -> i = OErr e) /\
  (forall e, q2f_get (fst (q2f_step s1 iq)) = OErr e -> iq = OErr e).
Proof.
  repeat split.
  - intros u e. cbn. destruct i; cbn; try discriminate. intros [= ->]. reflexivity.
  - intros e. cbn. destruct iq; cbn; try discriminate. intros [= ->]. reflexivity.
Qed.

(* ---------------- freeze ---------------- *)
Lemma freeze_spec {T} (s : out T) (cond : out bool) (input : out T) :
  (forall e, cond = OErr e -> freeze_step s cond input = (OErr e, UErr e)) /\
  (cond = ONone -> freeze_step s cond input = (ONone, UOk)) /\
  (forall t, cond = OSome (mkDatum t false) -> fst (freeze_step s cond input) = input) /\
  (forall t, cond = OSome (mkDatum t true) -> freeze_step s cond input = (s, UOk)).
Proof. repeat split; intros; subst; reflexivity. Qed.
End S.
