(* Soundness of the decision procedure of Model/DatumExpr.v *)
From Coq Require Import ZArith Bool List String Lia.
From RRTK Require Import Num.Num Model.Values Model.DatumExpr.
Import ListNotations.
Local Open Scope Z_scope.

Lemma cmp_pick_sound c ts to p q :
  cmp_pick c (ts ?= to) p q = cmp_z c (pick_val p ts to) (pick_val q ts to).
Proof.
  unfold cmp_pick, cmp_z.
  destruct p, q; cbn [pick_val].
  - rewrite (proj2 (Z.compare_eq_iff ts ts) eq_refl) at 1 || idtac.
    destruct c; symmetry; [apply Z.geb_le | rewrite Z.gtb_ltb; apply Z.ltb_irrefl | apply Z.leb_refl | apply Z.ltb_irrefl | apply Z.eqb_refl]; lia.
  - destruct (Z.compare_spec ts to) as [E|E|E]; destruct c; cbn; symmetry;
      rewrite ?Z.geb_leb, ?Z.gtb_ltb; first [apply Z.leb_le; lia | apply Z.leb_gt; lia | apply Z.ltb_lt; lia | apply Z.ltb_ge; lia | apply Z.eqb_eq; lia | apply Z.eqb_neq; lia].
  - destruct (Z.compare_spec ts to) as [E|E|E]; destruct c; cbn; symmetry;
      rewrite ?Z.geb_leb, ?Z.gtb_ltb; first [apply Z.leb_le; lia | apply Z.leb_gt; lia | apply Z.ltb_lt; lia | apply Z.ltb_ge; lia | apply Z.eqb_eq; lia | apply Z.eqb_neq; lia].
  - destruct c; symmetry; [apply Z.geb_le | rewrite Z.gtb_ltb; apply Z.ltb_irrefl | apply Z.leb_refl | apply Z.ltb_irrefl | apply Z.eqb_refl]; lia.
Qed.

Lemma picks_sound e : forall ts to p, picks e (ts ?= to) = Some p -> eval_time e ts to = Some (pick_val p ts to).
Proof.
  induction e as [| | | | |c a IHa b IHb t IHt f IHf|o a IHa b IHb|o a IHa]; intros ts to p H; cbn [picks eval_time] in *;
    try discriminate.
  - inversion H; reflexivity.
  - inversion H; reflexivity.
  - destruct (picks a (ts ?= to)) as [pa|] eqn:Ea; [|discriminate].
    destruct (picks b (ts ?= to)) as [pb|] eqn:Eb; [|discriminate].
    rewrite (IHa _ _ _ Ea), (IHb _ _ _ Eb), <- cmp_pick_sound.
    destruct (cmp_pick c (ts ?= to) pa pb); [apply IHt | apply IHf]; exact H.
Qed.

Theorem is_newest_time_sound e : is_newest_time e = true -> forall ts to, eval_time e ts to = Some (tmax_ge ts to).
Proof.
  unfold is_newest_time. intros H ts to.
  destruct (picks e Lt) as [[|]|] eqn:E1; try discriminate.
  destruct (picks e Gt) as [[|]|] eqn:E2; try discriminate.
  destruct (picks e Eq) as [pe|] eqn:E3; try discriminate.
  unfold tmax_ge.
  destruct (Z.compare_spec ts to) as [C|C|C].
  - assert (Hc : (ts ?= to) = Eq) by (apply Z.compare_eq_iff; exact C).
    rewrite <- Hc in E3. rewrite (picks_sound _ _ _ _ E3). subst to.
    destruct pe; cbn [pick_val]; destruct (ts >=? ts); reflexivity.
  - assert (Hc : (ts ?= to) = Lt) by (apply Z.compare_lt_iff; exact C).
    rewrite <- Hc in E1. rewrite (picks_sound _ _ _ _ E1). cbn [pick_val].
    destruct (ts >=? to) eqn:G; [rewrite Z.geb_leb in G; apply Z.leb_le in G; lia | reflexivity].
  - assert (Hc : (ts ?= to) = Gt) by (apply Z.compare_gt_iff; exact C).
    rewrite <- Hc in E2. rewrite (picks_sound _ _ _ _ E2). cbn [pick_val].
    destruct (ts >=? to) eqn:G; [reflexivity | rewrite Z.geb_leb in G; apply Z.leb_gt in G; lia].
Qed.

Theorem is_self_time_sound e : is_self_time e = true -> forall ts to, eval_time e ts to = Some ts.
Proof.
  unfold is_self_time. intros H ts to.
  destruct (picks e Lt) as [[|]|] eqn:E1; try discriminate.
  destruct (picks e Gt) as [[|]|] eqn:E2; try discriminate.
  destruct (picks e Eq) as [[|]|] eqn:E3; try discriminate.
  destruct (ts ?= to) eqn:C; [rewrite <- C in E3; exact (picks_sound _ _ _ _ E3)
                             | rewrite <- C in E1; exact (picks_sound _ _ _ _ E1)
                             | rewrite <- C in E2; exact (picks_sound _ _ _ _ E2)].
Qed.

(* completeness direction used to turn a failed decision into a concrete counterexample: evaluating on the
   three representative pairs (0,1) (1,0) (0,0) *)
Definition time_witnesses : list (Z * Z) := [(0, 1); (1, 0); (0, 0)].
