(* C20, run level: the three device wrappers over ANY sequence of rounds (induction over the list of rounds).

   PID wrapper   : the values handed to the inner motor = the outputs of a stand-alone CommandPID fed the
                   (time, state, followed command) triples seen at the terminal   [pidw_run_refines ...]
   actuator      : the inner settable's log = the combined terminal reads of the rounds that saw data
   encoder       : terminal state slot after each round = last present getter state

   Everything is stated for the generic carrier; the Examples at the end are computed on binary32. *)
From Coq Require Import ZArith Bool List Lia Arith.
From RRTK Require Import Num.Num Model.Values Model.Combinators Model.Streams Model.Settable Model.World Model.Devices.
From RRTK Require Import Proofs.WorldProofs Proofs.DeviceProofs Proofs.CpidProofs Properties.C20.
Import ListNotations.

(* ------------------------------------------------------------------------------------------------ *)
(* generic facts about the scripted, recording settable                                              *)
Section Motor.
Context {S : Type}.
Notation sett := (@sett S).

(* one round of a followed settable: the environment scripts accept (None) / reject (Some e) for this
   round, then update_following_data is run with the followed getter returning [o] *)
Definition motor_round (m : sett) (fo : option err * out S) : sett * upd :=
  sett_update (sett_set_fail m (fst fo)) (snd fo).
Fixpoint motor_run (m : sett) (fos : list (option err * out S)) : sett * list upd :=
  match fos with
  | [] => (m, [])
  | fo :: r => let x := motor_round m fo in
               let y := motor_run (fst x) r in (fst y, snd x :: snd y)
  end.
(* what the settable records in such a round, and what the round returns *)
Definition deliver (fo : option err * out S) : list S :=
  match fo with (None, OSome d) => [d_val d] | _ => [] end.
Definition round_result (fo : option err * out S) : upd :=
  match fo with
  | (_, OErr e) => UErr e              (* the followed getter's error *)
  | (_, ONone) => UOk
  | (Some e, OSome _) => UErr e        (* the value is rejected by impl_set *)
  | (None, OSome _) => UOk
  end.
Definition last_delivered (fos : list (option err * out S)) (cur : option S) : option S :=
  fold_left (fun a fo => match deliver fo with [] => a | v :: _ => Some v end) fos cur.

Lemma motor_round_spec (m : sett) fo :
  st_following m = true ->
  st_received (fst (motor_round m fo)) = st_received m ++ deliver fo /\
  snd (motor_round m fo) = round_result fo /\
  st_following (fst (motor_round m fo)) = true /\
  st_last (fst (motor_round m fo)) = match deliver fo with [] => st_last m | v :: _ => Some v end.
Proof.
  intros Hf. destruct fo as [f o]. unfold motor_round, sett_update, sett_set_fail. cbn [fst snd st_following].
  rewrite Hf. destruct o as [e| |d]; cbn [fst snd st_received st_following st_last deliver round_result].
  - destruct f; rewrite app_nil_r; auto.
  - destruct f; rewrite app_nil_r; auto.
  - unfold sett_set. cbn [st_fail st_received st_following st_last].
    destruct f as [e|]; cbn [fst snd st_received st_following st_last]; [rewrite app_nil_r|]; auto.
Qed.

Theorem motor_run_spec (fos : list (option err * out S)) : forall (m : sett),
  st_following m = true ->
  st_received (fst (motor_run m fos)) = st_received m ++ flat_map deliver fos /\
  snd (motor_run m fos) = map round_result fos /\
  st_following (fst (motor_run m fos)) = true /\
  st_last (fst (motor_run m fos)) = last_delivered fos (st_last m).
Proof.
  induction fos as [|fo r IH]; intros m Hf.
  - cbn. rewrite app_nil_r. auto.
  - cbn [motor_run fst snd flat_map map]. destruct (motor_round_spec m fo Hf) as (A & B & C0 & D).
    destruct (IH _ C0) as (A' & B' & C' & D').
    rewrite A', A, B', B, <- app_assoc. repeat split; try assumption.
    rewrite D', D. unfold last_delivered. cbn [fold_left]. reflexivity.
Qed.
End Motor.

Section Run.
Context {F : Type} {NF : Num F}.
Variable c : cfg.
Notation state := (@state F).
Notation command := (@command F).
Notation world := (@world F).
Notation cpid := (@cpid F).
Notation pidw := (@pidw F).

(* ================================================================================================ *)
(* 1. PID wrapper                                                                                    *)
(* ================================================================================================ *)

(* ---- the abstraction: what the terminal "sees" in a round ----
   [None]            : the combined read data_get is empty (no state and no command at the terminal or its partner)
   [Some (tm,s,cm)]  : tm = time stamp of the combined read (the STATE's stamp whenever a state is visible, else
                       the command's); s = the visible state, or the last one seen before (initially the
                       constructor's initial state) when none is visible; cm likewise for the command. *)
Definition obs := option (Z * state * command)%type.
Definition see (w : world) (t : nat) (s : state) (cm : command) : obs :=
  match data_get w t with
  | None => None
  | Some td => Some (td_time (d_val td),
                     match td_state (d_val td) with Some x => x | None => s end,
                     match td_cmd (d_val td) with Some x => x | None => cm end)
  end.
Definition held_s (o : obs) (s : state) : state := match o with Some (_, s', _) => s' | None => s end.
Definition held_c (o : obs) (cm : command) : command := match o with Some (_, _, c') => c' | None => cm end.
Definition held_t (o : obs) (k : Z) : Z := match o with Some (tm, _, _) => tm | None => k end.
Fixpoint observe (ws : list world) (t : nat) (s : state) (cm : command) : list obs :=
  match ws with
  | [] => []
  | w :: r => let o := see w t s cm in o :: observe r t (held_s o s) (held_c o cm)
  end.

Lemma observe_length ws t : forall s cm, length (observe ws t s cm) = length ws.
Proof. induction ws as [|w r IH]; intros s cm; [reflexivity|]. cbn [observe length]. rewrite IH. reflexivity. Qed.

(* ---- the stand-alone CommandPID, fed such a sequence ----
   a triple = one update() of a CommandPID that follows a command getter returning cm@tm and whose input getter
   returns s@tm; [None] = no update() call at all.  *)
Definition cpid_feed (pid : cpid) (o : obs) : res (cpid * upd) :=
  match o with
  | None => Ok (pid, UOk)
  | Some (tm, s, cm) => cpid_step c pid (Some (OSome (mkDatum tm cm))) (OSome (mkDatum tm s))
  end.
(* outputs (what get() returns) after each round *)
Fixpoint cpid_trace (pid : cpid) (os : list obs) : res (cpid * list (out F)) :=
  match os with
  | [] => Ok (pid, [])
  | o :: r => let! x := cpid_feed pid o in
              let! y := cpid_trace (fst x) r in
              Ok (fst y, cpid_get (fst x) :: snd y)
  end.

(* a fed triple is: set(cm) (restart iff cm differs from the current command), then a plain update on s@tm *)
Lemma cpid_feed_is_set_then_step pid tm s cm :
  cpid_feed pid (Some (tm, s, cm)) = cpid_step c (cpid_set pid cm) None (OSome (mkDatum tm s)).
Proof. reflexivity. Qed.
(* it never returns an error, and leaves a present sample in the controller *)
Lemma cpid_feed_some pid tm s cm pid' u :
  cpid_feed pid (Some (tm, s, cm)) = Ok (pid', u) ->
  u = UOk /\ exists u0, cp_st pid' = CSome u0 /\ cu_time u0 = tm.
Proof.
  rewrite cpid_feed_is_set_then_step. unfold cpid_step.
  destruct (cp_st (cpid_set pid cm)) as [e| |u0].
  - intros [= <- <-]. split; [reflexivity|]. eexists; split; reflexivity.
  - intros [= <- <-]. split; [reflexivity|]. eexists; split; reflexivity.
  - destruct (dt_f c _ _) as [dt|]; cbn [bind]; [|discriminate].
    destruct (cu_u1 u0) as [u1|]; intros [= <- <-]; (split; [reflexivity|]); eexists; split; reflexivity.
Qed.
Lemma cpid_feed_upd pid o pid' u : cpid_feed pid o = Ok (pid', u) -> u = UOk.
Proof.
  destruct o as [[[tm s] cm]|].
  - intros H. apply (cpid_feed_some _ _ _ _ _ _ H).
  - intros [= _ <-]. reflexivity.
Qed.
Lemma cpid_feed_none pid : cpid_feed pid None = Ok (pid, UOk).
Proof. reflexivity. Qed.
Lemma cpid_get_err (pid : cpid) e : cpid_get pid = OErr e <-> cp_st pid = CErr e.
Proof.
  unfold cpid_get. destruct (cp_st pid) as [e'| |u0].
  - split; intros [= ->]; reflexivity.
  - split; discriminate.
  - split; [|discriminate]. destruct (c_kind (cp_cmd pid)); try discriminate;
    destruct (cu_u1 u0) as [u1|]; try discriminate; destruct (cu_out_int_int u1); discriminate.
Qed.
Lemma cpid_feed_no_cached_error pid o pid' u :
  cpid_feed pid o = Ok (pid', u) -> (forall e, cp_st pid <> CErr e) -> forall e, cp_st pid' <> CErr e.
Proof.
  destruct o as [[[tm s] cm]|].
  - intros H _ e. destruct (cpid_feed_some _ _ _ _ _ _ H) as (_ & u0 & -> & _). discriminate.
  - intros [= <- _] H. exact H.
Qed.
Lemma cpid_trace_length os : forall pid pid' outs, cpid_trace pid os = Ok (pid', outs) -> length outs = length os.
Proof.
  induction os as [|o r IH]; intros pid pid' outs.
  - intros [= _ <-]. reflexivity.
  - cbn [cpid_trace]. destruct (cpid_feed pid o) as [x|]; cbn [bind]; [|discriminate].
    destruct (cpid_trace (fst x) r) as [y|] eqn:E; cbn [bind]; [|discriminate].
    intros [= _ <-]. cbn [length]. f_equal. destruct y as [a b]. exact (IH _ _ _ E).
Qed.
(* started without a cached error (in particular from cpid_init) the controller never shows one *)
Lemma cpid_trace_no_error os : forall pid pid' outs,
  (forall e, cp_st pid <> CErr e) -> cpid_trace pid os = Ok (pid', outs) -> forall e, ~ In (OErr e) outs.
Proof.
  induction os as [|o r IH]; intros pid pid' outs Hne.
  - intros [= _ <-] e [].
  - cbn [cpid_trace]. destruct (cpid_feed pid o) as [[p1 u1]|] eqn:E1; cbn [bind fst]; [|discriminate].
    destruct (cpid_trace p1 r) as [[p2 o2]|] eqn:E2; cbn [bind fst snd]; [|discriminate].
    intros [= _ <-] e [H|H].
    + apply cpid_get_err in H. exact (cpid_feed_no_cached_error _ _ _ _ E1 Hne e H).
    + exact (IH _ _ _ (cpid_feed_no_cached_error _ _ _ _ E1 Hne) E2 e H).
Qed.

(* ---- the wrapper's run ----
   a round = (the world as it is when update() is called, the motor's script for this round).
   The world is arbitrary in every round (this covers a connected terminal receiving new state and/or
   command data, or nothing; the event form is given further down).  A returned error does not stop the
   run (the caller may go on calling update()); a panic does. *)
Definition round := (world * option err)%type.
Definition pidw_script (p : pidw) (f : option err) : pidw :=
  {| pw_clock := pw_clock p; pw_state := pw_state p; pw_cmd := pw_cmd p; pw_pid := pw_pid p;
     pw_inner := sett_set_fail (pw_inner p) f |}.
Fixpoint pidw_run (rs : list round) (t : nat) (p : pidw) : res (pidw * list upd) :=
  match rs with
  | [] => Ok (p, [])
  | wf :: r => let! x := pidw_update c (fst wf) t (pidw_script p (snd wf)) in
               let! y := pidw_run r t (fst x) in
               Ok (fst y, snd x :: snd y)
  end.

(* one round, from the per-update equations of Properties/C20.v *)
Lemma pidw_round (w : world) t (p : pidw) :
  let o := see w t (cg_val (pw_state p)) (cg_val (pw_cmd p)) in
  match pidw_update c w t p with
  | Panic => cpid_feed (pw_pid p) o = Panic
  | Ok (p', u) =>
      cpid_feed (pw_pid p) o = Ok (pw_pid p', UOk) /\
      sett_update (pw_inner p) (cpid_get (pw_pid p')) = (pw_inner p', u) /\
      cg_val (pw_state p') = held_s o (cg_val (pw_state p)) /\
      cg_val (pw_cmd p') = held_c o (cg_val (pw_cmd p)) /\
      pw_clock p' = held_t o (pw_clock p)
  end.
Proof.
  intros o. unfold o, see. destruct (data_get w t) as [td|] eqn:E.
  - rewrite (C20_pid_wrapper_refines_command_pid c w t p td E). cbv zeta.
    set (st := match td_state (d_val td) with Some s => cg_set (pw_state p) s | None => pw_state p end).
    set (cm := match td_cmd (d_val td) with Some x => cg_set (pw_cmd p) x | None => pw_cmd p end).
    assert (Hs : cg_val st = match td_state (d_val td) with Some x => x | None => cg_val (pw_state p) end)
      by (unfold st; destruct (td_state (d_val td)); reflexivity).
    assert (Hc : cg_val cm = match td_cmd (d_val td) with Some x => x | None => cg_val (pw_cmd p) end)
      by (unfold cm; destruct (td_cmd (d_val td)); reflexivity).
    unfold cpid_feed. rewrite <- Hs, <- Hc.
    change (cg_get cm (TOk (td_time (d_val td)))) with (OSome (mkDatum (td_time (d_val td)) (cg_val cm))).
    change (cg_get st (TOk (td_time (d_val td)))) with (OSome (mkDatum (td_time (d_val td)) (cg_val st))).
    destruct (cpid_step c (pw_pid p) _ _) as [[pid' u]|] eqn:E1; [|reflexivity].
    assert (Hu : u = UOk).
    { apply (cpid_feed_upd (pw_pid p) (Some (td_time (d_val td), cg_val st, cg_val cm)) pid'). exact E1. }
    subst u. destruct (sett_update (pw_inner p) (cpid_get pid')) as [inner' u'] eqn:E2.
    cbn [pw_pid pw_inner pw_state pw_cmd pw_clock held_s held_c held_t]. repeat split; reflexivity || assumption.
  - rewrite (C20_pid_wrapper_no_data c w t p E).
    destruct (sett_update (pw_inner p) (cpid_get (pw_pid p))) as [inner' u'] eqn:E2.
    cbn [pw_pid pw_inner pw_state pw_cmd pw_clock held_s held_c held_t cpid_feed]. repeat split; reflexivity || assumption.
Qed.

Definition final_s (os : list obs) (s : state) : state := fold_left (fun a o => held_s o a) os s.
Definition final_c (os : list obs) (cm : command) : command := fold_left (fun a o => held_c o a) os cm.
Definition final_t (os : list obs) (k : Z) : Z := fold_left (fun a o => held_t o a) os k.

(* ---- THE SIMULATION, for every list of rounds and every wrapper state ----
   invariant: embedded controller state = stand-alone controller state, and the two constant getters hold
   exactly the held state/command of the abstraction. *)
Theorem pidw_run_refines (rs : list round) (t : nat) : forall (p : pidw),
  let os := observe (map fst rs) t (cg_val (pw_state p)) (cg_val (pw_cmd p)) in
  match pidw_run rs t p with
  | Panic => cpid_trace (pw_pid p) os = Panic
  | Ok (p', us) =>
      exists outs,
        cpid_trace (pw_pid p) os = Ok (pw_pid p', outs) /\
        motor_run (pw_inner p) (combine (map snd rs) outs) = (pw_inner p', us) /\
        cg_val (pw_state p') = final_s os (cg_val (pw_state p)) /\
        cg_val (pw_cmd p') = final_c os (cg_val (pw_cmd p)) /\
        pw_clock p' = final_t os (pw_clock p)
  end.
Proof.
  induction rs as [|[w f] r IH]; intros p.
  - cbn. exists []. repeat split; reflexivity.
  - cbn [pidw_run map fst snd observe cpid_trace].
    pose proof (pidw_round w t (pidw_script p f)) as R. cbv zeta in R.
    cbn [pidw_script pw_state pw_cmd pw_pid pw_inner pw_clock] in R.
    set (o := see w t (cg_val (pw_state p)) (cg_val (pw_cmd p))) in *.
    destruct (pidw_update c w t (pidw_script p f)) as [[p1 u1]|]; cbn [bind fst snd]; [|rewrite R; reflexivity].
    destruct R as (R1 & R2 & R3 & R4 & R5). rewrite R1. cbn [bind fst snd].
    specialize (IH p1). cbv zeta in IH. rewrite R3, R4 in IH.
    destruct (pidw_run r t p1) as [[p2 us]|]; cbn [bind fst snd]; [|rewrite IH; reflexivity].
    destruct IH as (outs & I1 & I2 & I3 & I4 & I5). exists (cpid_get (pw_pid p1) :: outs).
    rewrite I1. cbn [bind fst snd combine motor_run]. unfold motor_round. cbn [fst snd]. rewrite R2. cbn [fst snd].
    rewrite I2. cbn [fst snd]. unfold final_s, final_c, final_t in *. cbn [fold_left].
    rewrite I3, I4, I5, R5. repeat split; reflexivity.
Qed.

(* ---- consequences for the motor: what it receives, what each round returns ---- *)
Definition present_vals (outs : list (out F)) : list F :=
  flat_map (fun o => match o with OSome d => [d_val d] | _ => [] end) outs.

Theorem pid_wrapper_motor_log (rs : list round) t (p p' : pidw) us :
  st_following (pw_inner p) = true ->
  pidw_run rs t p = Ok (p', us) ->
  exists outs,
    cpid_trace (pw_pid p) (observe (map fst rs) t (cg_val (pw_state p)) (cg_val (pw_cmd p))) = Ok (pw_pid p', outs) /\
    length outs = length rs /\
    st_received (pw_inner p') = st_received (pw_inner p) ++ flat_map deliver (combine (map snd rs) outs) /\
    us = map round_result (combine (map snd rs) outs) /\
    st_last (pw_inner p') = last_delivered (combine (map snd rs) outs) (st_last (pw_inner p)).
Proof.
  intros Hf H. pose proof (pidw_run_refines rs t p) as R. cbv zeta in R. rewrite H in R.
  destruct R as (outs & R1 & R2 & _). exists outs. split; [exact R1|].
  split; [rewrite (cpid_trace_length _ _ _ _ R1), observe_length, map_length; reflexivity|].
  destruct (motor_run_spec (combine (map snd rs) outs) (pw_inner p) Hf) as (A & B & _ & D).
  rewrite R2 in A, B, D. cbn [fst snd] in A, B, D. repeat split; assumption.
Qed.

(* the PIDWrapper::new state: clock t0, getters holding s0 / c0, CommandPID::new(c0, k) following the command
   getter, motor following the controller *)
Lemma combine_all_none {A} (fs : list (option err)) (outs : list (out A)) :
  Forall (fun f => f = None) fs -> length outs = length fs ->
  flat_map deliver (combine fs outs) = flat_map (fun o => match o with OSome d => [d_val d] | _ => [] end) outs /\
  map round_result (combine fs outs) = map (fun o => match o with OErr e => UErr e | _ => UOk end) outs.
Proof.
  intros H. revert outs. induction H as [|f fs -> Hfs IH]; intros outs Hl.
  - destruct outs; [split; reflexivity|discriminate].
  - destruct outs as [|o outs]; [discriminate|]. injection Hl as Hl. destruct (IH _ Hl) as [A1 A2].
    cbn [combine flat_map map]. rewrite A1, A2. destruct o; split; reflexivity.
Qed.

Theorem pid_wrapper_run_from_init (rs : list round) t t0 s0 c0 k (p' : pidw) us :
  pidw_run rs t (pidw_init t0 s0 c0 k) = Ok (p', us) ->
  exists outs,
    cpid_trace (cpid_init c0 k) (observe (map fst rs) t s0 c0) = Ok (pw_pid p', outs) /\
    length outs = length rs /\
    (forall e, ~ In (OErr e) outs) /\
    st_received (pw_inner p') = flat_map deliver (combine (map snd rs) outs) /\
    us = map round_result (combine (map snd rs) outs) /\
    (* with a motor that accepts in every round: it receives exactly the present controller outputs, every round is Ok *)
    (Forall (fun f => f = None) (map snd rs) ->
       st_received (pw_inner p') = present_vals outs /\ us = map (fun _ => UOk) rs).
Proof.
  intros H. destruct (pid_wrapper_motor_log rs t (pidw_init t0 s0 c0 k) p' us eq_refl H) as (outs & A & B & C0 & D & _).
  cbn [pidw_init pw_pid pw_state pw_cmd cg_val pw_inner sett_follow sett_init st_received app] in A, C0.
  exists outs. split; [exact A|]. split; [exact B|].
  assert (NE : forall e, ~ In (OErr e) outs).
  { apply (cpid_trace_no_error _ _ _ _) with (2 := A). intros e. cbn. discriminate. }
  split; [exact NE|]. split; [exact C0|]. split; [exact D|].
  intros Hall. assert (Hl : length outs = length (map snd rs)) by (rewrite map_length; exact B).
  destruct (combine_all_none _ outs Hall Hl) as [E1 E2]. rewrite C0, D, E1, E2. split; [reflexivity|].
  clear - NE B. revert outs NE B. induction rs as [|r0 rs IH]; intros [|o outs] NE B; try discriminate; [reflexivity|].
  cbn [map]. f_equal.
  - destruct o as [e| |d]; try reflexivity. exfalso. apply (NE e). left. reflexivity.
  - apply IH; [|injection B as B; exact B]. intros e Hin. apply (NE e). right. exact Hin.
Qed.

(* the reverse direction: the wrapper panics exactly when the stand-alone controller does (i64 overflow of a time
   difference) *)
Corollary pid_wrapper_panics_iff (rs : list round) t (p : pidw) :
  pidw_run rs t p = Panic <->
  cpid_trace (pw_pid p) (observe (map fst rs) t (cg_val (pw_state p)) (cg_val (pw_cmd p))) = Panic.
Proof.
  pose proof (pidw_run_refines rs t p) as R. cbv zeta in R.
  destruct (pidw_run rs t p) as [[p' us]|].
  - destruct R as (outs & R1 & _). rewrite R1. split; discriminate.
  - split; intros _; [exact R|reflexivity].
Qed.

(* ---- rounds generated by data arriving at the connected terminal ----
   The wrapper's terminal t is linked to terminal j of some other device; the wrapper never writes its own
   terminal (slots stay empty, as after Terminal::new).  Before each round the partner terminal j receives a
   new state, a new command, both, or nothing. *)
Inductive tev := EvNone | EvState (d : datum state) | EvCmd (d : datum command)
               | EvBoth (ds : datum state) (dc : datum command).
Definition apply_ev (w : world) (j : nat) (e : tev) : world :=
  match e with
  | EvNone => w
  | EvState d => set_state w j d
  | EvCmd d => set_cmd w j d
  | EvBoth ds dc => set_cmd (set_state w j ds) j dc
  end.
Fixpoint worlds_of (w : world) (j : nat) (evs : list tev) : list world :=
  match evs with [] => [] | e :: r => let w' := apply_ev w j e in w' :: worlds_of w' j r end.
Definition ev_s (e : tev) (cur : option (datum state)) : option (datum state) :=
  match e with EvState d | EvBoth d _ => Some d | _ => cur end.
Definition ev_c (e : tev) (cur : option (datum command)) : option (datum command) :=
  match e with EvCmd d | EvBoth _ d => Some d | _ => cur end.

Definition attached (w : world) (t j : nat) : Prop :=
  t <> j /\ t < length w /\ j < length w /\ oth w t = Some j /\ slot_s w t = None /\ slot_c w t = None.

(* the combined read, from the partner's two slots: time stamp = the state's if there is a state *)
Definition combined (os : option (datum state)) (oc : option (datum command)) : option (datum (@tdata F)) :=
  match os, oc with
  | Some ds, _ => Some (mkDatum (d_time ds) {| td_time := d_time ds; td_cmd := option_map (@d_val _) oc; td_state := Some (d_val ds) |})
  | None, Some dc => Some (mkDatum (d_time dc) {| td_time := d_time dc; td_cmd := Some (d_val dc); td_state := None |})
  | None, None => None
  end.
Lemma data_get_attached (w : world) t j : attached w t j -> data_get w t = combined (slot_s w j) (slot_c w j).
Proof.
  intros (_ & _ & _ & Ho & Hs & Hc). unfold oth in Ho. unfold slot_s in Hs. unfold slot_c in Hc.
  unfold data_get, state_get, cmd_get, partner_state, partner_cmd, combined, slot_s, slot_c. rewrite Ho, Hs, Hc.
  destruct (t_state (wget w j)) as [ds|], (t_cmd (wget w j)) as [dc|]; reflexivity.
Qed.
Definition see_slots (os : option (datum state)) (oc : option (datum command)) (s : state) (cm : command) : obs :=
  match os, oc with
  | Some ds, _ => Some (d_time ds, d_val ds, match oc with Some dc => d_val dc | None => cm end)
  | None, Some dc => Some (d_time dc, s, d_val dc)
  | None, None => None
  end.
Lemma see_attached (w : world) t j s cm : attached w t j -> see w t s cm = see_slots (slot_s w j) (slot_c w j) s cm.
Proof.
  intros H. unfold see. rewrite (data_get_attached w t j H). unfold combined, see_slots.
  destruct (slot_s w j) as [ds|], (slot_c w j) as [dc|]; reflexivity.
Qed.
Lemma attached_set_state (w : world) t j d :
  attached w t j -> attached (set_state w j d) t j /\ slot_s (set_state w j d) j = Some d /\ slot_c (set_state w j d) j = slot_c w j.
Proof.
  intros (Hne & Ht & Hj & Ho & Hs & Hc).
  destruct (get_set_state w j d t Hj) as (A1 & A2 & A3). destruct (get_set_state w j d j Hj) as (B1 & B2 & _).
  rewrite Nat.eqb_refl in B1. destruct (Nat.eqb_spec t j) as [E|_]; [contradiction|].
  unfold attached. rewrite len_set_state, A1, A2, A3. repeat split; assumption.
Qed.
Lemma attached_set_cmd (w : world) t j d :
  attached w t j -> attached (set_cmd w j d) t j /\ slot_s (set_cmd w j d) j = slot_s w j /\ slot_c (set_cmd w j d) j = Some d.
Proof.
  intros (Hne & Ht & Hj & Ho & Hs & Hc).
  destruct (get_set_cmd w j d t Hj) as (A1 & A2 & A3). destruct (get_set_cmd w j d j Hj) as (B1 & B2 & _).
  rewrite Nat.eqb_refl in B1. destruct (Nat.eqb_spec t j) as [E|_]; [contradiction|].
  unfold attached. rewrite len_set_cmd, A1, A2, A3. repeat split; assumption.
Qed.
Lemma attached_apply_ev (w : world) t j e :
  attached w t j ->
  attached (apply_ev w j e) t j /\
  slot_s (apply_ev w j e) j = ev_s e (slot_s w j) /\ slot_c (apply_ev w j e) j = ev_c e (slot_c w j).
Proof.
  intros H. destruct e as [|d|d|ds dc]; cbn [apply_ev ev_s ev_c].
  - repeat split; try reflexivity; apply H.
  - apply attached_set_state. exact H.
  - apply attached_set_cmd. exact H.
  - destruct (attached_set_state w t j ds H) as (A & A1 & A2).
    destruct (attached_set_cmd _ t j dc A) as (B & B1 & B2). rewrite B1, B2, A1. repeat split; try reflexivity; apply B.
Qed.

(* the observation sequence in closed form: no worlds, only the partner's two slots and the held values *)
Fixpoint observe_ev (os : option (datum state)) (oc : option (datum command)) (s : state) (cm : command)
                    (evs : list tev) : list obs :=
  match evs with
  | [] => []
  | e :: r => let os' := ev_s e os in let oc' := ev_c e oc in
              let o := see_slots os' oc' s cm in
              o :: observe_ev os' oc' (held_s o s) (held_c o cm) r
  end.
Theorem observe_events t j (evs : list tev) : forall (w : world) s cm,
  attached w t j ->
  observe (worlds_of w j evs) t s cm = observe_ev (slot_s w j) (slot_c w j) s cm evs.
Proof.
  induction evs as [|e r IH]; intros w s cm H; [reflexivity|].
  destruct (attached_apply_ev w t j e H) as (A & A1 & A2).
  cbn [worlds_of observe observe_ev]. rewrite (see_attached _ t j s cm A), A1, A2. f_equal.
  rewrite (IH _ _ _ A), A1, A2. reflexivity.
Qed.

(* What the model does in the special rounds (not idealised):
   (a) nothing visible at all (no state, no command, ever): no controller update; the motor is offered the
       controller's unchanged output again -- same value, same time stamp [cpid_feed_none + pidw_run_refines];
   (b) a state is visible and the round brings no new state (nothing new, or only a new command): the triple
       carries the OLD state and the OLD state's time stamp again, so the controller makes a step with time
       difference 0 (derivative = (e - e') / 0);
   (c) no state visible but a command: the constructor's initial state (or the last state seen) is fed, stamped
       with the command's time;
   (d) no command visible: the constructor's initial command (or the last one seen) is followed. *)
Lemma observe_ev_stale ds oc s cm e :
  (e = EvNone \/ exists d, e = EvCmd d) ->
  exists cm', see_slots (ev_s e (Some ds)) (ev_c e oc) s cm = Some (d_time ds, d_val ds, cm').
Proof. intros [->|[d ->]]; cbn; eexists; reflexivity. Qed.
Lemma observe_ev_no_state_ever dc s cm : see_slots None (Some dc) s cm = Some (d_time dc, s, d_val dc).
Proof. reflexivity. Qed.
Lemma observe_ev_no_command ds s cm : see_slots (Some ds) None s cm = Some (d_time ds, d_val ds, cm).
Proof. reflexivity. Qed.
Lemma observe_ev_nothing s cm : see_slots None None s cm = None.
Proof. reflexivity. Qed.
Lemma dt_f_same_stamp tm : dt_f c tm tm = Ok (qv (q_of_time c 0)).
Proof. unfold dt_f, isub, i64_ck. rewrite Z.sub_diag. reflexivity. Qed.
(* (b) spelled out for the controller: same command, sample present, same stamp: the step divides by dt(0) *)
Lemma cpid_feed_same_stamp (pid : cpid) u0 s :
  cp_st pid = CSome u0 -> cu_u1 u0 = None -> c_eqb (cp_cmd pid) (cp_cmd pid) = true ->
  let kind := c_kind (cp_cmd pid) in
  let dt0 := qv (q_of_time c 0) in
  let e := fsub (c_val (cp_cmd pid)) (qv (s_get_value c s kind)) in
  let drv := fdiv (fsub e (cu_error u0)) dt0 in
  let addend := fmul (fdiv (fadd (cu_error u0) e) ftwo) dt0 in
  let o := pdk_eval (cp_k pid) kind e addend drv in
  exists pid', cpid_feed pid (Some (cu_time u0, s, cp_cmd pid)) = Ok (pid', UOk) /\
    cp_st pid' = CSome {| cu_time := cu_time u0; cu_output := o; cu_error := e;
                          cu_u1 := Some {| cu_out_int := fmul (fdiv (fadd (cu_output u0) o) ftwo) dt0;
                                           cu_err_int := addend; cu_out_int_int := None |} |}.
Proof.
  intros Hst Hu1 Heq. cbv zeta. rewrite cpid_feed_is_set_then_step. unfold cpid_set. rewrite Heq. cbn [negb].
  unfold cpid_step. cbn [cp_cmd cp_st cp_k d_time d_val]. rewrite Hst, dt_f_same_stamp. cbn [bind]. rewrite Hu1.
  eexists. split; reflexivity.
Qed.

Fixpoint ev_rounds (w : world) (j : nat) (efs : list (tev * option err)) : list round :=
  match efs with [] => [] | ef :: r => let w' := apply_ev w j (fst ef) in (w', snd ef) :: ev_rounds w' j r end.
Lemma ev_rounds_fst j efs : forall w, map fst (ev_rounds w j efs) = worlds_of w j (map fst efs).
Proof. induction efs as [|ef r IH]; intros w; [reflexivity|]. cbn. rewrite IH. reflexivity. Qed.
Lemma ev_rounds_snd j efs : forall w, map snd (ev_rounds w j efs) = map snd efs.
Proof. induction efs as [|ef r IH]; intros w; [reflexivity|]. cbn. rewrite IH. reflexivity. Qed.

Lemma map_const_length {A B X} (x : X) (l1 : list A) : forall (l2 : list B),
  length l1 = length l2 -> map (fun _ => x) l1 = map (fun _ => x) l2.
Proof.
  induction l1 as [|a l1 IH]; intros [|b l2] H; try discriminate; [reflexivity|].
  cbn [map]. f_equal. apply IH. injection H as H. exact H.
Qed.
(* the run-level refinement in event form *)
Theorem pid_wrapper_event_run (w : world) t j (efs : list (tev * option err)) t0 s0 c0 k (p' : pidw) us :
  attached w t j ->
  pidw_run (ev_rounds w j efs) t (pidw_init t0 s0 c0 k) = Ok (p', us) ->
  exists outs,
    cpid_trace (cpid_init c0 k) (observe_ev (slot_s w j) (slot_c w j) s0 c0 (map fst efs)) = Ok (pw_pid p', outs) /\
    length outs = length efs /\
    (forall e, ~ In (OErr e) outs) /\
    st_received (pw_inner p') = flat_map deliver (combine (map snd efs) outs) /\
    us = map round_result (combine (map snd efs) outs) /\
    (Forall (fun f => f = None) (map snd efs) ->
       st_received (pw_inner p') = present_vals outs /\ us = map (fun _ => UOk) efs).
Proof.
  intros Ha H. destruct (pid_wrapper_run_from_init _ t t0 s0 c0 k p' us H) as (outs & A & B & C0 & D & E & G).
  rewrite ev_rounds_fst, (observe_events t j _ w s0 c0 Ha) in A. rewrite ev_rounds_snd in D, E, G.
  assert (L : length (ev_rounds w j efs) = length efs).
  { rewrite <- (@map_length round _ snd (ev_rounds w j efs)), ev_rounds_snd, map_length. reflexivity. }
  exists outs. rewrite L in B. split; [exact A|]. split; [exact B|]. split; [exact C0|]. split; [exact D|].
  split; [exact E|]. intros Hall. destruct (G Hall) as [G1 G2]. split; [exact G1|]. rewrite G2.
  apply map_const_length. exact L.
Qed.

(* ================================================================================================ *)
(* 2a. actuator wrapper                                                                             *)
(* ================================================================================================ *)
Notation tdata := (@tdata F).
Definition act_round (t : nat) (inner : @sett tdata) (wf : round) : @sett tdata * upd :=
  actuator_update (fst wf) t (sett_set_fail inner (snd wf)).
Fixpoint act_run (rs : list round) (t : nat) (inner : @sett tdata) : @sett tdata * list upd :=
  match rs with
  | [] => (inner, [])
  | wf :: r => let x := act_round t inner wf in
               let y := act_run r t (fst x) in (fst y, snd x :: snd y)
  end.
(* what the inner settable records in a round, and the round's result *)
Definition act_deliver (t : nat) (wf : round) : list tdata :=
  match data_get (fst wf) t, snd wf with Some td, None => [d_val td] | _, _ => [] end.
Definition act_result (t : nat) (wf : round) : upd :=
  match data_get (fst wf) t, snd wf with Some _, Some e => UErr e | _, _ => UOk end.

Lemma act_round_spec t inner wf :
  st_received (fst (act_round t inner wf)) = st_received inner ++ act_deliver t wf /\
  snd (act_round t inner wf) = act_result t wf /\
  st_last (fst (act_round t inner wf)) = match act_deliver t wf with [] => st_last inner | v :: _ => Some v end /\
  st_following (fst (act_round t inner wf)) = st_following inner.
Proof.
  destruct wf as [w f]. unfold act_round, act_deliver, act_result. cbn [fst snd].
  destruct (C20_actuator w t (sett_set_fail inner f)) as [HN HS].
  destruct (data_get w t) as [td|].
  - rewrite (HS td eq_refl). unfold sett_set, sett_set_fail. cbn [st_fail st_received st_last st_following].
    destruct f as [e|]; cbn [fst snd st_received st_last st_following]; rewrite ?app_nil_r; repeat split; reflexivity.
  - rewrite (HN eq_refl). cbn [fst snd sett_set_fail st_received st_last st_following]. rewrite app_nil_r.
    repeat split; reflexivity.
Qed.

Theorem actuator_run_log (rs : list round) t : forall (inner : @sett tdata),
  st_received (fst (act_run rs t inner)) = st_received inner ++ flat_map (act_deliver t) rs /\
  snd (act_run rs t inner) = map (act_result t) rs /\
  st_last (fst (act_run rs t inner)) =
    fold_left (fun a wf => match act_deliver t wf with [] => a | v :: _ => Some v end) rs (st_last inner) /\
  st_following (fst (act_run rs t inner)) = st_following inner.
Proof.
  induction rs as [|wf r IH]; intros inner.
  - cbn. rewrite app_nil_r. repeat split; reflexivity.
  - cbn [act_run fst snd flat_map map fold_left].
    destruct (act_round_spec t inner wf) as (A & B & C0 & D). destruct (IH (fst (act_round t inner wf))) as (A' & B' & C' & D').
    rewrite A', A, B', B, C', C0, D', D, <- app_assoc. repeat split; reflexivity.
Qed.

(* an inner settable that accepts everything: its log is exactly the list of combined terminal reads of the
   rounds in which the terminal saw something; every round returns Ok *)
Definition reads (t : nat) (ws : list world) : list tdata :=
  flat_map (fun w => match data_get w t with Some td => [d_val td] | None => [] end) ws.
Corollary actuator_run_accepting (rs : list round) t (inner : @sett tdata) :
  Forall (fun wf => snd wf = None) rs ->
  st_received (fst (act_run rs t inner)) = st_received inner ++ reads t (map fst rs) /\
  snd (act_run rs t inner) = map (fun _ => UOk) rs.
Proof.
  intros H. destruct (actuator_run_log rs t inner) as (A & B & _). rewrite A, B. clear A B.
  induction H as [|[w f] r Hf Hr [IH1 IH2]]; [split; reflexivity|].
  cbn [snd] in Hf. subst f. apply app_inv_head in IH1. unfold reads. cbn [flat_map map fst].
  fold (reads t (map fst r)). rewrite <- IH1, IH2. unfold act_deliver, act_result. cbn [fst snd].
  destruct (data_get w t); split; reflexivity.
Qed.
(* a rejecting round: nothing is recorded and the rejection is the round's result *)
Corollary actuator_round_rejected t (inner : @sett tdata) w e td :
  data_get w t = Some td ->
  act_round t inner (w, Some e) = (sett_set_fail inner (Some e), UErr e).
Proof. intros H. unfold act_round, actuator_update. cbn [fst snd]. rewrite H. reflexivity. Qed.
(* the Rust update() also calls inner.update() after a successful set; for the scripted settable, which follows
   nothing, that call does nothing and returns Ok, so the model's actuator_update is the whole round *)
Lemma sett_update_not_following {S} (m : @sett S) g : st_following m = false -> sett_update m g = (m, UOk).
Proof. unfold sett_update. intros ->. reflexivity. Qed.
(* ... and when it does follow a getter, that getter's value / error comes after the terminal's value *)
Definition act_round_full (t : nat) (inner : @sett tdata) (wf : round) (g : out tdata) : @sett tdata * upd :=
  let x := act_round t inner wf in
  match snd x with UErr e => x | UOk => sett_update (fst x) g end.
Lemma act_round_full_not_following t inner wf g :
  st_following inner = false -> act_round_full t inner wf g = act_round t inner wf.
Proof.
  intros H. unfold act_round_full. destruct (act_round_spec t inner wf) as (_ & _ & _ & D).
  destruct (act_round t inner wf) as [i u] eqn:E. cbn [fst snd] in *. destruct u; [|reflexivity].
  apply sett_update_not_following. rewrite D. exact H.
Qed.
Lemma act_round_full_update_error t inner wf e :
  snd (act_round t inner wf) = UOk -> st_following inner = true ->
  act_round_full t inner wf (OErr e) = (fst (act_round t inner wf), UErr e).
Proof.
  intros H Hf. unfold act_round_full. rewrite H. destruct (act_round_spec t inner wf) as (_ & _ & _ & D).
  unfold sett_update. rewrite D, Hf. reflexivity.
Qed.

(* ================================================================================================ *)
(* 2b. encoder wrapper                                                                              *)
(* ================================================================================================ *)
(* a round = (what inner.update() returns, what inner.get() returns) *)
Definition enc_round := (upd * out state)%type.
Fixpoint enc_run (w : world) (t : nat) (rs : list enc_round) : world * list (option (datum state) * upd) :=
  match rs with
  | [] => (w, [])
  | uo :: r => let x := encoder_update w t (fst uo) (snd uo) in
               let y := enc_run (fst x) t r in
               (fst y, (slot_s (fst x) t, snd x) :: snd y)       (* the terminal's own state slot after the round *)
  end.
Definition enc_write (uo : enc_round) : option (datum state) :=
  match uo with (UOk, OSome d) => Some d | _ => None end.
Definition enc_result (uo : enc_round) : upd :=
  match uo with (UErr e, _) => UErr e | (UOk, OErr e) => UErr e | (UOk, _) => UOk end.
Definition enc_next (cur : option (datum state)) (uo : enc_round) : option (datum state) :=
  match enc_write uo with Some d => Some d | None => cur end.
Fixpoint enc_spec (cur : option (datum state)) (rs : list enc_round) : list (option (datum state) * upd) :=
  match rs with
  | [] => []
  | uo :: r => (enc_next cur uo, enc_result uo) :: enc_spec (enc_next cur uo) r
  end.

Lemma enc_round_spec (w : world) t uo :
  t < length w ->
  let w' := fst (encoder_update w t (fst uo) (snd uo)) in
  snd (encoder_update w t (fst uo) (snd uo)) = enc_result uo /\
  slot_s w' t = enc_next (slot_s w t) uo /\
  length w' = length w /\
  (forall k, k <> t -> slot_s w' k = slot_s w k) /\
  (forall k, slot_c w' k = slot_c w k /\ oth w' k = oth w k).
Proof.
  intros Ht. destruct uo as [u o]. cbn [fst snd]. destruct (C20_encoder w t o) as (E1 & E2 & E3 & E4).
  unfold enc_result, enc_next, enc_write. destruct u as [|e].
  - destruct o as [e| |d].
    + rewrite (E2 e eq_refl). cbn [fst snd]. repeat split; reflexivity.
    + rewrite (E3 eq_refl). cbn [fst snd]. repeat split; reflexivity.
    + rewrite (E4 d eq_refl). cbn [fst snd]. split; [reflexivity|].
      split; [destruct (get_set_state w t d t Ht) as (A & _); rewrite A, Nat.eqb_refl; reflexivity|].
      split; [apply len_set_state|]. split.
      * intros k Hk. destruct (get_set_state w t d k Ht) as (A & _). rewrite A.
        destruct (Nat.eqb_spec k t); [contradiction|reflexivity].
      * intros k. destruct (get_set_state w t d k Ht) as (_ & A & B). split; assumption.
  - rewrite E1. cbn [fst snd]. repeat split; reflexivity.
Qed.

Theorem encoder_run_spec (rs : list enc_round) t : forall (w : world),
  t < length w ->
  let w' := fst (enc_run w t rs) in
  snd (enc_run w t rs) = enc_spec (slot_s w t) rs /\
  slot_s w' t = fold_left enc_next rs (slot_s w t) /\
  length w' = length w /\
  (forall k, k <> t -> slot_s w' k = slot_s w k) /\
  (forall k, slot_c w' k = slot_c w k /\ oth w' k = oth w k).
Proof.
  induction rs as [|uo r IH]; intros w Ht.
  - cbn. repeat split; reflexivity.
  - cbv zeta. cbn [enc_run fst snd enc_spec fold_left].
    destruct (enc_round_spec w t uo Ht) as (A & B & C0 & D & E). cbv zeta in B, C0, D, E.
    set (w1 := fst (encoder_update w t (fst uo) (snd uo))) in *.
    assert (Ht1 : t < length w1) by (rewrite C0; exact Ht).
    destruct (IH w1 Ht1) as (A' & B' & C' & D' & E'). cbv zeta in B', C', D', E'.
    rewrite A', A, B', B, C', C0. repeat split; try reflexivity.
    + intros k Hk. rewrite (D' k Hk). apply D. exact Hk.
    + destruct (E' k) as [X _]. rewrite X. apply E.
    + destruct (E' k) as [_ X]. rewrite X. apply E.
Qed.
(* closed form of the slot: the last present state delivered in an Ok update, else what was there before *)
Lemma fold_enc_next_app cur r uo : fold_left enc_next (r ++ [uo]) cur = enc_next (fold_left enc_next r cur) uo.
Proof. rewrite fold_left_app. reflexivity. Qed.
(* without a terminal in the world (index out of range) nothing is ever written: the hypothesis t < length w of
   encoder_run_spec is needed for the slot equation *)
Lemma encoder_no_terminal (rs : list enc_round) t : forall (w : world), length w <= t -> fst (enc_run w t rs) = w.
Proof.
  induction rs as [|[u o] r IH]; intros w H; [reflexivity|]. cbn [enc_run fst snd].
  assert (E : fst (encoder_update w t u o) = w).
  { unfold encoder_update. destruct u; [|reflexivity]. destruct o; try reflexivity. cbn [fst]. apply wset_out. exact H. }
  rewrite E. apply IH. exact H.
Qed.

End Run.

(* ================================================================================================ *)
(* Examples on binary32: the hypotheses are satisfiable, the conclusions are not trivial            *)
(* ================================================================================================ *)
From RRTK Require Import Num.B32.
Section Examples.
Local Open Scope Z_scope.
Definition ex_cfg : cfg := {| chk := true; stdf := true |}.
Definition zf (n : Z) : f32 := b32_of_Z n.
Definition pos_state (t p : Z) : datum (@state f32) := mkDatum t (snew_raw (zf p) (zf 0) (zf 0)).
Definition ex_cmd : @command f32 := {| c_kind := Position; c_val := zf 10 |}.
Definition ex_gain : @kvals f32 := {| kp := zf 2; ki := zf 1; kd := b32_half |}.
Definition ex_k : @pdkvals f32 := {| k_pos := ex_gain; k_vel := ex_gain; k_acc := ex_gain |}.
(* two terminals, linked: 0 = the wrapper's, 1 = the partner's *)
Definition ex_w : @world f32 :=
  [ {| t_state := None; t_cmd := None; t_other := Some 1%nat |};
    {| t_state := None; t_cmd := None; t_other := Some 0%nat |} ].
Definition ex_s0 : @state f32 := snew_raw (zf 0) (zf 0) (zf 0).
Definition ex_c0 : @command f32 := {| c_kind := Position; c_val := zf 0 |}.
Definition bits_out (o : out f32) : option (Z * Z) :=
  match o with OSome d => Some (d_time d, b32_to_bits (d_val d)) | _ => None end.

Example ex_world_is_connect : connect (repeat term_new 2) 0 1 = Ok ex_w.
Proof. reflexivity. Qed.
Example ex_attached : attached ex_w 0 1.
Proof. unfold attached. cbn. repeat split; try reflexivity; lia. Qed.

(* binary32 values are compared through their bit patterns (structural comparison would normalise Flocq's proof terms) *)
Definition bits_state (s : @state f32) := (b32_to_bits (s_pos s), b32_to_bits (s_vel s), b32_to_bits (s_acc s)).
Definition bits_cmd (x : @command f32) := (c_kind x, b32_to_bits (c_val x)).
Definition bits_obs (o : @obs f32) := match o with Some (tm, s, cm) => Some (tm, bits_state s, bits_cmd cm) | None => None end.
Definition bits_td (td : @tdata f32) := (td_time td, option_map bits_cmd (td_cmd td), option_map bits_state (td_state td)).
Definition bits_ds (o : option (datum (@state f32))) := option_map (fun d => (d_time d, bits_state (d_val d))) o.
(* (motor log, round results, clock, controller output at the end) *)
Definition show_run (r : res (@pidw f32 * list upd)) :=
  match r with
  | Ok (p, us) => Some (map b32_to_bits (st_received (pw_inner p)), us, pw_clock p, bits_out (cpid_get (pw_pid p)))
  | Panic => None
  end.
(* (controller output at the end, outputs after each round) *)
Definition show_trace (r : res (@cpid f32 * list (out f32))) :=
  match r with Ok (pid, outs) => Some (bits_out (cpid_get pid), map bits_out outs) | Panic => None end.
Definition B0 := 0.  Definition B4 := 1082130432.  Definition B7 := 1088421888.  Definition B10 := 1092616192.
Definition B17 := 1099431936.  Definition B18 := 1099956224.  Definition B20 := 1101004800.  Definition BNaN := 2143289344.

(* run 1: command "position 10" and state 0 at t = 0 s, then states 4 at 1 s and 7 at 2 s; gains kp 2, ki 1, kd 0.5.
   The motor receives 20.0, 18.0, 17.0 -- the outputs of the stand-alone controller on the three triples. *)
Definition ex_efs : list (@tev f32 * option err) :=
  [ (EvBoth (pos_state 0 0) (mkDatum 0 ex_cmd), None);
    (EvState (pos_state 1000000000 4), None);
    (EvState (pos_state 2000000000 7), None) ].
Example ex_pid_run :
  Forall (fun f => f = None) (map snd ex_efs) /\
  map bits_obs (observe_ev None None ex_s0 ex_c0 (map fst ex_efs)) =
    [ Some (0, (B0, B0, B0), (Position, B10)); Some (1000000000, (B4, B0, B0), (Position, B10));
      Some (2000000000, (B7, B0, B0), (Position, B10)) ] /\
  show_run (pidw_run ex_cfg (ev_rounds ex_w 1 ex_efs) 0 (pidw_init 5 ex_s0 ex_c0 ex_k)) =
    Some ([B20; B18; B17], [UOk; UOk; UOk], 2000000000, Some (2000000000, B17)) /\
  show_trace (cpid_trace ex_cfg (cpid_init ex_c0 ex_k) (observe_ev None None ex_s0 ex_c0 (map fst ex_efs))) =
    Some (Some (2000000000, B17), [Some (0, B20); Some (1000000000, B18); Some (2000000000, B17)]).
Proof.
  split; [repeat constructor|]. split; [vm_compute; reflexivity|]. split; vm_compute; reflexivity.
Qed.
(* ... and the theorem applies to it *)
Example ex_pid_run_theorem :
  exists p' us outs,
    pidw_run ex_cfg (ev_rounds ex_w 1 ex_efs) 0 (pidw_init 5 ex_s0 ex_c0 ex_k) = Ok (p', us) /\
    cpid_trace ex_cfg (cpid_init ex_c0 ex_k) (observe_ev None None ex_s0 ex_c0 (map fst ex_efs)) = Ok (pw_pid p', outs) /\
    st_received (pw_inner p') = present_vals outs /\ us = [UOk; UOk; UOk] /\ length outs = 3%nat.
Proof.
  destruct ex_pid_run as (Hall & _ & Hrun & _).
  destruct (pidw_run ex_cfg (ev_rounds ex_w 1 ex_efs) 0 (pidw_init 5 ex_s0 ex_c0 ex_k)) as [[p' us]|] eqn:E; [|discriminate Hrun].
  destruct (pid_wrapper_event_run ex_cfg ex_w 0%nat 1%nat ex_efs 5 ex_s0 ex_c0 ex_k p' us ex_attached E)
    as (outs & A & B & _ & _ & _ & G).
  destruct (G Hall) as [G1 G2]. exists p', us, outs. repeat split; assumption.
Qed.

(* run 2: round 2 brings nothing new, round 3 a new state while the motor rejects with error 7.
   Round 2 re-feeds the state of round 1 with the SAME time stamp: the controller divides 0 by 0 and the motor
   is handed a NaN (0x7fc00000); round 3 returns the motor's error and the motor records nothing. *)
Definition ex_efs2 : list (@tev f32 * option err) :=
  [ (EvBoth (pos_state 0 0) (mkDatum 0 ex_cmd), None);
    (EvNone, None);
    (EvState (pos_state 2000000000 7), Some (Other 7)) ].
Example ex_pid_run_stale :
  map bits_obs (observe_ev None None ex_s0 ex_c0 (map fst ex_efs2)) =
    [ Some (0, (B0, B0, B0), (Position, B10)); Some (0, (B0, B0, B0), (Position, B10));
      Some (2000000000, (B7, B0, B0), (Position, B10)) ] /\
  show_run (pidw_run ex_cfg (ev_rounds ex_w 1 ex_efs2) 0 (pidw_init 5 ex_s0 ex_c0 ex_k)) =
    Some ([B20; BNaN], [UOk; UOk; UErr (Other 7)], 2000000000, Some (2000000000, 1099563008)) /\
  show_trace (cpid_trace ex_cfg (cpid_init ex_c0 ex_k) (observe_ev None None ex_s0 ex_c0 (map fst ex_efs2))) =
    Some (Some (2000000000, 1099563008), [Some (0, B20); Some (0, BNaN); Some (2000000000, 1099563008)]).
Proof. split; [vm_compute; reflexivity|]. split; vm_compute; reflexivity. Qed.
(* rounds in which nothing at all is visible: the controller is not stepped, the motor gets nothing *)
Example ex_pid_run_blind :
  show_run (pidw_run ex_cfg (ev_rounds ex_w 1 [(EvNone, None); (EvNone, None); (EvNone, None)]) 0 (pidw_init 5 ex_s0 ex_c0 ex_k))
  = Some ([], [UOk; UOk; UOk], 5, None).
Proof. vm_compute. reflexivity. Qed.

(* actuator: same three worlds as run 2; the inner settable rejects in round 3 *)
Example ex_actuator_run :
  let td := (0, Some (Position, B10), Some (B0, B0, B0)) in
  let r := act_run (ev_rounds ex_w 1 ex_efs2) 0 sett_init in
  map bits_td (st_received (fst r)) = [td; td] /\ snd r = [UOk; UOk; UErr (Other 7)] /\
  map bits_td (flat_map (act_deliver 0) (ev_rounds ex_w 1 ex_efs2)) = [td; td] /\
  map (act_result 0) (ev_rounds ex_w 1 ex_efs2) = [UOk; UOk; UErr (Other 7)].
Proof. cbv zeta. split; [vm_compute; reflexivity|]. split; [vm_compute; reflexivity|]. split; vm_compute; reflexivity. Qed.

(* encoder: absent, present, error *)
Definition ex_enc : list (@enc_round f32) :=
  [ (UOk, ONone); (UOk, OSome (pos_state 3 4)); (UOk, OErr FromNone) ].
Example ex_encoder_run :
  (0 < length ex_w)%nat /\
  map (fun x => (bits_ds (fst x), snd x)) (snd (enc_run ex_w 0 ex_enc)) =
    [ (None, UOk); (Some (3, (B4, B0, B0)), UOk); (Some (3, (B4, B0, B0)), UErr FromNone) ] /\
  map (fun x => (bits_ds (fst x), snd x)) (enc_spec (slot_s ex_w 0) ex_enc) =
    [ (None, UOk); (Some (3, (B4, B0, B0)), UOk); (Some (3, (B4, B0, B0)), UErr FromNone) ] /\
  bits_ds (state_get (fst (enc_run ex_w 0 ex_enc)) 1) = Some (3, (B4, B0, B0)).      (* and the partner reads it *)
Proof. split; [cbn; lia|]. split; [vm_compute; reflexivity|]. split; vm_compute; reflexivity. Qed.
End Examples.

Print Assumptions motor_run_spec.
Print Assumptions pidw_run_refines.
Print Assumptions pid_wrapper_motor_log.
Print Assumptions pid_wrapper_run_from_init.
Print Assumptions pid_wrapper_panics_iff.
Print Assumptions observe_events.
Print Assumptions pid_wrapper_event_run.
Print Assumptions cpid_feed_same_stamp.
Print Assumptions actuator_run_log.
Print Assumptions actuator_run_accepting.
Print Assumptions encoder_run_spec.
Print Assumptions ex_pid_run.
Print Assumptions ex_pid_run_theorem.
Print Assumptions ex_pid_run_stale.
Print Assumptions ex_actuator_run.
Print Assumptions ex_encoder_run.
