(* binary32 satisfies the law class; bridges between the model's functions at the binary32
   instance and the names used in B32Laws.v. *)
From Coq Require Import ZArith Reals Bool.
From Flocq Require Import Core.Core IEEE754.Binary IEEE754.BinarySingleNaN.
From RRTK Require Import Num.Num Num.B32 Num.Laws Model.Values Proofs.ValuesProofs Proofs.B32Laws.

#[export] Instance B32_laws_tbl tbl : @NumLaws f32 (B32_with_pow tbl) :=
  @Build_NumLaws f32 (B32_with_pow tbl) b32_add_comm b32_mul_comm.
#[export] Instance B32_laws : @NumLaws f32 B32 := B32_laws_tbl nil.

Lemma model_q_of_time s n : qv (@Values.q_of_time f32 B32 (cfg_chk s) n) = B32Laws.q_of_time n.
Proof. reflexivity. Qed.
Lemma model_time_of_q s (v : f32) :
  @time_of_q f32 B32 (cfg_chk s) (qnew v {| mm := 0; sec := 1 |}) = Some (B32Laws.time_of v).
Proof. reflexivity. Qed.
