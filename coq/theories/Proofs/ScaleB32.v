(* C04, binary32 tier: the PIDControllerStream output scales EXACTLY with a power-of-two scaling of
   setpoint and inputs, as long as nothing leaves the safe normal range.

   safe v      : v is +0/-0, or finite with 2^-63 <= |v| < 2^63          (boolean, checkable)
   is_pow2 s k : s is finite, positive, B2R s = 2^k ; [pow2 k] is such an s for -149 <= k <= 127
   krange k    : -60 <= k <= 60
   scaled k x x' : x, x' finite, B2R x' = 2^k * B2R x, same sign bit (also for zeros)

   1. per operation (any [B32_with_pow tbl], hence [B32]): [fmul_pow2_exact], [fadd_scale], [fsub_scale],
      [fmul_scale_l], [fmul_scale_r], [fdiv_scale]: equalities of f32 VALUES (signed zeros included),
      hypotheses: the operands and the result of the ORIGINAL operation are safe.
   2. controller: [step_safe] / [run_safe] / [scale_ok] is the explicit checker over the original run
      (setpoint, sample, error, previous error, dt, sum of errors, dt-product, addend, difference,
      quotient, gains, old and new integral, the three products, the two partial sums);
      [pid_step_scaled] one update from related states, [pid_outs_scaled] / [pid_run_scaled] whole runs
      from related states (any history of present / absent / errored events, any length),
      [pid_pow2_scaling] / [C04_pow2_scaling_B32] from the initial state.
   Why the range: with |v| >= 2^-63 a product or quotient of safe operands is >= 2^-126 in magnitude, so a
   result that is zero is an exact zero; a safe non-zero result stays normal and finite when multiplied
   by 2^k, |k| <= 60, and on normal numbers rounding to nearest even commutes with 2^k ([rnd32_scale]).
   Module [Ex]: a concrete run meeting the checker (k = 3, and k = -5 with absent/errored events),
   confirmed on bit patterns, and witnesses that the side conditions cannot be dropped (subnormal operand,
   result below the range, underflow to zero, overflow, and a controller run). *)
From Coq Require Import ZArith Bool List Reals Lia Lra Psatz SpecFloat.
From Flocq Require Import Core.Core IEEE754.Binary IEEE754.Bits.
From Flocq Require Import Relative Plus_error.
From Flocq Require Import IEEE754.BinarySingleNaN.
From RRTK Require Import Num.Num Num.B32 Model.Values Model.Streams Proofs.PidProofs Proofs.B32Laws.
Import ListNotations.
Local Open Scope Z_scope.

(* ------------------------------------------------------------------ rounding commutes with 2^k *)
Lemma round_FLX_scale (rnd : R -> Z) {Hr : Valid_rnd rnd} (k : Z) (r : R) :
  round radix2 (FLX_exp 24) rnd (bpow radix2 k * r) = (bpow radix2 k * round radix2 (FLX_exp 24) rnd r)%R.
Proof.
  destruct (Req_dec r 0) as [->|Hr0].
  - rewrite Rmult_0_r, round_0 by assumption. ring.
  - unfold round, scaled_mantissa.
    assert (E : cexp radix2 (FLX_exp 24) (bpow radix2 k * r) = cexp radix2 (FLX_exp 24) r + k).
    { unfold cexp, FLX_exp. rewrite Rmult_comm, mag_mult_bpow by exact Hr0. ring. }
    rewrite E. unfold F2R. cbn [Fnum Fexp].
    replace (bpow radix2 k * r * bpow radix2 (- (cexp radix2 (FLX_exp 24) r + k)))%R
      with (r * bpow radix2 (- cexp radix2 (FLX_exp 24) r))%R.
    + rewrite bpow_plus. ring.
    + rewrite Z.opp_add_distr, bpow_plus, (bpow_opp radix2 k).
      field. apply Rgt_not_eq, bpow_gt_0.
Qed.

Lemma rnd32_scale (k : Z) (r : R) :
  (bpow radix2 (-126) <= Rabs r)%R -> (bpow radix2 (-126) <= Rabs (bpow radix2 k * r))%R ->
  rnd32 (bpow radix2 k * r) = (bpow radix2 k * rnd32 r)%R.
Proof.
  intros H1 H2.
  rewrite (round_FLT_FLX radix2 (-149) 24 ZnearestE (bpow radix2 k * r)) by exact H2.
  rewrite (round_FLT_FLX radix2 (-149) 24 ZnearestE r) by exact H1.
  apply round_FLX_scale. auto with typeclass_instances.
Qed.

(* ------------------------------------------------------------------ the safe range *)
(* zero, or finite with 2^-63 <= |v| < 2^63 (24-bit mantissa, exponent field between -86 and 39) *)
Definition safe (v : f32) : bool :=
  match v with
  | BinarySingleNaN.B754_zero _ => true
  | BinarySingleNaN.B754_finite _ _ e _ => (-86 <=? e) && (e <=? 39)
  | _ => false
  end.

Lemma safe_spec (v : f32) : safe v = true ->
  is_finite v = true /\
  (B2R v = 0%R \/ (bpow radix2 (-63) <= Rabs (B2R v) < bpow radix2 63)%R).
Proof.
  destruct v as [b|b| |b m e Hb]; cbn [safe]; try discriminate.
  - intros _. split; [reflexivity|left; reflexivity].
  - intros Hs. apply andb_true_iff in Hs. destruct Hs as [H1 H2].
    apply Z.leb_le in H1. apply Z.leb_le in H2.
    split; [reflexivity|right].
    assert (Hd : Zdigits radix2 (Z.pos m) = 24).
    { unfold bounded in Hb. apply andb_true_iff in Hb. destruct Hb as [Hc _].
      unfold canonical_mantissa in Hc. apply Zeq_bool_eq in Hc.
      rewrite Zpos_digits2_pos in Hc. unfold fexp, emin in Hc. lia. }
    cbn [BinarySingleNaN.B2R].
    set (x := F2R (Float radix2 (cond_Zopp b (Z.pos m)) e)).
    assert (Hx0 : x <> 0%R).
    { unfold x. intros E. apply eq_0_F2R in E. destruct b; cbn in E; discriminate. }
    assert (Hm : (mag radix2 x : Z) = 24 + e).
    { unfold x. rewrite mag_F2R_Zdigits by (destruct b; cbn; discriminate).
      replace (Zdigits radix2 (cond_Zopp b (Z.pos m))) with (Zdigits radix2 (Z.pos m)); [lia|].
      destruct b; reflexivity. }
    split.
    + apply Rle_trans with (bpow radix2 (mag radix2 x - 1)).
      * apply bpow_le. lia.
      * apply bpow_mag_le. exact Hx0.
    + apply Rlt_le_trans with (bpow radix2 (mag radix2 x)).
      * apply bpow_mag_gt.
      * apply bpow_le. lia.
Qed.

Lemma safe_finite (v : f32) : safe v = true -> is_finite v = true.
Proof. intros H. exact (proj1 (safe_spec v H)). Qed.

(* the scale factor: finite, positive, exactly 2^k *)
Definition is_pow2 (s : f32) (k : Z) : Prop :=
  is_finite s = true /\ Bsign s = false /\ B2R s = bpow radix2 k.
Definition pow2 (k : Z) : f32 := BinarySingleNaN.Bldexp mode_NE (b32_of_Z 1) k.
Definition krange (k : Z) : Prop := -60 <= k <= 60.

Lemma pow2_is_pow2 (k : Z) : -149 <= k <= 127 -> is_pow2 (pow2 k) k.
Proof.
  intros Hk. destruct one_exact as (R1 & F1 & S1).
  generalize (Bldexp_correct 24 128 Hprec32 Hmax32 mode_NE (b32_of_Z 1) k).
  change (round radix2 (fexp 24 128) (round_mode mode_NE)) with rnd32.
  rewrite R1, F1, S1, Rmult_1_l.
  rewrite round_generic; auto with typeclass_instances.
  2: apply format32_bpow; lia.
  rewrite Rlt_bool_true.
  - intros (H1 & H2 & H3). unfold is_pow2, pow2. repeat split; assumption.
  - rewrite Rabs_pos_eq by apply bpow_ge_0. apply bpow_lt. lia.
Qed.

(* ------------------------------------------------------------------ real-number core *)
Lemma rnd32_big (r : R) : (bpow radix2 (-63) <= Rabs (rnd32 r))%R -> (bpow radix2 (-64) <= Rabs r)%R.
Proof.
  intros H. destruct (Rle_or_lt (bpow radix2 (-64)) (Rabs r)) as [Hle|Hlt]; [exact Hle|exfalso].
  assert (Hb : (Rabs (rnd32 r) <= bpow radix2 (-64))%R).
  { apply abs_round_le_generic; auto with typeclass_instances.
    - apply format32_bpow. lia.
    - lra. }
  assert (Hc : (bpow radix2 (-64) < bpow radix2 (-63))%R) by (apply bpow_lt; lia).
  lra.
Qed.

Lemma abs_scale (k : Z) (r : R) : Rabs (bpow radix2 k * r) = (bpow radix2 k * Rabs r)%R.
Proof. rewrite Rabs_mult, (Rabs_pos_eq (bpow radix2 k)) by apply bpow_ge_0. reflexivity. Qed.

Lemma scale_lower (k : Z) (r : R) : -60 <= k -> (bpow radix2 (-64) <= Rabs r)%R ->
  (bpow radix2 (-126) <= Rabs (bpow radix2 k * r))%R.
Proof.
  intros Hk Hr. rewrite abs_scale.
  apply Rle_trans with (bpow radix2 k * bpow radix2 (-64))%R.
  - rewrite <- bpow_plus. apply bpow_le. lia.
  - apply Rmult_le_compat_l; [apply bpow_ge_0|exact Hr].
Qed.

Lemma scale_upper (k : Z) (r : R) : k <= 60 -> (Rabs r < bpow radix2 63)%R ->
  (Rabs (bpow radix2 k * r) < bpow radix2 128)%R.
Proof.
  intros Hk Hr. rewrite abs_scale.
  apply Rlt_le_trans with (bpow radix2 k * bpow radix2 63)%R.
  - apply Rmult_lt_compat_l; [apply bpow_gt_0|exact Hr].
  - rewrite <- bpow_plus. apply bpow_le. lia.
Qed.

(* if the rounded value z of the real r is safe (and is zero only when r is), then rounding the
   scaled real gives the scaled z, without overflow *)
Lemma key (k : Z) (z : f32) (r : R) : krange k -> safe z = true -> B2R z = rnd32 r ->
  (B2R z = 0%R -> r = 0%R) ->
  rnd32 (bpow radix2 k * r) = (bpow radix2 k * B2R z)%R /\
  (Rabs (rnd32 (bpow radix2 k * r)) < bpow radix2 128)%R.
Proof.
  intros [Hk1 Hk2] Hs Hz H0. destruct (safe_spec z Hs) as [_ [Hzero|[Hlo Hhi]]].
  - rewrite (H0 Hzero), Hzero, !Rmult_0_r, round_0 by auto with typeclass_instances.
    rewrite Rabs_R0. split; [reflexivity|apply bpow_gt_0].
  - assert (Hr : (bpow radix2 (-64) <= Rabs r)%R) by (apply rnd32_big; rewrite <- Hz; exact Hlo).
    assert (E : rnd32 (bpow radix2 k * r) = (bpow radix2 k * B2R z)%R).
    { rewrite Hz. apply rnd32_scale.
      - apply Rle_trans with (2 := Hr). apply bpow_le. lia.
      - apply scale_lower; assumption. }
    split; [exact E|]. rewrite E. apply scale_upper; assumption.
Qed.

Lemma rcompare_scale (k : Z) (r : R) : Rcompare (bpow radix2 k * r) 0 = Rcompare r 0.
Proof.
  rewrite <- (Rmult_0_r (bpow radix2 k)) at 1. apply Rcompare_mult_l. apply bpow_gt_0.
Qed.

(* ------------------------------------------------------------------ the relation "x' is 2^k x" *)
Definition scaled (k : Z) (x x' : f32) : Prop :=
  is_finite x = true /\ is_finite x' = true /\
  B2R x' = (bpow radix2 k * B2R x)%R /\ Bsign x' = Bsign x.

Lemma scaled_unique (k : Z) (x a b : f32) : scaled k x a -> scaled k x b -> a = b.
Proof.
  intros (_ & Fa & Ra & Sa) (_ & Fb & Rb & Sb).
  apply B2R_Bsign_inj; try assumption; congruence.
Qed.

Lemma overflow_not_finite (z : f32) (b : bool) :
  B2SF z = binary_overflow 24 128 mode_NE b -> is_finite z = true -> False.
Proof.
  intros E F. rewrite <- is_finite_SF_B2SF, E in F. discriminate.
Qed.

(* what a finite result of each operation is *)
Lemma add_finite (x y : f32) : is_finite x = true -> is_finite y = true ->
  is_finite (b32_add x y) = true ->
  B2R (b32_add x y) = rnd32 (B2R x + B2R y) /\
  Bsign (b32_add x y) = match Rcompare (B2R x + B2R y) 0 with
                        | Eq => Bsign x && Bsign y | Lt => true | Gt => false end.
Proof.
  intros Fx Fy Fz. unfold b32_add in *.
  generalize (Bplus_correct 24 128 Hprec32 Hmax32 mode_NE x y Fx Fy).
  change (round radix2 (fexp 24 128) (round_mode mode_NE)) with rnd32.
  case Rlt_bool_spec; intros _.
  - intros (H1 & _ & H3). split; assumption.
  - intros [H1 _]. exfalso. exact (overflow_not_finite _ _ H1 Fz).
Qed.

Lemma add_intro (x y : f32) : is_finite x = true -> is_finite y = true ->
  (Rabs (rnd32 (B2R x + B2R y)) < bpow radix2 128)%R ->
  is_finite (b32_add x y) = true /\ B2R (b32_add x y) = rnd32 (B2R x + B2R y) /\
  Bsign (b32_add x y) = match Rcompare (B2R x + B2R y) 0 with
                        | Eq => Bsign x && Bsign y | Lt => true | Gt => false end.
Proof.
  intros Fx Fy Hb. unfold b32_add.
  generalize (Bplus_correct 24 128 Hprec32 Hmax32 mode_NE x y Fx Fy).
  change (round radix2 (fexp 24 128) (round_mode mode_NE)) with rnd32.
  rewrite Rlt_bool_true by exact Hb. intros (H1 & H2 & H3). repeat split; assumption.
Qed.

Lemma sub_finite (x y : f32) : is_finite x = true -> is_finite y = true ->
  is_finite (b32_sub x y) = true ->
  B2R (b32_sub x y) = rnd32 (B2R x - B2R y) /\
  Bsign (b32_sub x y) = match Rcompare (B2R x - B2R y) 0 with
                        | Eq => Bsign x && negb (Bsign y) | Lt => true | Gt => false end.
Proof.
  intros Fx Fy Fz. unfold b32_sub in *.
  generalize (Bminus_correct 24 128 Hprec32 Hmax32 mode_NE x y Fx Fy).
  change (round radix2 (fexp 24 128) (round_mode mode_NE)) with rnd32.
  case Rlt_bool_spec; intros _.
  - intros (H1 & _ & H3). split; assumption.
  - intros [H1 _]. exfalso. exact (overflow_not_finite _ _ H1 Fz).
Qed.

Lemma sub_intro (x y : f32) : is_finite x = true -> is_finite y = true ->
  (Rabs (rnd32 (B2R x - B2R y)) < bpow radix2 128)%R ->
  is_finite (b32_sub x y) = true /\ B2R (b32_sub x y) = rnd32 (B2R x - B2R y) /\
  Bsign (b32_sub x y) = match Rcompare (B2R x - B2R y) 0 with
                        | Eq => Bsign x && negb (Bsign y) | Lt => true | Gt => false end.
Proof.
  intros Fx Fy Hb. unfold b32_sub.
  generalize (Bminus_correct 24 128 Hprec32 Hmax32 mode_NE x y Fx Fy).
  change (round radix2 (fexp 24 128) (round_mode mode_NE)) with rnd32.
  rewrite Rlt_bool_true by exact Hb. intros (H1 & H2 & H3). repeat split; assumption.
Qed.

Lemma finite_not_nan (z : f32) : is_finite z = true -> is_nan z = false.
Proof. destruct z; try discriminate; reflexivity. Qed.

Lemma mul_finite (x y : f32) : is_finite (b32_mul x y) = true ->
  B2R (b32_mul x y) = rnd32 (B2R x * B2R y) /\
  Bsign (b32_mul x y) = xorb (Bsign x) (Bsign y).
Proof.
  intros Fz. unfold b32_mul in *.
  generalize (Bmult_correct 24 128 Hprec32 Hmax32 mode_NE x y).
  change (round radix2 (fexp 24 128) (round_mode mode_NE)) with rnd32.
  case Rlt_bool_spec; intros _.
  - intros (H1 & _ & H3). split; [exact H1|]. apply H3. apply finite_not_nan. exact Fz.
  - intros H1. exfalso. exact (overflow_not_finite _ _ H1 Fz).
Qed.

Lemma mul_intro (x y : f32) : is_finite x = true -> is_finite y = true ->
  (Rabs (rnd32 (B2R x * B2R y)) < bpow radix2 128)%R ->
  is_finite (b32_mul x y) = true /\ B2R (b32_mul x y) = rnd32 (B2R x * B2R y) /\
  Bsign (b32_mul x y) = xorb (Bsign x) (Bsign y).
Proof.
  intros Fx Fy Hb. unfold b32_mul.
  generalize (Bmult_correct 24 128 Hprec32 Hmax32 mode_NE x y).
  change (round radix2 (fexp 24 128) (round_mode mode_NE)) with rnd32.
  rewrite Rlt_bool_true by exact Hb. rewrite Fx, Fy. intros (H1 & H2 & H3).
  split; [exact H2|]. split; [exact H1|]. apply H3. apply finite_not_nan. exact H2.
Qed.

Lemma div_finite (x y : f32) : B2R y <> 0%R -> is_finite (b32_div x y) = true ->
  B2R (b32_div x y) = rnd32 (B2R x / B2R y) /\
  Bsign (b32_div x y) = xorb (Bsign x) (Bsign y).
Proof.
  intros Ny Fz. unfold b32_div in *.
  generalize (Bdiv_correct 24 128 Hprec32 Hmax32 mode_NE x y Ny).
  change (round radix2 (fexp 24 128) (round_mode mode_NE)) with rnd32.
  case Rlt_bool_spec; intros _.
  - intros (H1 & _ & H3). split; [exact H1|]. apply H3. apply finite_not_nan. exact Fz.
  - intros H1. exfalso. exact (overflow_not_finite _ _ H1 Fz).
Qed.

Lemma div_intro (x y : f32) : is_finite x = true -> B2R y <> 0%R ->
  (Rabs (rnd32 (B2R x / B2R y)) < bpow radix2 128)%R ->
  is_finite (b32_div x y) = true /\ B2R (b32_div x y) = rnd32 (B2R x / B2R y) /\
  Bsign (b32_div x y) = xorb (Bsign x) (Bsign y).
Proof.
  intros Fx Ny Hb. unfold b32_div.
  generalize (Bdiv_correct 24 128 Hprec32 Hmax32 mode_NE x y Ny).
  change (round radix2 (fexp 24 128) (round_mode mode_NE)) with rnd32.
  rewrite Rlt_bool_true by exact Hb. rewrite Fx. intros (H1 & H2 & H3).
  split; [exact H2|]. split; [exact H1|]. apply H3. apply finite_not_nan. exact H2.
Qed.

(* ------------------------------------------------------------------ the operations preserve [scaled] *)
Lemma format_B2R32 (x : f32) : generic_format radix2 (FLT_exp (-149) 24) (B2R x).
Proof. apply (generic_format_B2R 24 128). Qed.

Lemma add_scaled (k : Z) (x x' y y' : f32) : krange k ->
  scaled k x x' -> scaled k y y' -> safe (b32_add x y) = true ->
  scaled k (b32_add x y) (b32_add x' y').
Proof.
  intros Hk (Fx & Fx' & Rx & Sx) (Fy & Fy' & Ry & Sy) Hs.
  assert (Fz := safe_finite _ Hs).
  destruct (add_finite x y Fx Fy Fz) as [Rz Sz].
  assert (E : (B2R x' + B2R y' = bpow radix2 k * (B2R x + B2R y))%R) by (rewrite Rx, Ry; ring).
  destruct (key k _ _ Hk Hs Rz) as [K1 K2].
  { rewrite Rz. apply round_plus_eq_0; auto with typeclass_instances; apply format_B2R32. }
  rewrite <- E in K1, K2.
  destruct (add_intro x' y' Fx' Fy' K2) as (Fz' & Rz' & Sz').
  repeat split; try assumption.
  - rewrite Rz'. exact K1.
  - rewrite Sz', Sz, E, rcompare_scale, Sx, Sy. reflexivity.
Qed.

Lemma sub_scaled (k : Z) (x x' y y' : f32) : krange k ->
  scaled k x x' -> scaled k y y' -> safe (b32_sub x y) = true ->
  scaled k (b32_sub x y) (b32_sub x' y').
Proof.
  intros Hk (Fx & Fx' & Rx & Sx) (Fy & Fy' & Ry & Sy) Hs.
  assert (Fz := safe_finite _ Hs).
  destruct (sub_finite x y Fx Fy Fz) as [Rz Sz].
  assert (E : (B2R x' - B2R y' = bpow radix2 k * (B2R x - B2R y))%R) by (rewrite Rx, Ry; ring).
  destruct (key k _ _ Hk Hs Rz) as [K1 K2].
  { rewrite Rz. unfold Rminus. apply round_plus_eq_0; auto with typeclass_instances.
    - apply format_B2R32.
    - apply generic_format_opp, format_B2R32. }
  rewrite <- E in K1, K2.
  destruct (sub_intro x' y' Fx' Fy' K2) as (Fz' & Rz' & Sz').
  repeat split; try assumption.
  - rewrite Rz'. exact K1.
  - rewrite Sz', Sz, E, rcompare_scale, Sx, Sy. reflexivity.
Qed.

(* a safe value is zero or at least 2^-63; the rounding of a real of magnitude >= 2^-126 is not 0 *)
Lemma rnd32_nonzero (r : R) : (bpow radix2 (-126) <= Rabs r)%R -> rnd32 r <> 0%R.
Proof.
  intros Hr E.
  assert (H : (bpow radix2 (-126) <= Rabs (rnd32 r))%R).
  { apply abs_round_ge_generic; auto with typeclass_instances. apply format32_bpow. lia. }
  rewrite E, Rabs_R0 in H. generalize (bpow_gt_0 radix2 (-126)). lra.
Qed.

Lemma safe_abs (v : f32) : safe v = true ->
  B2R v = 0%R \/ (bpow radix2 (-63) <= Rabs (B2R v) < bpow radix2 63)%R.
Proof. intros H. exact (proj2 (safe_spec v H)). Qed.

Lemma mul_zero_exact (x y : f32) : safe x = true -> safe y = true ->
  rnd32 (B2R x * B2R y) = 0%R -> (B2R x * B2R y = 0)%R.
Proof.
  intros Hx Hy E.
  destruct (safe_abs x Hx) as [Zx|[Lx _]]; [rewrite Zx; ring|].
  destruct (safe_abs y Hy) as [Zy|[Ly _]]; [rewrite Zy; ring|].
  exfalso. revert E. apply rnd32_nonzero. rewrite Rabs_mult.
  replace (bpow radix2 (-126)) with (bpow radix2 (-63) * bpow radix2 (-63))%R
    by (rewrite <- bpow_plus; reflexivity).
  apply Rmult_le_compat; try assumption; apply bpow_ge_0.
Qed.

Lemma mul_scaled_l (k : Z) (x x' y : f32) : krange k ->
  scaled k x x' -> safe x = true -> safe y = true -> safe (b32_mul x y) = true ->
  scaled k (b32_mul x y) (b32_mul x' y).
Proof.
  intros Hk (Fx & Fx' & Rx & Sx) Hx Hy Hs.
  assert (Fz := safe_finite _ Hs). assert (Fy := safe_finite _ Hy).
  destruct (mul_finite x y Fz) as [Rz Sz].
  assert (E : (B2R x' * B2R y = bpow radix2 k * (B2R x * B2R y))%R) by (rewrite Rx; ring).
  destruct (key k _ _ Hk Hs Rz) as [K1 K2].
  { rewrite Rz. apply mul_zero_exact; assumption. }
  rewrite <- E in K1, K2.
  destruct (mul_intro x' y Fx' Fy K2) as (Fz' & Rz' & Sz').
  repeat split; try assumption.
  - rewrite Rz'. exact K1.
  - rewrite Sz', Sz, Sx. reflexivity.
Qed.

Lemma mul_scaled_r (k : Z) (x y y' : f32) : krange k ->
  scaled k y y' -> safe x = true -> safe y = true -> safe (b32_mul x y) = true ->
  scaled k (b32_mul x y) (b32_mul x y').
Proof.
  intros Hk Hy Sx Sy Hs. rewrite (b32_mul_comm x y), (b32_mul_comm x y').
  apply mul_scaled_l; try assumption. rewrite b32_mul_comm. exact Hs.
Qed.

Lemma div_safe_nonzero (x y : f32) : is_finite x = true -> is_finite (b32_div x y) = true ->
  is_finite y = true -> B2R y <> 0%R.
Proof.
  intros Fx Fz Fy.
  destruct y as [sy|sy| |sy my ey Hy]; try discriminate.
  - exfalso. destruct x as [sx|sx| |sx mx ex Hx]; try discriminate; cbn in Fz; discriminate.
  - cbn [BinarySingleNaN.B2R]. intros E. apply eq_0_F2R in E. destruct sy; cbn in E; discriminate.
Qed.

Lemma div_zero_exact (x y : f32) : safe x = true -> safe y = true -> B2R y <> 0%R ->
  rnd32 (B2R x / B2R y) = 0%R -> (B2R x / B2R y = 0)%R.
Proof.
  intros Hx Hy Ny E.
  destruct (safe_abs x Hx) as [Zx|[Lx _]]; [rewrite Zx; unfold Rdiv; ring|].
  destruct (safe_abs y Hy) as [Zy|[_ Uy]]; [contradiction|].
  exfalso. revert E. apply rnd32_nonzero. unfold Rdiv. rewrite Rabs_mult, Rabs_inv.
  assert (Py : (0 < Rabs (B2R y))%R) by (apply Rabs_pos_lt; exact Ny).
  replace (bpow radix2 (-126)) with (bpow radix2 (-63) * / bpow radix2 63)%R
    by (rewrite <- bpow_opp, <- bpow_plus; reflexivity).
  apply Rmult_le_compat.
  - apply bpow_ge_0.
  - left. apply Rinv_0_lt_compat, bpow_gt_0.
  - exact Lx.
  - left. apply Rinv_lt_contravar; [|exact Uy]. apply Rmult_lt_0_compat; [exact Py|apply bpow_gt_0].
Qed.

Lemma div_scaled_l (k : Z) (x x' y : f32) : krange k ->
  scaled k x x' -> safe x = true -> safe y = true -> safe (b32_div x y) = true ->
  scaled k (b32_div x y) (b32_div x' y).
Proof.
  intros Hk (Fx & Fx' & Rx & Sx) Hx Hy Hs.
  assert (Fz := safe_finite _ Hs). assert (Fy := safe_finite _ Hy).
  assert (Ny : B2R y <> 0%R) by (apply (div_safe_nonzero x y); assumption).
  destruct (div_finite x y Ny Fz) as [Rz Sz].
  assert (E : (B2R x' / B2R y = bpow radix2 k * (B2R x / B2R y))%R) by (rewrite Rx; field; exact Ny).
  destruct (key k _ _ Hk Hs Rz) as [K1 K2].
  { rewrite Rz. apply div_zero_exact; assumption. }
  rewrite <- E in K1, K2.
  destruct (div_intro x' y Fx' Ny K2) as (Fz' & Rz' & Sz').
  repeat split; try assumption.
  - rewrite Rz'. exact K1.
  - rewrite Sz', Sz, Sx. reflexivity.
Qed.

(* multiplying a safe value by 2^k is exact *)
Lemma pow2_scaled (k : Z) (s x : f32) : krange k -> is_pow2 s k -> safe x = true ->
  scaled k x (b32_mul s x).
Proof.
  intros Hk (Fs & Ss & Rs) Hx. assert (Fx := safe_finite _ Hx).
  assert (Rx : B2R x = rnd32 (B2R x)).
  { symmetry. apply round_generic; auto with typeclass_instances. apply format_B2R32. }
  destruct (key k x (B2R x) Hk Hx Rx (fun H => H)) as [K1 K2].
  rewrite <- Rs in K1 at 1. rewrite <- Rs in K2.
  destruct (mul_intro s x Fs Fx K2) as (Fz & Rz & Sz).
  repeat split; try assumption.
  - rewrite Rz. exact K1.
  - rewrite Sz, Ss. destruct (Bsign x); reflexivity.
Qed.

(* ================================================================== 1. per-operation theorems *)
Section Ops.
Variable tbl : list (Z * Z * Z).
Notation NB := (B32_with_pow tbl).
Notation add := (@fadd f32 NB).
Notation sub := (@fsub f32 NB).
Notation mul := (@fmul f32 NB).
Notation div := (@fdiv f32 NB).

(* s * x is exact: the value is 2^k x, the sign is that of x (also for x = +0 / -0) *)
Theorem fmul_pow2_exact (k : Z) (s x : f32) : krange k -> is_pow2 s k -> safe x = true ->
  is_finite (mul s x) = true /\ B2R (mul s x) = (bpow radix2 k * B2R x)%R /\ Bsign (mul s x) = Bsign x.
Proof. intros Hk Hs Hx. destruct (pow2_scaled k s x Hk Hs Hx) as (_ & H1 & H2 & H3). repeat split; assumption. Qed.

Theorem fadd_scale (k : Z) (s x y : f32) : krange k -> is_pow2 s k ->
  safe x = true -> safe y = true -> safe (add x y) = true ->
  add (mul s x) (mul s y) = mul s (add x y).
Proof.
  intros Hk Hs Hx Hy Hz. apply (scaled_unique k (b32_add x y)).
  - apply add_scaled; try assumption; apply pow2_scaled; assumption.
  - apply pow2_scaled; assumption.
Qed.

Theorem fsub_scale (k : Z) (s x y : f32) : krange k -> is_pow2 s k ->
  safe x = true -> safe y = true -> safe (sub x y) = true ->
  sub (mul s x) (mul s y) = mul s (sub x y).
Proof.
  intros Hk Hs Hx Hy Hz. apply (scaled_unique k (b32_sub x y)).
  - apply sub_scaled; try assumption; apply pow2_scaled; assumption.
  - apply pow2_scaled; assumption.
Qed.

Theorem fmul_scale_l (k : Z) (s x y : f32) : krange k -> is_pow2 s k ->
  safe x = true -> safe y = true -> safe (mul x y) = true ->
  mul (mul s x) y = mul s (mul x y).
Proof.
  intros Hk Hs Hx Hy Hz. apply (scaled_unique k (b32_mul x y)).
  - apply mul_scaled_l; try assumption; apply pow2_scaled; assumption.
  - apply pow2_scaled; assumption.
Qed.

Theorem fmul_scale_r (k : Z) (s x y : f32) : krange k -> is_pow2 s k ->
  safe x = true -> safe y = true -> safe (mul x y) = true ->
  mul x (mul s y) = mul s (mul x y).
Proof.
  intros Hk Hs Hx Hy Hz. apply (scaled_unique k (b32_mul x y)).
  - apply mul_scaled_r; try assumption; apply pow2_scaled; assumption.
  - apply pow2_scaled; assumption.
Qed.

Theorem fdiv_scale (k : Z) (s x y : f32) : krange k -> is_pow2 s k ->
  safe x = true -> safe y = true -> safe (div x y) = true ->
  div (mul s x) y = mul s (div x y).
Proof.
  intros Hk Hs Hx Hy Hz. apply (scaled_unique k (b32_div x y)).
  - apply div_scaled_l; try assumption; apply pow2_scaled; assumption.
  - apply pow2_scaled; assumption.
Qed.
End Ops.

(* ================================================================== 2. the controller *)
Ltac andb_split :=
  repeat match goal with
         | H : (_ && _)%bool = true |- _ => apply andb_true_iff in H; destruct H
         end.

Lemma zero_scaled (k : Z) (b : bool) : scaled k (B754_zero b) (B754_zero b).
Proof. unfold scaled. cbn. repeat split. ring. Qed.

Section PidScale.
Variable tbl : list (Z * Z * Z).
Variable c : cfg.
Notation NB := (B32_with_pow tbl).
Notation pid := (@pid f32).
Notation step := (@pid_step f32 NB c).
Notation dtf := (@dt_f f32 NB c).
Notation two := (b32_of_Z 2).
Notation zero := (B754_zero false).

(* the state after a present sample, as a function of error, integral addend and derivative *)
Definition mk_next (st : pid) (t : Z) (error addend drv : f32) : pid :=
  let int' := b32_add (pid_int st) addend in
  let o := b32_add (b32_add (b32_mul (kp (pid_k st)) error) (b32_mul (ki (pid_k st)) int'))
                   (b32_mul (kd (pid_k st)) drv) in
  {| pid_sp := pid_sp st; pid_k := pid_k st; pid_prev := Some (mkDatum t error);
     pid_int := int'; pid_out := OSome (mkDatum t o) |}.

Lemma pid_step_some (st : pid) (p : datum f32) :
  step st (OSome p) =
  let error := b32_sub (pid_sp st) (d_val p) in
  match pid_prev st with
  | Some pe =>
      match dtf (d_time p) (d_time pe) with
      | Ok dt => Ok (mk_next st (d_time p) error
                       (b32_div (b32_mul dt (b32_add (d_val pe) error)) two)
                       (b32_div (b32_sub error (d_val pe)) dt), UOk)
      | Panic => Panic
      end
  | None => Ok (mk_next st (d_time p) error zero zero, UOk)
  end.
Proof.
  unfold pid_step. destruct (pid_prev st) as [pe|]; [|reflexivity].
  destruct (dtf (d_time p) (d_time pe)) as [dt|]; reflexivity.
Qed.

(* ---- the explicit checker over the ORIGINAL run ---- *)
(* gains, integral so far, addend, derivative, new integral, the three products, the two partial sums *)
Definition tail_safe (st : pid) (error addend drv : f32) : bool :=
  let kk := pid_k st in
  let int' := b32_add (pid_int st) addend in
  let p1 := b32_mul (kp kk) error in
  let p2 := b32_mul (ki kk) int' in
  let p3 := b32_mul (kd kk) drv in
  let s1 := b32_add p1 p2 in
  forallb safe [kp kk; ki kk; kd kk; pid_int st; addend; drv; int'; p1; p2; p3; s1; b32_add s1 p3].

Definition step_safe (st : pid) (i : out f32) : bool :=
  match i with
  | OSome p =>
      let error := b32_sub (pid_sp st) (d_val p) in
      forallb safe [pid_sp st; d_val p; error] &&
      match pid_prev st with
      | Some pe =>
          match dtf (d_time p) (d_time pe) with
          | Ok dt =>
              let sm := b32_add (d_val pe) error in
              let pr := b32_mul dt sm in
              let diff := b32_sub error (d_val pe) in
              forallb safe [d_val pe; dt; sm; pr; diff] &&
              tail_safe st error (b32_div pr two) (b32_div diff dt)
          | Panic => true
          end
      | None => tail_safe st error zero zero
      end
  | _ => true
  end.

Fixpoint run_safe (st : pid) (h : list (out f32)) : bool :=
  match h with
  | [] => true
  | i :: r => step_safe st i &&
              match step st i with Ok (st', _) => run_safe st' r | Panic => true end
  end.

(* ---- related states / events ---- *)
Definition rel_dat (k : Z) (d d' : datum f32) : Prop :=
  d_time d' = d_time d /\ scaled k (d_val d) (d_val d').
Definition rel_out (k : Z) (o o' : out f32) : Prop :=
  match o, o' with
  | OSome d, OSome d' => rel_dat k d d'
  | ONone, ONone => True
  | OErr e, OErr e' => e' = e
  | _, _ => False
  end.
Definition rel_opt (k : Z) (p p' : option (datum f32)) : Prop :=
  match p, p' with
  | Some d, Some d' => rel_dat k d d'
  | None, None => True
  | _, _ => False
  end.
Definition rel_st (k : Z) (st st' : pid) : Prop :=
  scaled k (pid_sp st) (pid_sp st') /\ pid_k st' = pid_k st /\
  rel_opt k (pid_prev st) (pid_prev st') /\ scaled k (pid_int st) (pid_int st') /\
  rel_out k (pid_out st) (pid_out st').

Lemma two_safe : safe two = true.
Proof. vm_compute. reflexivity. Qed.

Lemma tail_safe_ad (st : pid) (error addend drv : f32) :
  tail_safe st error addend drv = true -> safe addend = true /\ safe drv = true.
Proof.
  intros Ht. unfold tail_safe in Ht. cbn [forallb] in Ht. andb_split. split; assumption.
Qed.

Lemma mk_next_rel (k : Z) (st st' : pid) (t : Z) (error error' addend addend' drv drv' : f32) :
  krange k -> rel_st k st st' ->
  scaled k error error' -> scaled k addend addend' -> scaled k drv drv' ->
  safe error = true -> tail_safe st error addend drv = true ->
  rel_st k (mk_next st t error addend drv) (mk_next st' t error' addend' drv').
Proof.
  intros Hk (Rsp & Rk & Rprev & Rint & Rout) He Ha Hd Se Ht.
  unfold tail_safe in Ht. cbn [forallb] in Ht. andb_split.
  unfold mk_next. rewrite Rk.
  assert (I : scaled k (b32_add (pid_int st) addend) (b32_add (pid_int st') addend'))
    by (apply add_scaled; assumption).
  assert (P1 : scaled k (b32_mul (kp (pid_k st)) error) (b32_mul (kp (pid_k st)) error'))
    by (apply mul_scaled_r; assumption).
  assert (P2 : scaled k (b32_mul (ki (pid_k st)) (b32_add (pid_int st) addend))
                        (b32_mul (ki (pid_k st)) (b32_add (pid_int st') addend')))
    by (apply mul_scaled_r; assumption).
  assert (P3 : scaled k (b32_mul (kd (pid_k st)) drv) (b32_mul (kd (pid_k st)) drv'))
    by (apply mul_scaled_r; assumption).
  unfold rel_st. cbn [pid_sp pid_k pid_prev pid_int pid_out rel_opt rel_out rel_dat d_time d_val].
  split; [exact Rsp|]. split; [reflexivity|]. split; [split; [reflexivity|exact He]|].
  split; [exact I|]. split; [reflexivity|].
  apply add_scaled; try assumption. apply add_scaled; assumption.
Qed.

(* ---- one step from related states ---- *)
Theorem pid_step_scaled (k : Z) (st st' : pid) (i i' : out f32) :
  krange k -> rel_st k st st' -> rel_out k i i' -> step_safe st i = true ->
  match step st i, step st' i' with
  | Ok (a, u), Ok (a', u') => rel_st k a a' /\ u' = u
  | Panic, Panic => True
  | _, _ => False
  end.
Proof.
  intros Hk Hrel Hi Hs. pose proof Hrel as (Rsp & Rk & Rprev & Rint & Rout).
  destruct i as [e| |d], i' as [e'| |d']; cbn [rel_out] in Hi; try contradiction.
  - subst e'. cbn [pid_step]. split; [|reflexivity].
    unfold rel_st. cbn [pid_sp pid_k pid_prev pid_int pid_out rel_opt rel_out].
    split; [exact Rsp|]. split; [exact Rk|]. split; [exact I|]. split; [apply zero_scaled|reflexivity].
  - cbn [pid_step]. split; [|reflexivity].
    unfold rel_st, pid_reset. cbn [pid_sp pid_k pid_prev pid_int pid_out rel_opt rel_out].
    split; [exact Rsp|]. split; [exact Rk|]. split; [exact I|]. split; [apply zero_scaled|exact I].
  - destruct Hi as [Ti Vi]. rewrite !pid_step_some. cbv zeta.
    unfold step_safe in Hs.
    destruct (pid_prev st) as [pe|] eqn:Ep; destruct (pid_prev st') as [pe'|] eqn:Ep';
      cbn [rel_opt] in Rprev; try contradiction.
    + destruct Rprev as [Tpe Vpe]. rewrite Ti, Tpe.
      destruct (dtf (d_time d) (d_time pe)) as [dt|] eqn:Edt; [|exact I].
      cbn [forallb] in Hs. andb_split.
      assert (Herr : scaled k (b32_sub (pid_sp st) (d_val d)) (b32_sub (pid_sp st') (d_val d')))
        by (apply sub_scaled; assumption).
      match goal with Ht : tail_safe _ _ _ _ = true |- _ =>
        destruct (tail_safe_ad _ _ _ _ Ht) as [Sa Sd] end.
      split; [|reflexivity]. apply mk_next_rel; try assumption.
      * apply div_scaled_l; try assumption; try apply two_safe.
        apply mul_scaled_r; try assumption. apply add_scaled; assumption.
      * apply div_scaled_l; try assumption. apply sub_scaled; assumption.
    + rewrite Ti. cbn [forallb] in Hs. andb_split.
      assert (Herr : scaled k (b32_sub (pid_sp st) (d_val d)) (b32_sub (pid_sp st') (d_val d')))
        by (apply sub_scaled; assumption).
      split; [|reflexivity]. apply mk_next_rel; try assumption; apply zero_scaled.
Qed.

(* ---- the scaled run: setpoint and every sample value multiplied by s; gains, time stamps, absent and
   errored events unchanged ---- *)
Definition scale_ev (s : f32) (o : out f32) : out f32 :=
  match o with
  | OSome d => OSome (mkDatum (d_time d) (b32_mul s (d_val d)))
  | y => y
  end.
Definition out_safe (o : out f32) : bool :=
  match o with OSome d => safe (d_val d) | _ => true end.

(* the outputs (what get() returns) after each update, until a panicking update *)
Fixpoint pid_outs (st : pid) (h : list (out f32)) : list (out f32) :=
  match h with
  | [] => []
  | i :: r => match step st i with
              | Ok (st', _) => pid_get st' :: pid_outs st' r
              | Panic => []
              end
  end.

Lemma ev_rel (k : Z) (s : f32) (st : pid) (i : out f32) :
  krange k -> is_pow2 s k -> step_safe st i = true -> rel_out k i (scale_ev s i).
Proof.
  intros Hk Hs Hi. destruct i as [e| |d]; cbn [scale_ev rel_out]; try reflexivity.
  unfold step_safe in Hi. cbn [forallb] in Hi. andb_split.
  split; [reflexivity|]. cbn [d_val]. apply pow2_scaled; assumption.
Qed.

Lemma rel_out_eq (k : Z) (s : f32) (o o' : out f32) :
  krange k -> is_pow2 s k -> rel_out k o o' -> out_safe o = true -> o' = scale_ev s o.
Proof.
  intros Hk Hs Hr Ho.
  destruct o as [e| |d], o' as [e'| |d']; cbn [rel_out] in Hr; try contradiction.
  - subst e'. reflexivity.
  - reflexivity.
  - destruct Hr as [Ht Hv]. cbn [out_safe] in Ho. cbn [scale_ev].
    destruct d' as [t' v']. cbn [d_time d_val] in Ht, Hv. subst t'. f_equal. f_equal.
    apply (scaled_unique k (d_val d)); [exact Hv|]. apply pow2_scaled; assumption.
Qed.

Lemma step_out_safe (st a : pid) (i : out f32) (u : upd) :
  step_safe st i = true -> step st i = Ok (a, u) -> out_safe (pid_out a) = true.
Proof.
  intros Hs. destruct i as [e| |d].
  - cbn [pid_step]. intros [= <- _]. reflexivity.
  - cbn [pid_step]. intros [= <- _]. reflexivity.
  - rewrite pid_step_some. cbv zeta. unfold step_safe in Hs.
    apply andb_true_iff in Hs. destruct Hs as [_ Hs].
    assert (T : forall e x y, tail_safe st e x y = true ->
                out_safe (pid_out (mk_next st (d_time d) e x y)) = true).
    { intros e x y Ht. unfold tail_safe in Ht. cbn [forallb] in Ht. andb_split.
      unfold mk_next. cbn [pid_out out_safe d_val]. assumption. }
    destruct (pid_prev st) as [pe|].
    + destruct (dtf (d_time d) (d_time pe)) as [dt|]; [|discriminate].
      apply andb_true_iff in Hs. destruct Hs as [_ Hs].
      intros [= <- _]. apply T. exact Hs.
    + intros [= <- _]. apply T. exact Hs.
Qed.

(* ---- whole runs from related states: every output scales, a panic (i64 overflow of a time
   difference) happens in both runs at the same update ---- *)
Theorem pid_outs_scaled (k : Z) (s : f32) (h : list (out f32)) : krange k -> is_pow2 s k ->
  forall st st' : pid, rel_st k st st' -> run_safe st h = true ->
  pid_outs st' (map (scale_ev s) h) = map (scale_ev s) (pid_outs st h).
Proof.
  intros Hk Hs. induction h as [|i r IH]; intros st st' Hrel Hsafe; [reflexivity|].
  cbn [run_safe] in Hsafe. apply andb_true_iff in Hsafe. destruct Hsafe as [Hi Hr].
  cbn [map pid_outs].
  generalize (pid_step_scaled k st st' i (scale_ev s i) Hk Hrel (ev_rel k s st i Hk Hs Hi) Hi).
  destruct (step st i) as [[a u]|] eqn:E1; destruct (step st' (scale_ev s i)) as [[a' u']|] eqn:E2;
    try contradiction; [|reflexivity].
  intros [Ha _]. cbn [map]. f_equal.
  - unfold pid_get. apply (rel_out_eq k); try assumption.
    + destruct Ha as (_ & _ & _ & _ & Ho). exact Ho.
    + apply (step_out_safe st a i u); assumption.
  - apply IH; assumption.
Qed.

Theorem pid_run_scaled (k : Z) (s : f32) (h : list (out f32)) : krange k -> is_pow2 s k ->
  forall st st' : pid, rel_st k st st' -> run_safe st h = true ->
  match @pid_run f32 NB c st h, @pid_run f32 NB c st' (map (scale_ev s) h) with
  | Ok a, Ok a' => rel_st k a a'
  | Panic, Panic => True
  | _, _ => False
  end.
Proof.
  intros Hk Hs. induction h as [|i r IH]; intros st st' Hrel Hsafe; [exact Hrel|].
  cbn [run_safe] in Hsafe. apply andb_true_iff in Hsafe. destruct Hsafe as [Hi Hr].
  cbn [map pid_run].
  generalize (pid_step_scaled k st st' i (scale_ev s i) Hk Hrel (ev_rel k s st i Hk Hs Hi) Hi).
  destruct (step st i) as [[a u]|] eqn:E1; destruct (step st' (scale_ev s i)) as [[a' u']|] eqn:E2;
    try contradiction; [|exact (fun x => x)].
  intros [Ha _]. apply IH; assumption.
Qed.

(* ---- from the initial state ---- *)
Definition scale_ok (sp : f32) (kk : @kvals f32) (h : list (out f32)) : bool :=
  safe sp && run_safe (@pid_init f32 NB sp kk) h.

Lemma init_rel (k : Z) (s sp : f32) (kk : @kvals f32) : krange k -> is_pow2 s k -> safe sp = true ->
  rel_st k (@pid_init f32 NB sp kk) (@pid_init f32 NB (b32_mul s sp) kk).
Proof.
  intros Hk Hs Hsp. unfold rel_st, pid_init. cbn [pid_sp pid_k pid_prev pid_int pid_out rel_opt rel_out].
  split; [apply pow2_scaled; assumption|]. split; [reflexivity|]. split; [exact I|].
  split; [|exact I]. change (@fzero f32 NB) with zero. apply zero_scaled.
Qed.

(* MAIN: every output of the scaled run is s times the corresponding output of the original run *)
Theorem pid_pow2_scaling (k : Z) (s sp : f32) (kk : @kvals f32) (h : list (out f32)) :
  krange k -> is_pow2 s k -> scale_ok sp kk h = true ->
  pid_outs (@pid_init f32 NB (@fmul f32 NB s sp) kk) (map (scale_ev s) h) =
  map (scale_ev s) (pid_outs (@pid_init f32 NB sp kk) h).
Proof.
  intros Hk Hs Hok. unfold scale_ok in Hok. apply andb_true_iff in Hok. destruct Hok as [Hsp Hr].
  apply (pid_outs_scaled k); try assumption. apply init_rel; assumption.
Qed.

(* [pid_outs] really lists what get() returns after each update of the run *)
Lemma last_cons {A : Type} (l : list A) : forall (x d : A), last (x :: l) d = last l x.
Proof.
  induction l as [|y l IH]; intros x d; [reflexivity|].
  change (last (x :: y :: l) d) with (last (y :: l) d). rewrite (IH y d), (IH y x). reflexivity.
Qed.

Lemma pid_outs_run (h : list (out f32)) : forall (st a : pid), @pid_run f32 NB c st h = Ok a ->
  length (pid_outs st h) = length h /\ last (pid_outs st h) (pid_get st) = pid_get a.
Proof.
  induction h as [|i r IH]; intros st a; cbn [pid_run pid_outs].
  - intros [= <-]. split; reflexivity.
  - destruct (step st i) as [[st1 u]|]; [|discriminate]. intros Hr.
    destruct (IH st1 a Hr) as [H1 H2]. split; [cbn [length]; rewrite H1; reflexivity|].
    rewrite last_cons. exact H2.
Qed.
End PidScale.

(* the statement at the [B32] instance of the development *)
Corollary C04_pow2_scaling_B32 (c : cfg) (k : Z) (s sp : f32) (kk : @kvals f32) (h : list (out f32)) :
  krange k -> is_pow2 s k -> scale_ok nil c sp kk h = true ->
  pid_outs nil c (@pid_init f32 B32 (@fmul f32 B32 s sp) kk) (map (scale_ev s) h) =
  map (scale_ev s) (pid_outs nil c (@pid_init f32 B32 sp kk) h).
Proof. exact (pid_pow2_scaling nil c k s sp kk h). Qed.

(* ================================================================== examples *)
Definition out_bits (o : out f32) : out Z :=
  match o with
  | OSome d => OSome (mkDatum (d_time d) (b32_to_bits (d_val d)))
  | ONone => ONone
  | OErr e => OErr e
  end.

Module Ex.
Definition fb := b32_of_bits.
Definition cfg0 : cfg := {| chk := true; stdf := true |}.
Definition sp0 : f32 := fb 1079194419.                                   (* 3.3 *)
Definition kk0 : @kvals f32 :=
  {| kp := fb 1067030938; ki := fb 1056964608; kd := fb 1008981770 |}.    (* 1.2, 0.5, 0.01 *)
(* samples 0.1 at t = 0, 1.7 at t = 20 ms, 2.9 at t = 45 ms *)
Definition h0 : list (out f32) :=
  [OSome (mkDatum 0 (fb 1036831949)); OSome (mkDatum 20000000 (fb 1071225242));
   OSome (mkDatum 45000000 (fb 1077516698))].
Definition s3 : f32 := pow2 3.
Definition run0 (sp : f32) (h : list (out f32)) := pid_outs nil cfg0 (@pid_init f32 B32 sp kk0) h.

Example s3_is_8 : b32_to_bits s3 = 1090519040 /\ is_pow2 s3 3 /\ krange 3.
Proof.
  split; [vm_compute; reflexivity|]. split; [apply pow2_is_pow2; lia|unfold krange; lia].
Qed.
(* the checker holds on this history *)
Example ex_checker : scale_ok nil cfg0 sp0 kk0 h0 = true.
Proof. vm_compute. reflexivity. Qed.
(* hence the theorem applies *)
Example ex_theorem : run0 (b32_mul s3 sp0) (map (scale_ev s3) h0) = map (scale_ev s3) (run0 sp0 h0).
Proof.
  apply (pid_pow2_scaling nil cfg0 3 s3 sp0 kk0 h0);
    [unfold krange; lia|apply pow2_is_pow2; lia|exact ex_checker].
Qed.
(* and, independently, by evaluation on bit patterns: the exponent field of every output grows by 3 *)
Example ex_bits :
  map out_bits (run0 sp0 h0) =
    [OSome (mkDatum 0 1081459344); OSome (mkDatum 20000000 1066561175); OSome (mkDatum 45000000 1024819416)] /\
  map out_bits (run0 (b32_mul s3 sp0) (map (scale_ev s3) h0)) =
    [OSome (mkDatum 0 1106625168); OSome (mkDatum 20000000 1091726999); OSome (mkDatum 45000000 1049985240)] /\
  map out_bits (map (scale_ev s3) (run0 sp0 h0)) =
    [OSome (mkDatum 0 1106625168); OSome (mkDatum 20000000 1091726999); OSome (mkDatum 45000000 1049985240)] /\
  1106625168 - 1081459344 = 3 * 8388608 /\ 1091726999 - 1066561175 = 3 * 8388608 /\
  1049985240 - 1024819416 = 3 * 8388608.
Proof. vm_compute. repeat split; reflexivity. Qed.

(* absent and errored events in the history, scaling down by 2^-5 *)
Definition h1 : list (out f32) :=
  [OSome (mkDatum 0 (fb 1036831949)); ONone; OSome (mkDatum 20000000 (fb 1071225242));
   OSome (mkDatum 45000000 (fb 1077516698)); OErr (Other 7); OSome (mkDatum 50000000 (fb 1077516698))].
Definition sm5 : f32 := pow2 (-5).
Example ex2_checker : scale_ok nil cfg0 sp0 kk0 h1 = true.
Proof. vm_compute. reflexivity. Qed.
Example ex2_bits :
  map out_bits (run0 sp0 h1) =
    [OSome (mkDatum 0 1081459344); ONone; OSome (mkDatum 20000000 1073070735);
     OSome (mkDatum 45000000 1011665952); OErr (Other 7); OSome (mkDatum 50000000 1056293514)] /\
  map out_bits (run0 (b32_mul sm5 sp0) (map (scale_ev sm5) h1)) =
    [OSome (mkDatum 0 1039516304); ONone; OSome (mkDatum 20000000 1031127695);
     OSome (mkDatum 45000000 969722912); OErr (Other 7); OSome (mkDatum 50000000 1014350474)] /\
  map out_bits (run0 (b32_mul sm5 sp0) (map (scale_ev sm5) h1)) =
  map out_bits (map (scale_ev sm5) (run0 sp0 h1)).
Proof. vm_compute. repeat split; reflexivity. Qed.

(* ---- the side conditions are needed ---- *)
(* (a) a subnormal operand: 2^-1 * (3 * 2^-149) is not representable, it rounds to 2 * 2^-149 *)
Example underflow_mul_not_exact :
  safe (fb 3) = false /\ b32_to_bits (b32_mul (pow2 (-1)) (fb 3)) = 2 /\
  b32_to_bits (b32_mul (pow2 1) (b32_mul (pow2 (-1)) (fb 3))) = 4.
Proof. vm_compute. repeat split; reflexivity. Qed.
(* (b) hence addition does not commute with the scaling there: 2 + 2 = 4 ulps against round(6 / 2) = 3 ulps *)
Example underflow_add_breaks :
  b32_to_bits (b32_add (b32_mul (pow2 (-1)) (fb 3)) (b32_mul (pow2 (-1)) (fb 3))) = 4 /\
  b32_to_bits (b32_mul (pow2 (-1)) (b32_add (fb 3) (fb 3))) = 3.
Proof. vm_compute. split; reflexivity. Qed.
(* (c) safe operands, product (1 + 2^-22) * 2^-126 normal but below the safe range, k = -2:
   the scaled product is subnormal and is rounded twice on one side, once on the other *)
Example unsafe_result_mul_breaks :
  let x := fb 536870913 in
  safe x = true /\ safe (b32_mul x x) = false /\
  b32_to_bits (b32_mul (b32_mul (pow2 (-2)) x) x) = 2097153 /\
  b32_to_bits (b32_mul (pow2 (-2)) (b32_mul x x)) = 2097152.
Proof. vm_compute. repeat split; reflexivity. Qed.
(* (d) normal operands 2^-75 outside the safe range: the product 2^-150 rounds to 0, the scaled one does not *)
Example underflow_to_zero_mul_breaks :
  let x := fb 436207616 in
  safe x = false /\ b32_to_bits (b32_mul (b32_mul (pow2 3) x) x) = 4 /\
  b32_to_bits (b32_mul (pow2 3) (b32_mul x x)) = 0.
Proof. vm_compute. repeat split; reflexivity. Qed.
(* (e) overflow: 2^127 + 2^127 is infinite, the halves add up to 2^127 *)
Example overflow_add_breaks :
  let x := pow2 127 in
  b32_to_bits (b32_add (b32_mul (pow2 (-1)) x) (b32_mul (pow2 (-1)) x)) = 2130706432 /\
  b32_to_bits (b32_mul (pow2 (-1)) (b32_add x x)) = 2139095040.
Proof. vm_compute. split; reflexivity. Qed.
(* (f) at the level of the controller: setpoint 3 ulps, sample 1 ulp, kp = 1, ki = kd = 0, k = -1:
   the checker rejects the run, and the scaled output (2 ulps) is not s times the original (1 ulp) *)
Example pid_underflow_breaks :
  let kk := {| kp := fb 1065353216; ki := fb 0; kd := fb 0 |} in
  let h := [OSome (mkDatum 0 (fb 1))] in
  let s := pow2 (-1) in
  scale_ok nil cfg0 (fb 3) kk h = false /\
  map out_bits (pid_outs nil cfg0 (@pid_init f32 B32 (b32_mul s (fb 3)) kk) (map (scale_ev s) h)) =
    [OSome (mkDatum 0 2)] /\
  map out_bits (map (scale_ev s) (pid_outs nil cfg0 (@pid_init f32 B32 (fb 3) kk) h)) =
    [OSome (mkDatum 0 1)].
Proof. vm_compute. repeat split; reflexivity. Qed.
End Ex.

(* ================================================================== assumptions *)
Print Assumptions rnd32_scale.
Print Assumptions safe_spec.
Print Assumptions pow2_is_pow2.
Print Assumptions fmul_pow2_exact.
Print Assumptions fadd_scale.
Print Assumptions fsub_scale.
Print Assumptions fmul_scale_l.
Print Assumptions fmul_scale_r.
Print Assumptions fdiv_scale.
Print Assumptions pid_step_scaled.
Print Assumptions pid_outs_scaled.
Print Assumptions pid_run_scaled.
Print Assumptions pid_pow2_scaling.
Print Assumptions pid_outs_run.
Print Assumptions C04_pow2_scaling_B32.
Print Assumptions Ex.ex_theorem.
Print Assumptions Ex.ex_bits.
Print Assumptions Ex.pid_underflow_breaks.
