(* C10 / C11 over whole runs.
   Part A (any numeric carrier): a run is the monadic fold of the step function over a list of events;
     the one-step refinement lemmas of CalcProofs / CpidProofs are lifted to runs of any length.
   Part S (any numeric carrier, any configuration, ANY event list and ANY state): adding a constant to
     every time stamp leaves every value unchanged and shifts the stored / output stamps.
   Part B (real-number carrier RR): the values after a run of n present samples are the textbook closed
     forms: trapezoid sums, backward difference quotients, their iterates, and the PID law on them. *)
From Coq Require Import ZArith Bool List Lia Reals Lra.
From RRTK Require Import Num.Num Num.RR Model.Values Model.Streams Proofs.ValuesProofs Proofs.CalcProofs Proofs.CpidProofs.
Import ListNotations.
Local Open Scope Z_scope.

(* ------------------------------------------------------------------ runs *)
Section Run.
Context {St In : Type}.
Variable step : St -> In -> res (St * upd).
(* the fold of [step] over the event list, oldest event first; a panic aborts the run *)
Fixpoint run (s : St) (l : list In) : res St :=
  match l with
  | [] => Ok s
  | i :: r => let! su := step s i in run (fst su) r
  end.
Lemma run_app s l1 l2 : run s (l1 ++ l2) = (let! s1 := run s l1 in run s1 l2).
Proof.
  revert s. induction l1 as [|i r IH]; intros s; [reflexivity|].
  cbn [app run]. destruct (step s i) as [su|]; cbn [bind]; [apply IH|reflexivity].
Qed.
End Run.

(* time stamps of a run, oldest first: every difference of consecutive stamps fits i64
   (the Rust subtraction [t2 - t1] panics otherwise in a debug build) *)
Definition gap_ok (tp : option Z) (t : Z) : Prop :=
  match tp with Some p => in_i64 (t - p) = true | None => True end.
Fixpoint gaps_from (tp : option Z) (ts : list Z) : Prop :=
  match ts with [] => True | t :: r => gap_ok tp t /\ gaps_from (Some t) r end.
Definition gaps_ok (ts : list Z) : Prop := gaps_from None ts.

(* ================================================================== Part A: generic carrier *)
Section Generic.
Context {F : Type} {NF : Num F}.
Notation smp := (Z * F)%type.
Notation quantity := (@quantity F).

Definition head_time (h : list smp) : option Z := match h with x :: _ => Some (fst x) | [] => None end.

(* lifting a one-sample refinement step (history newest first) to a whole run (events oldest first) *)
Lemma run_inv {St In X} (step : St -> In -> res (St * upd)) (inv : list smp -> St -> Prop)
      (ev : X -> In) (key : X -> smp) :
  (forall h s x, inv h s -> gap_ok (head_time h) (fst (key x)) ->
                 exists s', step s (ev x) = Ok (s', UOk) /\ inv (key x :: h) s') ->
  forall l h s, inv h s -> gaps_from (head_time h) (map (fun x => fst (key x)) l) ->
  exists s', run step s (map ev l) = Ok s' /\ inv (rev (map key l) ++ h) s'.
Proof.
  intros Hstep l. induction l as [|x r IH]; intros h s Hi Hg.
  - exists s. split; [reflexivity|exact Hi].
  - cbn [map gaps_from] in Hg. destruct Hg as [Hg1 Hg2].
    destruct (Hstep h s x Hi Hg1) as (s1 & E1 & I1).
    destruct (IH (key x :: h) s1 I1 Hg2) as (s' & E' & I').
    exists s'. split.
    + cbn [map run]. rewrite E1. cbn [bind fst]. exact E'.
    + cbn [map rev]. rewrite <- app_assoc. exact I'.
Qed.

Lemma gap_ok_head (h : list smp) t :
  gap_ok (head_time h) t -> match h with (tp, _) :: _ => in_i64 (t - tp) = true | [] => True end.
Proof. destruct h as [|[tp vp] r]; intros H; exact H. Qed.

Section Chk.
Variable sb : bool.
Notation c := (cfg_chk sb).

(* a present sample (time, raw value) of unit u *)
Definition qev (u : unit_) (x : smp) : out quantity := OSome (mkDatum (fst x) (qnew (snd x) u)).

Lemma integ_run u (l : list smp) s :
  integ_inv u [] s -> gaps_ok (map fst l) ->
  exists s', run (integ_step c) s (map (qev u) l) = Ok s' /\ integ_inv u (rev l) s'.
Proof.
  intros Hi Hg.
  assert (Hstep : forall h s0 (x : smp), integ_inv u h s0 -> gap_ok (head_time h) (fst ((fun y : smp => y) x)) ->
            exists s', integ_step c s0 (qev u x) = Ok (s', UOk) /\ integ_inv u ((fun y : smp => y) x :: h) s').
  { intros h s0 [t v] H0 G. exact (integ_sample_step sb u h s0 t v H0 (gap_ok_head h t G)). }
  destruct (run_inv (integ_step c) (integ_inv u) (qev u) (fun y : smp => y) Hstep l [] s Hi Hg) as (s' & E & I).
  exists s'. rewrite map_id, app_nil_r in I. split; [exact E|exact I].
Qed.
Lemma deriv_run u (l : list smp) s :
  deriv_inv u [] s -> gaps_ok (map fst l) ->
  exists s', run (deriv_step c) s (map (qev u) l) = Ok s' /\ deriv_inv u (rev l) s'.
Proof.
  intros Hi Hg.
  assert (Hstep : forall h s0 (x : smp), deriv_inv u h s0 -> gap_ok (head_time h) (fst ((fun y : smp => y) x)) ->
            exists s', deriv_step c s0 (qev u x) = Ok (s', UOk) /\ deriv_inv u ((fun y : smp => y) x :: h) s').
  { intros h s0 [t v] H0 G. exact (deriv_sample_step sb u h s0 t v H0 (gap_ok_head h t G)). }
  destruct (run_inv (deriv_step c) (deriv_inv u) (qev u) (fun y : smp => y) Hstep l [] s Hi Hg) as (s' & E & I).
  exists s'. rewrite map_id, app_nil_r in I. split; [exact E|exact I].
Qed.
Lemma a2s_run (l : list smp) :
  gaps_ok (map fst l) ->
  exists s', run (a2s_step c) None (map (qev UA) l) = Ok s' /\ a2s_inv (rev l) s'.
Proof.
  intros Hg.
  assert (Hstep : forall h s0 (x : smp), a2s_inv h s0 -> gap_ok (head_time h) (fst ((fun y : smp => y) x)) ->
            exists s', a2s_step c s0 (qev UA x) = Ok (s', UOk) /\ a2s_inv ((fun y : smp => y) x :: h) s').
  { intros h s0 [t v] H0 G. exact (a2s_sample_step sb h s0 t v H0 (gap_ok_head h t G)). }
  destruct (run_inv (a2s_step c) (a2s_inv) (qev UA) (fun y : smp => y) Hstep l [] None eq_refl Hg) as (s' & E & I).
  exists s'. rewrite map_id, app_nil_r in I. split; [exact E|exact I].
Qed.
Lemma v2s_run (l : list smp) :
  gaps_ok (map fst l) ->
  exists s', run (v2s_step c) None (map (qev UV) l) = Ok s' /\ v2s_inv (rev l) s'.
Proof.
  intros Hg.
  assert (Hstep : forall h s0 (x : smp), v2s_inv h s0 -> gap_ok (head_time h) (fst ((fun y : smp => y) x)) ->
            exists s', v2s_step c s0 (qev UV x) = Ok (s', UOk) /\ v2s_inv ((fun y : smp => y) x :: h) s').
  { intros h s0 [t v] H0 G. exact (v2s_sample_step sb h s0 t v H0 (gap_ok_head h t G)). }
  destruct (run_inv (v2s_step c) (v2s_inv) (qev UV) (fun y : smp => y) Hstep l [] None eq_refl Hg) as (s' & E & I).
  exists s'. rewrite map_id, app_nil_r in I. split; [exact E|exact I].
Qed.
Lemma p2s_run (l : list smp) :
  gaps_ok (map fst l) ->
  exists s', run (p2s_step c) None (map (qev UP) l) = Ok s' /\ p2s_inv (rev l) s'.
Proof.
  intros Hg.
  assert (Hstep : forall h s0 (x : smp), p2s_inv h s0 -> gap_ok (head_time h) (fst ((fun y : smp => y) x)) ->
            exists s', p2s_step c s0 (qev UP x) = Ok (s', UOk) /\ p2s_inv ((fun y : smp => y) x :: h) s').
  { intros h s0 [t v] H0 G. exact (p2s_sample_step sb h s0 t v H0 (gap_ok_head h t G)). }
  destruct (run_inv (p2s_step c) (p2s_inv) (qev UP) (fun y : smp => y) Hstep l [] None eq_refl Hg) as (s' & E & I).
  exists s'. rewrite map_id, app_nil_r in I. split; [exact E|exact I].
Qed.
End Chk.

(* CommandPID, any configuration, command fixed (nothing followed) *)
Section CpidRun.
Variable c : cfg.
Variable cmd : @command F.
Variable ks : @pdkvals F.
Definition cstep (s : cpid) (i : out (@state F)) : res (cpid * upd) := cpid_step c s None i.
Definition ckey (d : datum (@state F)) : smp := (d_time d, err_of c cmd d).
Definition cinv (h : list smp) (s : cpid) : Prop :=
  cp_cmd s = cmd /\ cp_k s = ks /\
  match st_of cmd ks h with
  | Some u0 => cp_st s = CSome u0
  | None => cp_st s = CNone \/ exists e, cp_st s = CErr e
  end.
Lemma cpid_run (l : list (datum (@state F))) s :
  cinv [] s -> gaps_ok (map d_time l) ->
  exists s', run cstep s (map OSome l) = Ok s' /\ cinv (rev (map ckey l)) s'.
Proof.
  intros Hi Hg.
  destruct (run_inv cstep cinv OSome ckey) with (l := l) (h := @nil smp) (s := s) as (s' & E & I).
  - intros h s0 d (Hc & Hk & Hst) G.
    destruct (cpid_sample_step c cmd ks s0 h d Hc Hk Hst (gap_ok_head h _ G)) as (s1 & E1 & Hc1 & Hk1 & _ & Hst1).
    exists s1. split; [exact E1|]. split; [exact Hc1|]. split; [exact Hk1|].
    fold (ckey d) in Hst1. destruct (st_of cmd ks (ckey d :: h)) as [u0|]; [exact Hst1|contradiction].
  - exact Hi.
  - exact Hg.
  - exists s'. rewrite app_nil_r in I. split; [exact E|exact I].
Qed.
End CpidRun.
End Generic.

(* ================================================================== the range hypothesis is exact *)
(* For samples of the right unit, [gaps_ok] is not only sufficient but necessary: the run panics as soon as
   one difference of consecutive stamps leaves i64. *)
Section Exact.
Context {F : Type} {NF : Num F}.
Notation smp := (Z * F)%type.

Lemma gap_ok_dec tp t : {gap_ok tp t} + {~ gap_ok tp t}.
Proof.
  destruct tp as [p|]; cbn [gap_ok]; [|left; exact I].
  destruct (in_i64 (t - p)); [left; reflexivity|right; discriminate].
Qed.
Lemma isub_panic t tp : in_i64 (t - tp) <> true -> isub t tp = Panic.
Proof. unfold isub, i64_ck. destruct (in_i64 (t - tp)); [intros H; exfalso; apply H; reflexivity|reflexivity]. Qed.

Lemma run_inv_conv {St In X} (step : St -> In -> res (St * upd)) (inv : list smp -> St -> Prop)
      (ev : X -> In) (key : X -> smp) :
  (forall h s x, inv h s -> gap_ok (head_time h) (fst (key x)) ->
                 exists s', step s (ev x) = Ok (s', UOk) /\ inv (key x :: h) s') ->
  (forall h s x, inv h s -> ~ gap_ok (head_time h) (fst (key x)) -> step s (ev x) = Panic) ->
  forall l h s, inv h s -> run step s (map ev l) <> Panic ->
  gaps_from (head_time h) (map (fun x => fst (key x)) l).
Proof.
  intros Hstep Hpan l. induction l as [|x r IH]; intros h s Hi Hr; [exact I|].
  cbn [map gaps_from]. cbn [map run] in Hr.
  destruct (gap_ok_dec (head_time h) (fst (key x))) as [G|G].
  - split; [exact G|]. destruct (Hstep h s x Hi G) as (s1 & E1 & I1).
    rewrite E1 in Hr. cbn [bind fst] in Hr. exact (IH (key x :: h) s1 I1 Hr).
  - exfalso. apply Hr. rewrite (Hpan h s x Hi G). reflexivity.
Qed.

Section ChkE.
Variable sb : bool.
Notation c := (cfg_chk sb).

Lemma integ_gap_panic u h s (x : smp) :
  integ_inv u h s -> ~ gap_ok (head_time h) (fst x) -> integ_step c s (qev u x) = Panic.
Proof.
  intros [Hp _] G. destruct x as [t v]. destruct h as [|[tp vp] r]; [exfalso; apply G; exact I|].
  cbn [head_time gap_ok fst] in G.
  unfold integ_step, qev. rewrite Hp. cbn [head_datum fst snd]. unfold dt_q. cbn [d_time].
  rewrite (isub_panic _ _ G). reflexivity.
Qed.
Lemma deriv_gap_panic u h s (x : smp) :
  deriv_inv u h s -> ~ gap_ok (head_time h) (fst x) -> deriv_step c s (qev u x) = Panic.
Proof.
  intros [Hp _] G. destruct x as [t v]. destruct h as [|[tp vp] r]; [exfalso; apply G; exact I|].
  cbn [head_time gap_ok fst] in G.
  unfold deriv_step, qev. rewrite Hp. cbn [head_datum fst snd]. unfold dt_q. cbn [d_time].
  rewrite (isub_panic _ _ G). reflexivity.
Qed.
Lemma a2s_gap_panic h s (x : smp) :
  a2s_inv h s -> ~ gap_ok (head_time h) (fst x) -> a2s_step c s (qev UA x) = Panic.
Proof.
  intros Hs G. destruct x as [t v]. destruct h as [|[tp vp] r]; [exfalso; apply G; exact I|]. cbn [a2s_inv] in Hs. subst s.
  cbn [head_time gap_ok fst] in G.
  unfold a2s_step, qev. cbn [d_time d_val qu qnew fst snd].
  change (assert_ok c UA (U_MM_S2 c)) with (@Ok unit tt). cbn [bind ts_time]. unfold dt_q.
  rewrite (isub_panic _ _ G). reflexivity.
Qed.
Lemma v2s_gap_panic h s (x : smp) :
  v2s_inv h s -> ~ gap_ok (head_time h) (fst x) -> v2s_step c s (qev UV x) = Panic.
Proof.
  intros Hs G. destruct x as [t v]. destruct h as [|[tp vp] r]; [exfalso; apply G; exact I|]. cbn [v2s_inv] in Hs. subst s.
  cbn [head_time gap_ok fst] in G.
  unfold v2s_step, qev. cbn [d_time d_val qu qnew fst snd].
  change (assert_ok c UV (U_MM_S c)) with (@Ok unit tt). cbn [bind ts_time]. unfold dt_q.
  rewrite (isub_panic _ _ G). reflexivity.
Qed.
Lemma p2s_gap_panic h s (x : smp) :
  p2s_inv h s -> ~ gap_ok (head_time h) (fst x) -> p2s_step c s (qev UP x) = Panic.
Proof.
  intros Hs G. destruct x as [t v]. destruct h as [|[tp vp] r]; [exfalso; apply G; exact I|]. cbn [p2s_inv] in Hs. subst s.
  cbn [head_time gap_ok fst] in G.
  unfold p2s_step, qev. cbn [d_time d_val qu qnew fst snd].
  change (assert_ok c UP (U_MM c)) with (@Ok unit tt). cbn [bind ts_time]. unfold dt_q.
  rewrite (isub_panic _ _ G). reflexivity.
Qed.

Theorem gaps_exact_C10 u (l : list smp) (si sd : @dint F) :
  integ_inv u [] si -> deriv_inv u [] sd ->
  (run (integ_step c) si (map (qev u) l) <> Panic <-> gaps_ok (map fst l)) /\
  (run (deriv_step c) sd (map (qev u) l) <> Panic <-> gaps_ok (map fst l)) /\
  (run (a2s_step c) None (map (qev UA) l) <> Panic <-> gaps_ok (map fst l)) /\
  (run (v2s_step c) None (map (qev UV) l) <> Panic <-> gaps_ok (map fst l)) /\
  (run (p2s_step c) None (map (qev UP) l) <> Panic <-> gaps_ok (map fst l)).
Proof.
  intros Hi Hd.
  repeat split.
  - intros H. rewrite <- (map_id l) at 1. rewrite map_map.
    apply (run_inv_conv (integ_step c) (integ_inv u) (qev u) (fun y : smp => y)) with (s := si) (h := @nil smp); try assumption.
    + intros h s0 [t v] H0 G. exact (integ_sample_step sb u h s0 t v H0 (gap_ok_head h t G)).
    + intros h s0 x. apply integ_gap_panic.
  - intros G. destruct (integ_run sb u l si Hi G) as (s' & E & _). rewrite E. discriminate.
  - intros H. rewrite <- (map_id l) at 1. rewrite map_map.
    apply (run_inv_conv (deriv_step c) (deriv_inv u) (qev u) (fun y : smp => y)) with (s := sd) (h := @nil smp); try assumption.
    + intros h s0 [t v] H0 G. exact (deriv_sample_step sb u h s0 t v H0 (gap_ok_head h t G)).
    + intros h s0 x. apply deriv_gap_panic.
  - intros G. destruct (deriv_run sb u l sd Hd G) as (s' & E & _). rewrite E. discriminate.
  - intros H. rewrite <- (map_id l) at 1. rewrite map_map.
    apply (run_inv_conv (a2s_step c) a2s_inv (qev UA) (fun y : smp => y)) with (s := @None ts0) (h := @nil smp); try assumption; try reflexivity.
    + intros h s0 [t v] H0 G. exact (a2s_sample_step sb h s0 t v H0 (gap_ok_head h t G)).
    + intros h s0 x. apply a2s_gap_panic.
  - intros G. destruct (a2s_run sb l G) as (s' & E & _). rewrite E. discriminate.
  - intros H. rewrite <- (map_id l) at 1. rewrite map_map.
    apply (run_inv_conv (v2s_step c) v2s_inv (qev UV) (fun y : smp => y)) with (s := @None ts0) (h := @nil smp); try assumption; try reflexivity.
    + intros h s0 [t v] H0 G. exact (v2s_sample_step sb h s0 t v H0 (gap_ok_head h t G)).
    + intros h s0 x. apply v2s_gap_panic.
  - intros G. destruct (v2s_run sb l G) as (s' & E & _). rewrite E. discriminate.
  - intros H. rewrite <- (map_id l) at 1. rewrite map_map.
    apply (run_inv_conv (p2s_step c) p2s_inv (qev UP) (fun y : smp => y)) with (s := @None ts0) (h := @nil smp); try assumption; try reflexivity.
    + intros h s0 [t v] H0 G. exact (p2s_sample_step sb h s0 t v H0 (gap_ok_head h t G)).
    + intros h s0 x. apply p2s_gap_panic.
  - intros G. destruct (p2s_run sb l G) as (s' & E & _). rewrite E. discriminate.
Qed.
End ChkE.

Theorem gaps_exact_C11 (c : cfg) (cmd : @command F) (ks : @pdkvals F) (l : list (datum (@state F))) (s : @cpid F) :
  cinv cmd ks [] s ->
  (run (cstep c) s (map OSome l) <> Panic <-> gaps_ok (map d_time l)).
Proof.
  intros Hi. split.
  - intros H.
    apply (run_inv_conv (cstep c) (cinv cmd ks) OSome (ckey c cmd)) with (s := s) (h := @nil smp); try assumption.
    + intros h s0 d (Hc & Hk & Hst) G.
      destruct (cpid_sample_step c cmd ks s0 h d Hc Hk Hst (gap_ok_head h _ G)) as (s1 & E1 & Hc1 & Hk1 & _ & Hst1).
      exists s1. split; [exact E1|]. split; [exact Hc1|]. split; [exact Hk1|].
      fold (ckey c cmd d) in Hst1. destruct (st_of cmd ks (ckey c cmd d :: h)) as [u0|]; [exact Hst1|contradiction].
    + intros h s0 d (Hc & Hk & Hst) G. destruct h as [|[tp ep] r]; [exfalso; apply G; exact I|].
      cbn [st_of] in Hst. unfold cstep, cpid_step. rewrite Hst. cbn [cu_time]. unfold dt_f.
      cbn [ckey fst head_time gap_ok] in G. rewrite (isub_panic _ _ G). reflexivity.
  - intros G. destruct (cpid_run c cmd ks l s Hi G) as (s' & E & _). rewrite E. discriminate.
Qed.
End Exact.

(* ================================================================== Part S: shift of time stamps *)
(* One-step simulation, valid for every state, every event (present, absent, error) and both
   configurations: the step on the shifted state and shifted event is the shifted step.  The model keeps
   time stamps in Z and only range-checks the DIFFERENCE, which a common shift does not change; in Rust
   the shifted stamps must themselves be i64 values (hypothesis on the caller's data, not on the model). *)
Definition map_res {A B} (f : A -> B) (r : res A) : res B := match r with Ok a => Ok (f a) | Panic => Panic end.
Definition sh_res {A} (f : A -> A) (r : res (A * upd)) : res (A * upd) := map_res (fun au => (f (fst au), snd au)) r.

Lemma run_sim {St In} (step : St -> In -> res (St * upd)) (f : St -> St) (g : In -> In) :
  (forall s i, step (f s) (g i) = sh_res f (step s i)) ->
  forall l s, run step (f s) (map g l) = map_res f (run step s l).
Proof.
  intros H l. induction l as [|i r IH]; intros s; [reflexivity|].
  cbn [map run]. rewrite H. destruct (step s i) as [[s1 u1]|]; cbn [sh_res map_res bind fst snd]; [apply IH|reflexivity].
Qed.

Section Shift.
Context {F : Type} {NF : Num F}.
Variable c : cfg.
Variable k : Z.
Notation quantity := (@quantity F).

Definition sh_datum {T} (d : datum T) : datum T := mkDatum (d_time d + k) (d_val d).
Definition sh_out {T} (o : out T) : out T := match o with OSome d => OSome (sh_datum d) | y => y end.

Lemma isub_shift t tp : isub (t + k) (tp + k) = isub t tp.
Proof. unfold isub. replace (t + k - (tp + k)) with (t - tp) by lia. reflexivity. Qed.
Lemma dt_q_shift t tp : @dt_q F NF c (t + k) (tp + k) = dt_q c t tp.
Proof. unfold dt_q. rewrite isub_shift. reflexivity. Qed.
Lemma dt_f_shift t tp : @dt_f F NF c (t + k) (tp + k) = dt_f c t tp.
Proof. unfold dt_f. rewrite isub_shift. reflexivity. Qed.

(* ---- IntegralStream / DerivativeStream ---- *)
Definition sh_dint (s : @dint F) : @dint F :=
  {| di_val := sh_out (di_val s); di_prev := option_map sh_datum (di_prev s) |}.
Lemma sh_clear_err {T} (o : out T) : clear_err (sh_out o) = sh_out (clear_err o).
Proof. destruct o; reflexivity. Qed.

Theorem integ_step_shift (s : @dint F) (i : out quantity) :
  integ_step c (sh_dint s) (sh_out i) = sh_res sh_dint (integ_step c s i).
Proof.
  destruct i as [e| |o]; try reflexivity.
  destruct s as [v [p|]]; cbn [integ_step sh_out sh_dint di_prev di_val option_map sh_datum d_time d_val].
  - rewrite dt_q_shift. destruct (dt_q c (d_time o) (d_time p)) as [dq|]; cbn [bind]; [|reflexivity].
    destruct (qadd c (d_val p) (d_val o)) as [sm|]; cbn [bind]; [|reflexivity].
    destruct v as [e| |real]; cbn [sh_out sh_datum d_val bind]; try reflexivity.
    destruct (qadd c _ (d_val real)) as [x|]; reflexivity.
  - rewrite sh_clear_err. reflexivity.
Qed.
Theorem deriv_step_shift (s : @dint F) (i : out quantity) :
  deriv_step c (sh_dint s) (sh_out i) = sh_res sh_dint (deriv_step c s i).
Proof.
  destruct i as [e| |o]; try reflexivity.
  destruct s as [v [p|]]; cbn [deriv_step sh_out sh_dint di_prev di_val option_map sh_datum d_time d_val].
  - rewrite dt_q_shift. destruct (dt_q c (d_time o) (d_time p)) as [dq|]; cbn [bind]; [|reflexivity].
    destruct (qsub c (d_val o) (d_val p)) as [df|]; reflexivity.
  - rewrite sh_clear_err. reflexivity.
Qed.
Theorem dint_get_shift (s : @dint F) : dint_get (sh_dint s) = sh_out (dint_get s).
Proof. reflexivity. Qed.

(* ---- to-state converters ---- *)
Definition sh_ts (s : @tstate F) : @tstate F :=
  option_map (fun u0 => {| ts_time := ts_time u0 + k; ts_a := ts_a u0; ts_u1 := ts_u1 u0 |}) s.

Theorem a2s_step_shift (s : @tstate F) (i : out quantity) :
  a2s_step c (sh_ts s) (sh_out i) = sh_res sh_ts (a2s_step c s i).
Proof.
  destruct i as [e| |d]; try reflexivity.
  cbn [a2s_step sh_out sh_datum d_time d_val].
  destruct (assert_ok c (qu (d_val d)) (U_MM_S2 c)) as [x|]; cbn [bind]; [|reflexivity].
  destruct s as [u0|]; cbn [sh_ts option_map ts_time ts_a ts_u1]; [|reflexivity].
  rewrite dt_q_shift. destruct (dt_q c (d_time d) (ts_time u0)) as [dq|]; cbn [bind]; [|reflexivity].
  destruct (half_sum_dt c (ts_a u0) (d_val d) dq) as [va|]; cbn [bind]; [|reflexivity].
  destruct (ts_u1 u0) as [u1|]; [|reflexivity].
  destruct (qadd c (ts_b u1) va) as [nv|]; cbn [bind]; [|reflexivity].
  destruct (half_sum_dt c (ts_b u1) nv dq) as [pa|]; cbn [bind]; [|reflexivity].
  destruct (match ts_c u1 with Some op => qadd c op pa | None => Ok pa end) as [np|]; reflexivity.
Qed.
Theorem v2s_step_shift (s : @tstate F) (i : out quantity) :
  v2s_step c (sh_ts s) (sh_out i) = sh_res sh_ts (v2s_step c s i).
Proof.
  destruct i as [e| |d]; try reflexivity.
  cbn [v2s_step sh_out sh_datum d_time d_val].
  destruct (assert_ok c (qu (d_val d)) (U_MM_S c)) as [x|]; cbn [bind]; [|reflexivity].
  destruct s as [u0|]; cbn [sh_ts option_map ts_time ts_a ts_u1]; [|reflexivity].
  rewrite dt_q_shift. destruct (dt_q c (d_time d) (ts_time u0)) as [dq|]; cbn [bind]; [|reflexivity].
  destruct (qsub c (d_val d) (ts_a u0)) as [dv|]; cbn [bind]; [|reflexivity].
  destruct (half_sum_dt c (ts_a u0) (d_val d) dq) as [pa|]; cbn [bind]; [|reflexivity].
  destruct (match ts_u1 u0 with
            | Some u1 => match ts_c u1 with Some op => qadd c op pa | None => Ok pa end
            | None => Ok pa end) as [np|]; reflexivity.
Qed.
Theorem p2s_step_shift (s : @tstate F) (i : out quantity) :
  p2s_step c (sh_ts s) (sh_out i) = sh_res sh_ts (p2s_step c s i).
Proof.
  destruct i as [e| |d]; try reflexivity.
  cbn [p2s_step sh_out sh_datum d_time d_val].
  destruct (assert_ok c (qu (d_val d)) (U_MM c)) as [x|]; cbn [bind]; [|reflexivity].
  destruct s as [u0|]; cbn [sh_ts option_map ts_time ts_a ts_u1]; [|reflexivity].
  rewrite dt_q_shift. destruct (dt_q c (d_time d) (ts_time u0)) as [dq|]; cbn [bind]; [|reflexivity].
  destruct (qsub c (d_val d) (ts_a u0)) as [dp|]; cbn [bind]; [|reflexivity].
  destruct (ts_u1 u0) as [u1|]; [|reflexivity].
  destruct (qsub c (qdiv c dp dq) (ts_b u1)) as [dv|]; reflexivity.
Qed.
Theorem tostate_get_shift (s : @tstate F) :
  a2s_get c (sh_ts s) = map_res sh_out (a2s_get c s) /\
  v2s_get c (sh_ts s) = map_res sh_out (v2s_get c s) /\
  p2s_get c (sh_ts s) = map_res sh_out (p2s_get c s).
Proof.
  unfold a2s_get, v2s_get, p2s_get.
  destruct s as [u0|]; cbn [sh_ts option_map ts_time ts_a ts_u1]; [|repeat split].
  destruct (ts_u1 u0) as [u1|]; [|repeat split].
  destruct (ts_c u1) as [x|]; [|repeat split].
  split; [|split]; (destruct (snew c _ _ _) as [st|]; reflexivity).
Qed.

(* ---- CommandPID (state samples shifted; commands carry no time that is used) ---- *)
Definition sh_cust (st : @cust F) : @cust F :=
  match st with
  | CSome u => CSome {| cu_time := cu_time u + k; cu_output := cu_output u; cu_error := cu_error u; cu_u1 := cu_u1 u |}
  | x => x
  end.
Definition sh_cpid (s : @cpid F) : @cpid F := cpid_with_st s (sh_cust (cp_st s)).
Lemma sh_cpid_set s x : cpid_set (sh_cpid s) x = sh_cpid (cpid_set s x).
Proof. unfold cpid_set, sh_cpid, cpid_with_st. cbn [cp_cmd cp_k cp_st cp_last]. destruct (negb _); reflexivity. Qed.
Theorem cpid_step_shift (s : @cpid F) follow (i : out (@state F)) :
  cpid_step c (sh_cpid s) follow (sh_out i) = sh_res sh_cpid (cpid_step c s follow i).
Proof.
  assert (H : forall s0, cpid_step c (sh_cpid s0) None (sh_out i) = sh_res sh_cpid (cpid_step c s0 None i)).
  { intros s0. destruct i as [e| |d]; try reflexivity.
    cbn [cpid_step sh_out sh_datum d_time d_val]. unfold sh_cpid at 1 2 3 4. cbn [cpid_with_st cp_cmd cp_k cp_st].
    destruct (cp_st s0) as [e| |u0]; cbn [sh_cust]; try reflexivity.
    cbn [cu_time cu_error cu_output cu_u1]. rewrite dt_f_shift.
    destruct (dt_f c (d_time d) (cu_time u0)) as [dt|]; cbn [bind]; [|reflexivity].
    destruct (cu_u1 u0) as [u1|]; reflexivity. }
  destruct follow as [[e| |d]|]; cbn [cpid_step]; try apply H.
  - reflexivity.
  - change (cpid_step c (cpid_set (sh_cpid s) (d_val d)) None (sh_out i) = sh_res sh_cpid (cpid_step c (cpid_set s (d_val d)) None i)).
    rewrite sh_cpid_set. apply H.
Qed.
Theorem cpid_get_shift (s : @cpid F) : cpid_get (sh_cpid s) = sh_out (cpid_get s).
Proof.
  unfold cpid_get, sh_cpid. cbn [cpid_with_st cp_st cp_cmd].
  destruct (cp_st s) as [e| |u0]; cbn [sh_cust]; try reflexivity.
  cbn [cu_time cu_output cu_u1]. destruct (c_kind (cp_cmd s)); try reflexivity.
  - destruct (cu_u1 u0) as [u1|]; reflexivity.
  - destruct (cu_u1 u0) as [u1|]; [|reflexivity]. destruct (cu_out_int_int u1); reflexivity.
Qed.

(* ---- whole runs, arbitrary event lists (present / absent / error interleaved), arbitrary start ---- *)
Theorem C10_shift_runs (sd : @dint F) (st : @tstate F) (l : list (out quantity)) :
  run (integ_step c) (sh_dint sd) (map sh_out l) = map_res sh_dint (run (integ_step c) sd l) /\
  run (deriv_step c) (sh_dint sd) (map sh_out l) = map_res sh_dint (run (deriv_step c) sd l) /\
  run (a2s_step c) (sh_ts st) (map sh_out l) = map_res sh_ts (run (a2s_step c) st l) /\
  run (v2s_step c) (sh_ts st) (map sh_out l) = map_res sh_ts (run (v2s_step c) st l) /\
  run (p2s_step c) (sh_ts st) (map sh_out l) = map_res sh_ts (run (p2s_step c) st l).
Proof.
  repeat split.
  - apply (run_sim (integ_step c) sh_dint sh_out integ_step_shift).
  - apply (run_sim (deriv_step c) sh_dint sh_out deriv_step_shift).
  - apply (run_sim (a2s_step c) sh_ts sh_out a2s_step_shift).
  - apply (run_sim (v2s_step c) sh_ts sh_out v2s_step_shift).
  - apply (run_sim (p2s_step c) sh_ts sh_out p2s_step_shift).
Qed.
(* fresh states are their own shifts, so the runs of the theorem may start "at construction" *)
Lemma sh_fresh : sh_dint dint_init = dint_init /\ sh_ts None = None.
Proof. split; reflexivity. Qed.
Theorem C11_shift_runs (s : @cpid F) (l : list (option (out (@command F)) * out (@state F))) :
  run (fun s0 fi => cpid_step c s0 (fst fi) (snd fi)) (sh_cpid s) (map (fun fi => (fst fi, sh_out (snd fi))) l)
  = map_res sh_cpid (run (fun s0 fi => cpid_step c s0 (fst fi) (snd fi)) s l).
Proof.
  apply (run_sim (fun s0 fi => cpid_step c s0 (fst fi) (snd fi)) sh_cpid (fun fi => (fst fi, sh_out (snd fi)))).
  intros s0 [fo i]. cbn [fst snd]. apply cpid_step_shift.
Qed.
End Shift.

(* ================================================================== Part B: closed forms on the reals *)
(* ------------------------------------------------------------------ pure list / real arithmetic *)
Section Lists.
Context {A : Type}.
Local Open Scope R_scope.

(* sum of f over consecutive pairs; [psum] reads the list oldest first, [psum_nf] newest first *)
Fixpoint psum_from (f : A -> A -> R) (p : A) (l : list A) : R :=
  match l with [] => 0 | q :: r => f p q + psum_from f q r end.
Definition psum (f : A -> A -> R) (l : list A) : R :=
  match l with [] => 0 | p :: r => psum_from f p r end.
Fixpoint psum_nf (f : A -> A -> R) (h : list A) : R :=
  match h with
  | q :: r => match r with p :: _ => psum_nf f r + f p q | [] => 0 end
  | [] => 0
  end.
Lemma psum_snoc2 f l p q : psum f (l ++ [p; q]) = psum f (l ++ [p]) + f p q.
Proof.
  destruct l as [|x l]; cbn [app psum psum_from]; [ring|].
  revert x. induction l as [|y l IH]; intros x; cbn [app psum_from]; [ring|]. rewrite IH. ring.
Qed.
Lemma psum_rev f h : psum f (rev h) = psum_nf f h.
Proof.
  induction h as [|q r IH]; [reflexivity|]. destruct r as [|p r']; [reflexivity|].
  cbn [psum_nf]. cbn [rev] in *. rewrite <- app_assoc. cbn [app]. rewrite psum_snoc2, IH. reflexivity.
Qed.

(* a function of the last two elements (older, newer); default d when there are fewer than two *)
Definition last2 {B} (f : A -> A -> B) (d : B) (l : list A) : B :=
  match rev l with q :: p :: _ => f p q | _ => d end.
Lemma last2_snoc2 {B} (f : A -> A -> B) d l p q : last2 f d (l ++ [p; q]) = f p q.
Proof. unfold last2. rewrite rev_app_distr. reflexivity. Qed.
Lemma last2_rev {B} (f : A -> A -> B) d h : last2 f d (rev h) = match h with q :: p :: _ => f p q | _ => d end.
Proof. unfold last2. rewrite rev_involutive. reflexivity. Qed.

(* non-empty prefixes, shortest first;  non-empty suffixes, longest first *)
Fixpoint prefixes (l : list A) : list (list A) :=
  match l with [] => [] | x :: r => [x] :: map (cons x) (prefixes r) end.
Fixpoint tails (h : list A) : list (list A) :=
  match h with [] => [] | _ :: r => h :: tails r end.
Lemma prefixes_length l : length (prefixes l) = length l.
Proof. induction l as [|x r IH]; [reflexivity|]. cbn [prefixes length]. rewrite map_length, IH. reflexivity. Qed.
Lemma prefixes_nth l i : (i < length l)%nat -> nth i (prefixes l) [] = firstn (S i) l.
Proof.
  revert i. induction l as [|x r IH]; intros i Hi; [cbn in Hi; lia|].
  destruct i as [|i]; [reflexivity|]. cbn [length] in Hi. cbn [prefixes nth].
  rewrite (nth_indep _ [] (x :: [])) by (rewrite map_length, prefixes_length; lia).
  rewrite map_nth, IH by lia. reflexivity.
Qed.
Lemma prefixes_snoc l a : prefixes (l ++ [a]) = prefixes l ++ [l ++ [a]].
Proof.
  induction l as [|x r IH]; [reflexivity|]. cbn [app prefixes]. rewrite IH, map_app. reflexivity.
Qed.
Lemma prefixes_rev h : prefixes (rev h) = rev (map (@rev A) (tails h)).
Proof.
  induction h as [|a r IH]; [reflexivity|]. cbn [rev tails map]. rewrite prefixes_snoc, IH. reflexivity.
Qed.
Lemma tl_rev {B} (X : list B) : tl (rev X) = rev (removelast X).
Proof.
  destruct X as [|a Y] using rev_ind; [reflexivity|].
  rewrite rev_app_distr, removelast_last. reflexivity.
Qed.
End Lists.

Section RealForms.
Local Open Scope R_scope.
Notation smp := (Z * R)%type.

(* seconds between two stamps, exactly as the model converts: (t - tp) as f / 1e9 *)
Definition dsec (t tp : Z) : R := IZR (t - tp) / 1000000000.
(* one trapezoid between an older sample p and a newer q;  one backward difference quotient *)
Definition area (p q : smp) : R := dsec (fst q) (fst p) * (snd p + snd q) / 2.
Definition quot (p q : smp) : R := (snd q - snd p) / dsec (fst q) (fst p).

(* ---- the closed forms, on the run of samples in chronological order (oldest first) ---- *)
(* sum_{i=1}^{n-1} (t_{i+1} - t_i)/1e9 * (x_i + x_{i+1}) / 2 *)
Definition trapsum (l : list smp) : R := psum area l.
(* (x_n - x_{n-1}) / ((t_n - t_{n-1})/1e9) *)
Definition dquot (l : list smp) : R := last2 quot 0 l.
Definition lastgap (l : list smp) : R := last2 (fun p q => dsec (fst q) (fst p)) 0 l.
Definition ltime (l : list smp) : Z := fst (last l (0%Z, 0)).
Definition lval (l : list smp) : R := snd (last l (0%Z, 0)).
(* the series (t_i, g [s_1 .. s_i]) for i = 1 .. n *)
Definition serc (g : list smp -> R) (l : list smp) : list smp :=
  map (fun pre => (ltime pre, g pre)) (prefixes l).
(* double trapezoid sum: the trapezoid sum of the running trapezoid sums I_2 .. I_n, where
   I_i = trapsum [s_1 .. s_i] (the first integral exists from the second sample on) *)
Definition trapsum2 (l : list smp) : R := trapsum (tl (serc trapsum l)).
(* second difference quotient: (D_n - D_{n-1}) / dt_n *)
Definition dquot2 (l : list smp) : R := (dquot l - dquot (removelast l)) / lastgap l.

(* the same, read newest first (the shape of the recurrences in CalcProofs / CpidProofs) *)
Definition stime (h : list smp) : Z := match h with x :: _ => fst x | [] => 0%Z end.
Definition ser (g : list smp -> R) (h : list smp) : list smp := map (fun x => (stime x, g x)) (tails h).
Fixpoint ser2 (g : list smp -> R) (h : list smp) : list smp :=
  match h with
  | [] => []
  | _ :: r => match r with [] => [] | _ :: _ => (stime h, g h) :: ser2 g r end
  end.
Lemma ser2_removelast g h : ser2 g h = removelast (ser g h).
Proof.
  induction h as [|a r IH]; [reflexivity|]. destruct r as [|b r']; [reflexivity|].
  change (ser2 g (a :: b :: r')) with ((stime (a :: b :: r'), g (a :: b :: r')) :: ser2 g (b :: r')).
  rewrite IH. reflexivity.
Qed.
Lemma ltime_rev x : ltime (rev x) = stime x.
Proof. destruct x as [|a r]; [reflexivity|]. unfold ltime. cbn [rev]. rewrite last_last. reflexivity. Qed.
Lemma lval_rev x : lval (rev x) = match x with a :: _ => snd a | [] => 0 end.
Proof. destruct x as [|a r]; [reflexivity|]. unfold lval. cbn [rev]. rewrite last_last. reflexivity. Qed.
Lemma serc_rev g g' h : (forall x, g' (rev x) = g x) -> serc g' (rev h) = rev (ser g h).
Proof.
  intros Hg. unfold serc, ser. rewrite prefixes_rev, map_rev, map_map. f_equal.
  apply map_ext. intros x. rewrite ltime_rev, Hg. reflexivity.
Qed.
Lemma serc2_rev g g' h : (forall x, g' (rev x) = g x) -> tl (serc g' (rev h)) = rev (ser2 g h).
Proof. intros Hg. rewrite (serc_rev g g' h Hg), tl_rev, ser2_removelast. reflexivity. Qed.
Lemma trapsum_rev h : trapsum (rev h) = psum_nf area h.
Proof. apply psum_rev. Qed.
(* what the series are, element by element *)
Lemma serc_length g l : length (serc g l) = length l.
Proof. unfold serc. rewrite map_length. apply prefixes_length. Qed.
Lemma serc_nth g l i : (i < length l)%nat ->
  nth i (serc g l) (0%Z, 0) = (ltime (firstn (S i) l), g (firstn (S i) l)).
Proof.
  intros Hi. unfold serc. set (fn := fun pre : list smp => (ltime pre, g pre)).
  rewrite (nth_indep _ (0%Z, 0) (fn [])) by (rewrite map_length, prefixes_length; exact Hi).
  rewrite map_nth, prefixes_nth by exact Hi. reflexivity.
Qed.
End RealForms.

(* ------------------------------------------------------------------ the model's recurrences are these forms *)
Ltac rr := unfold CalcProofs.trapz, CalcProofs.half, CalcProofs.dtf, CpidProofs.half, CpidProofs.dtf,
                  ftwo, fzero, f1e9 in *; cbn [fadd fsub fmul fdiv f_of_Z RR] in *.

Section ModelForms.
Local Open Scope R_scope.
Notation smp := (Z * R)%type.

Lemma psum_nf_cons2 (f : smp -> smp -> R) q p r : psum_nf f (q :: p :: r) = psum_nf f (p :: r) + f p q.
Proof. reflexivity. Qed.

(* ---- newest first ---- *)
Lemma Iv_nf (h : list smp) : CalcProofs.Iv h = psum_nf area h.
Proof.
  induction h as [|[t v] r IH]; [reflexivity|]. destruct r as [|[tp vp] r']; [reflexivity|].
  rewrite psum_nf_cons2, <- IH. destruct r' as [|x r''].
  - cbn [CalcProofs.Iv]. unfold area, dsec. cbn [fst snd]. rr. unfold Rdiv. ring.
  - change (CalcProofs.Iv ((t, v) :: (tp, vp) :: x :: r''))
      with (fadd (CalcProofs.trapz vp v (CalcProofs.dtf t tp)) (CalcProofs.Iv ((tp, vp) :: x :: r''))).
    set (I0 := CalcProofs.Iv ((tp, vp) :: x :: r'')). unfold area, dsec. cbn [fst snd]. rr. unfold Rdiv. ring.
Qed.
Lemma V1_nf (h : list smp) : CalcProofs.V1 h = psum_nf area h.
Proof.
  induction h as [|[t v] r IH]; [reflexivity|]. destruct r as [|[tp vp] r']; [reflexivity|].
  rewrite psum_nf_cons2, <- IH. destruct r' as [|x r''].
  - cbn [CalcProofs.V1]. unfold area, dsec. cbn [fst snd]. rr. unfold Rdiv. ring.
  - change (CalcProofs.V1 ((t, v) :: (tp, vp) :: x :: r''))
      with (fadd (CalcProofs.V1 ((tp, vp) :: x :: r'')) (CalcProofs.half vp v (CalcProofs.dtf t tp))).
    set (I0 := CalcProofs.V1 ((tp, vp) :: x :: r'')). unfold area, dsec. cbn [fst snd]. rr. unfold Rdiv. ring.
Qed.
Lemma Dv_nf (h : list smp) : CalcProofs.Dv h = match h with q :: p :: _ => quot p q | _ => 0 end.
Proof. destruct h as [|[t v] [|[tp vp] r]]; reflexivity. Qed.
Lemma P2_nf (h : list smp) : CalcProofs.P2 h = psum_nf area (ser2 (psum_nf area) h).
Proof.
  induction h as [|[t a] r IH]; [reflexivity|]. destruct r as [|[tp ap] r']; [reflexivity|].
  destruct r' as [|x r'']; [reflexivity|].
  change (ser2 (psum_nf area) ((t, a) :: (tp, ap) :: x :: r''))
    with ((t, psum_nf area ((t, a) :: (tp, ap) :: x :: r'')) :: ser2 (psum_nf area) ((tp, ap) :: x :: r'')).
  destruct r'' as [|y r3].
  - cbn [CalcProofs.P2 ser2 stime fst]. rewrite psum_nf_cons2, !V1_nf.
    set (A1 := psum_nf area [(tp, ap); x]). set (A2 := psum_nf area [(t, a); (tp, ap); x]).
    change (psum_nf area [(tp, A1)]) with 0.
    unfold area, dsec. cbn [fst snd]. rr. unfold Rdiv. ring.
  - change (CalcProofs.P2 ((t, a) :: (tp, ap) :: x :: y :: r3))
      with (fadd (CalcProofs.P2 ((tp, ap) :: x :: y :: r3))
                 (CalcProofs.half (CalcProofs.V1 ((tp, ap) :: x :: y :: r3)) (CalcProofs.V1 ((t, a) :: (tp, ap) :: x :: y :: r3))
                                  (CalcProofs.dtf t tp))).
    rewrite IH, !V1_nf.
    change (ser2 (psum_nf area) ((tp, ap) :: x :: y :: r3))
      with ((tp, psum_nf area ((tp, ap) :: x :: y :: r3)) :: ser2 (psum_nf area) (x :: y :: r3)).
    set (A1 := psum_nf area ((tp, ap) :: x :: y :: r3)). set (A2 := psum_nf area ((t, a) :: (tp, ap) :: x :: y :: r3)).
    rewrite (psum_nf_cons2 area (t, A2) (tp, A1)).
    set (P0 := psum_nf area ((tp, A1) :: ser2 (psum_nf area) (x :: y :: r3))).
    unfold area, dsec. cbn [fst snd]. rr. unfold Rdiv. ring.
Qed.
Lemma D2_nf (h : list smp) :
  CalcProofs.D2 h = match h with
                    | q :: ((p :: _) as r) => (CalcProofs.Dv h - CalcProofs.Dv r) / dsec (fst q) (fst p)
                    | _ => 0 end.
Proof. destruct h as [|[t v] [|[tp vp] r]]; reflexivity. Qed.

(* ---- chronological: the run is [l], the recurrences were computed on [rev l] ---- *)
Lemma Iv_chron (l : list smp) : CalcProofs.Iv (rev l) = trapsum l.
Proof. rewrite Iv_nf, <- trapsum_rev, rev_involutive. reflexivity. Qed.
Lemma V1_chron (l : list smp) : CalcProofs.V1 (rev l) = trapsum l.
Proof. rewrite V1_nf, <- trapsum_rev, rev_involutive. reflexivity. Qed.
Lemma Dv_chron (l : list smp) : CalcProofs.Dv (rev l) = dquot l.
Proof. rewrite Dv_nf. unfold dquot. rewrite <- (last2_rev quot 0 (rev l)), rev_involutive. reflexivity. Qed.
Lemma P2_chron (l : list smp) : CalcProofs.P2 (rev l) = trapsum2 l.
Proof.
  rewrite P2_nf. unfold trapsum2. rewrite <- (rev_involutive l) at 2.
  rewrite (serc2_rev (psum_nf area) trapsum (rev l) trapsum_rev), trapsum_rev. reflexivity.
Qed.
Lemma D2_chron (l : list smp) : CalcProofs.D2 (rev l) = dquot2 l.
Proof.
  rewrite <- (rev_involutive l) at 2. generalize (rev l) as h. intros h. rewrite D2_nf. unfold dquot2.
  destruct h as [|q [|p r]].
  - cbn. unfold Rdiv. ring.
  - cbn. unfold Rdiv. ring.
  - unfold lastgap. rewrite last2_rev. rewrite <- (Dv_chron (rev (q :: p :: r))), rev_involutive.
    cbn [rev]. rewrite removelast_last. change (rev r ++ [p]) with (rev (p :: r)).
    rewrite <- (Dv_chron (rev (p :: r))), rev_involutive. reflexivity.
Qed.
End ModelForms.

(* ------------------------------------------------------------------ C10: the streams over a whole run *)
Section C10Real.
Local Open Scope R_scope.
Notation smp := (Z * R)%type.
Variable sb : bool.
Notation c := (cfg_chk sb).

Lemma ltime_stime (l : list smp) : ltime l = stime (rev l).
Proof. rewrite <- ltime_rev, rev_involutive. reflexivity. Qed.
Lemma lval_shead (l : list smp) : lval l = match rev l with a :: _ => snd a | [] => 0 end.
Proof. rewrite <- lval_rev, rev_involutive. reflexivity. Qed.

(* IntegralStream: n >= 1 present samples (t_i, x_i) of unit u, from a fresh or freshly reset state
   ([integ_inv u []]: nothing remembered, cached output absent or an error).  The run does not panic and
   the output is absent for n = 1, else the trapezoid sum, stamped t_n, in unit u * s. *)
Theorem integral_closed_form u (l : list smp) (s : @dint R) :
  integ_inv u [] s -> l <> [] -> gaps_ok (map fst l) ->
  exists s', run (integ_step c) s (map (qev u) l) = Ok s' /\
    dint_get s' = if (2 <=? length l)%nat
                  then OSome (mkDatum (ltime l) (qnew (trapsum l) (ustep u)))
                  else ONone.
Proof.
  intros Hi Hne Hg. destruct (integ_run sb u l s Hi Hg) as (s' & E & [_ I]).
  exists s'. split; [exact E|]. unfold dint_get.
  rewrite <- Iv_chron, ltime_stime, <- (rev_length l).
  assert (Hne' : rev l <> []) by (intros H0; apply Hne; rewrite <- (rev_involutive l), H0; reflexivity).
  destruct (rev l) as [|[t v] [|y r]]; [contradiction|exact I|exact I].
Qed.
(* DerivativeStream: absent for n = 1, else the backward difference quotient of the last two samples *)
Theorem derivative_closed_form u (l : list smp) (s : @dint R) :
  deriv_inv u [] s -> l <> [] -> gaps_ok (map fst l) ->
  exists s', run (deriv_step c) s (map (qev u) l) = Ok s' /\
    dint_get s' = if (2 <=? length l)%nat
                  then OSome (mkDatum (ltime l) (qnew (dquot l) (uquot u)))
                  else ONone.
Proof.
  intros Hi Hne Hg. destruct (deriv_run sb u l s Hi Hg) as (s' & E & [_ I]).
  exists s'. split; [exact E|]. unfold dint_get.
  rewrite <- Dv_chron, ltime_stime, <- (rev_length l).
  assert (Hne' : rev l <> []) by (intros H0; apply Hne; rewrite <- (rev_involutive l), H0; reflexivity).
  destruct (rev l) as [|[t v] [|y r]]; [contradiction|exact I|exact I].
Qed.
(* the hypothesis on the start state holds at construction and after every absent / error event *)
Corollary integral_derivative_start_states u (s0 : @dint R) (r : out (@quantity R)) s1 up :
  (integ_inv u [] (@dint_init R) /\ deriv_inv u [] (@dint_init R)) /\
  ((r = ONone \/ exists e, r = OErr e) ->
   (integ_step c s0 r = Ok (s1, up) -> integ_inv u [] s1) /\ (deriv_step c s0 r = Ok (s1, up) -> deriv_inv u [] s1)).
Proof. split; [exact (dint_init_inv u)|exact (dint_reset_inv sb u s0 r s1 up)]. Qed.

(* AccelerationToState on samples in mm/s^2 from the reset state None:
   velocity = trapezoid sum, position = trapezoid sum of the running velocity series v_2 .. v_n,
   present from the third sample on *)
Theorem a2s_closed_form (l : list smp) :
  gaps_ok (map fst l) ->
  exists s', run (a2s_step c) None (map (qev UA) l) = Ok s' /\
    a2s_get c s' = Ok (if (3 <=? length l)%nat
                       then OSome (mkDatum (ltime l) {| s_pos := trapsum2 l; s_vel := trapsum l; s_acc := lval l |})
                       else ONone).
Proof.
  intros Hg. destruct (a2s_run sb l Hg) as (s' & E & I). exists s'. split; [exact E|].
  rewrite (a2s_get_of_run sb _ _ I), <- P2_chron, <- V1_chron, ltime_stime, lval_shead, <- (rev_length l).
  destruct (rev l) as [|[t a] [|x [|y r]]]; reflexivity.
Qed.
(* VelocityToState on samples in mm/s: position = trapezoid sum, acceleration = backward difference
   quotient, present from the second sample on *)
Theorem v2s_closed_form (l : list smp) :
  gaps_ok (map fst l) ->
  exists s', run (v2s_step c) None (map (qev UV) l) = Ok s' /\
    v2s_get c s' = Ok (if (2 <=? length l)%nat
                       then OSome (mkDatum (ltime l) {| s_pos := trapsum l; s_vel := lval l; s_acc := dquot l |})
                       else ONone).
Proof.
  intros Hg. destruct (v2s_run sb l Hg) as (s' & E & I). exists s'. split; [exact E|].
  rewrite (v2s_get_of_run sb _ _ I), <- V1_chron, <- Dv_chron, ltime_stime, lval_shead, <- (rev_length l).
  destruct (rev l) as [|[t a] [|x r]]; reflexivity.
Qed.
(* PositionToState on samples in mm: velocity = backward difference quotient, acceleration = the
   difference quotient of the last two velocities, present from the third sample on *)
Theorem p2s_closed_form (l : list smp) :
  gaps_ok (map fst l) ->
  exists s', run (p2s_step c) None (map (qev UP) l) = Ok s' /\
    p2s_get c s' = Ok (if (3 <=? length l)%nat
                       then OSome (mkDatum (ltime l) {| s_pos := lval l; s_vel := dquot l; s_acc := dquot2 l |})
                       else ONone).
Proof.
  intros Hg. destruct (p2s_run sb l Hg) as (s' & E & I). exists s'. split; [exact E|].
  rewrite (p2s_get_of_run sb _ _ I), <- D2_chron, <- Dv_chron, ltime_stime, lval_shead, <- (rev_length l).
  destruct (rev l) as [|[t a] [|x [|y r]]]; reflexivity.
Qed.
End C10Real.

(* ------------------------------------------------------------------ C11: CommandPID over a whole run *)
Section C11Real.
Local Open Scope R_scope.
Notation smp := (Z * R)%type.
Variable c : cfg.
Variable cmd : @command R.
Variable ks : @pdkvals R.
Notation kind := (c_kind cmd).
Notation kk := (pdk_get ks kind).

(* the PID law on the error samples e_1 .. e_i (chronological): u_i = kp e_i + ki E_i + kd D_i with E the
   trapezoid sum of the errors and D the backward difference quotient; E_1 = D_1 = 0 *)
Definition ulaw (pre : list smp) : R := kp kk * lval pre + ki kk * trapsum pre + kd kk * dquot pre.
(* the control-signal series (t_i, u_i), i = 1 .. n, its trapezoid sum, and the double sum:
   the trapezoid sum of the running integrals U_2 .. U_n *)
Definition useries (l : list smp) : list smp := serc ulaw l.
Definition uint (l : list smp) : R := trapsum (useries l).
Definition uint2 (l : list smp) : R := trapsum (tl (serc uint l)).

Lemma Eint_nf (h : list smp) : CpidProofs.Eint h = psum_nf area h.
Proof.
  induction h as [|[t v] r IH]; [reflexivity|]. destruct r as [|[tp vp] r']; [reflexivity|].
  rewrite psum_nf_cons2, <- IH. destruct r' as [|x r''].
  - cbn [CpidProofs.Eint]. unfold area, dsec. cbn [fst snd]. rr. unfold Rdiv. ring.
  - change (CpidProofs.Eint ((t, v) :: (tp, vp) :: x :: r''))
      with (fadd (CpidProofs.Eint ((tp, vp) :: x :: r'')) (CpidProofs.half vp v (CpidProofs.dtf t tp))).
    set (I0 := CpidProofs.Eint ((tp, vp) :: x :: r'')). unfold area, dsec. cbn [fst snd]. rr. unfold Rdiv. ring.
Qed.
Lemma Dq_nf (h : list smp) : CpidProofs.Dq h = match h with q :: p :: _ => quot p q | _ => 0 end.
Proof. destruct h as [|[t v] [|[tp vp] r]]; reflexivity. Qed.
Lemma uval_chron (x : list smp) : ulaw (rev x) = uval cmd ks x.
Proof.
  unfold ulaw. rewrite lval_rev, trapsum_rev. unfold dquot. rewrite last2_rev, <- Dq_nf, <- Eint_nf.
  destruct x as [|[t e] r]; [cbn; ring|]. reflexivity.
Qed.
Lemma Uint_nf (h : list smp) : Uint cmd ks h = psum_nf area (ser (uval cmd ks) h).
Proof.
  induction h as [|[t e] r IH]; [reflexivity|]. destruct r as [|[tp ep] r']; [reflexivity|].
  change (ser (uval cmd ks) ((t, e) :: (tp, ep) :: r'))
    with ((t, uval cmd ks ((t, e) :: (tp, ep) :: r')) :: ser (uval cmd ks) ((tp, ep) :: r')).
  change (ser (uval cmd ks) ((tp, ep) :: r'))
    with ((tp, uval cmd ks ((tp, ep) :: r')) :: ser (uval cmd ks) r') in *.
  set (A1 := uval cmd ks ((tp, ep) :: r')) in *. set (A2 := uval cmd ks ((t, e) :: (tp, ep) :: r')).
  rewrite (psum_nf_cons2 area (t, A2) (tp, A1)), <- IH.
  destruct r' as [|x r''].
  - change (Uint cmd ks [(t, e); (tp, ep)]) with (CpidProofs.half A1 A2 (CpidProofs.dtf t tp)).
    change (Uint cmd ks [(tp, ep)]) with (@fzero R RR).
    unfold area, dsec. cbn [fst snd]. rr. unfold Rdiv. ring.
  - change (Uint cmd ks ((t, e) :: (tp, ep) :: x :: r''))
      with (fadd (Uint cmd ks ((tp, ep) :: x :: r'')) (CpidProofs.half A1 A2 (CpidProofs.dtf t tp))).
    set (U0 := Uint cmd ks ((tp, ep) :: x :: r'')). unfold area, dsec. cbn [fst snd]. rr. unfold Rdiv. ring.
Qed.
Lemma Uint_chron (x : list smp) : uint (rev x) = Uint cmd ks x.
Proof.
  unfold uint, useries. rewrite (serc_rev (uval cmd ks) ulaw x uval_chron), trapsum_rev, Uint_nf. reflexivity.
Qed.
Lemma Wint_nf (h : list smp) : Wint cmd ks h = psum_nf area (ser2 (Uint cmd ks) h).
Proof.
  induction h as [|[t e] r IH]; [reflexivity|]. destruct r as [|[tp ep] r']; [reflexivity|].
  destruct r' as [|x r'']; [reflexivity|].
  change (ser2 (Uint cmd ks) ((t, e) :: (tp, ep) :: x :: r''))
    with ((t, Uint cmd ks ((t, e) :: (tp, ep) :: x :: r'')) :: ser2 (Uint cmd ks) ((tp, ep) :: x :: r'')).
  set (A2 := Uint cmd ks ((t, e) :: (tp, ep) :: x :: r'')).
  destruct r'' as [|y r3].
  - change (ser2 (Uint cmd ks) [(tp, ep); x]) with [(tp, Uint cmd ks [(tp, ep); x])].
    set (A1 := Uint cmd ks [(tp, ep); x]).
    change (Wint cmd ks [(t, e); (tp, ep); x]) with (CpidProofs.half A1 A2 (CpidProofs.dtf t tp)).
    rewrite psum_nf_cons2. change (psum_nf area [(tp, A1)]) with 0.
    unfold area, dsec. cbn [fst snd]. rr. unfold Rdiv. ring.
  - change (ser2 (Uint cmd ks) ((tp, ep) :: x :: y :: r3))
      with ((tp, Uint cmd ks ((tp, ep) :: x :: y :: r3)) :: ser2 (Uint cmd ks) (x :: y :: r3)) in *.
    set (A1 := Uint cmd ks ((tp, ep) :: x :: y :: r3)) in *.
    change (Wint cmd ks ((t, e) :: (tp, ep) :: x :: y :: r3))
      with (fadd (Wint cmd ks ((tp, ep) :: x :: y :: r3)) (CpidProofs.half A1 A2 (CpidProofs.dtf t tp))).
    rewrite IH, (psum_nf_cons2 area (t, A2) (tp, A1)).
    set (P0 := psum_nf area ((tp, A1) :: ser2 (Uint cmd ks) (x :: y :: r3))).
    unfold area, dsec. cbn [fst snd]. rr. unfold Rdiv. ring.
Qed.
Lemma Wint_chron (l : list smp) : Wint cmd ks (rev l) = uint2 l.
Proof.
  rewrite Wint_nf. unfold uint2. rewrite <- (rev_involutive l) at 2.
  rewrite (serc2_rev (Uint cmd ks) uint (rev l) Uint_chron), trapsum_rev. reflexivity.
Qed.

Lemma ulaw_rev (l : list smp) : ulaw l = uval cmd ks (rev l).
Proof. rewrite <- uval_chron, rev_involutive. reflexivity. Qed.
Lemma uint_rev (l : list smp) : uint l = Uint cmd ks (rev l).
Proof. rewrite <- Uint_chron, rev_involutive. reflexivity. Qed.

(* the error samples of a run of state samples: commanded value minus the matching state component *)
Definition comp (k : pd) (st : @state R) : R :=
  match k with Position => s_pos st | Velocity => s_vel st | Acceleration => s_acc st end.
Definition cerrs (l : list (datum (@state R))) : list smp :=
  map (fun d => (d_time d, c_val cmd - comp kind (d_val d))) l.
Lemma cerrs_ckey l : map (ckey c cmd) l = cerrs l.
Proof.
  apply map_ext. intros d. unfold ckey, err_of. f_equal. destruct kind; reflexivity.
Qed.

(* n >= 1 present state samples, command cmd throughout (nothing followed, no set), starting after
   construction, a reset (absent input) or a reported error.  The run does not panic and get() is
   u_n (position command), the trapezoid sum of u (velocity command, absent for n = 1), or the double
   sum (acceleration command, absent for n <= 2); stamped t_n. *)
Theorem cpid_closed_form (s : @cpid R) (l : list (datum (@state R))) :
  cp_cmd s = cmd -> cp_k s = ks -> (cp_st s = CNone \/ exists e, cp_st s = CErr e) ->
  l <> [] -> gaps_ok (map d_time l) ->
  exists s', run (cstep c) s (map OSome l) = Ok s' /\ cp_cmd s' = cmd /\ cp_k s' = ks /\
    cpid_get s' =
    match kind with
    | Position => OSome (mkDatum (ltime (cerrs l)) (ulaw (cerrs l)))
    | Velocity => if (2 <=? length l)%nat then OSome (mkDatum (ltime (cerrs l)) (uint (cerrs l))) else ONone
    | Acceleration => if (3 <=? length l)%nat then OSome (mkDatum (ltime (cerrs l)) (uint2 (cerrs l))) else ONone
    end.
Proof.
  intros Hc Hk Hst Hne Hg.
  destruct (cpid_run c cmd ks l s (conj Hc (conj Hk Hst)) Hg) as (s' & E & Hc' & Hk' & I).
  exists s'. split; [exact E|]. split; [exact Hc'|]. split; [exact Hk'|].
  rewrite cerrs_ckey in I.
  assert (HL : length (rev (cerrs l)) = length l) by (rewrite rev_length; unfold cerrs; apply map_length).
  assert (Hne' : rev (cerrs l) <> []).
  { intros H0. rewrite H0 in HL. destruct l; [contradiction|discriminate]. }
  rewrite (ulaw_rev (cerrs l)), (uint_rev (cerrs l)), <- Wint_chron, ltime_stime, <- HL.
  destruct (st_of cmd ks (rev (cerrs l))) as [u0|] eqn:Est.
  - rewrite (cpid_get_of_run cmd ks s' (rev (cerrs l)) u0 Hc' Est I).
    destruct (rev (cerrs l)) as [|[t e] [|x [|y r]]]; [contradiction| | |]; destruct kind; reflexivity.
  - destruct (rev (cerrs l)) as [|[t e] r]; [contradiction|discriminate].
Qed.
End C11Real.

(* ------------------------------------------------------------------ CommandPID: start states; following the same command *)
Section CpidMore.
Context {F : Type} {NF : Num F}.
Variable c : cfg.

(* the start-state hypothesis of [cpid_closed_form] holds at construction, after an absent input, after an
   input error, and after setting a different command (with the new command as the fixed one) *)
Definition cfresh (s : @cpid F) : Prop := cp_st s = CNone \/ exists e, cp_st s = CErr e.
Lemma cpid_start_states (s : @cpid F) cmd ks e x :
  cfresh (cpid_init cmd ks) /\
  (forall s', cpid_step c s None ONone = Ok (s', UOk) -> cfresh s' /\ cp_cmd s' = cp_cmd s /\ cp_k s' = cp_k s) /\
  (forall s' u, cpid_step c s None (OErr e) = Ok (s', u) -> cfresh s' /\ cp_cmd s' = cp_cmd s /\ cp_k s' = cp_k s) /\
  (c_eqb x (cp_cmd s) = false -> cfresh (cpid_set s x) /\ cp_cmd (cpid_set s x) = x /\ cp_k (cpid_set s x) = cp_k s).
Proof.
  split; [left; reflexivity|]. split; [|split].
  - intros s' Hs. cbn in Hs. injection Hs as <-. split; [left; reflexivity|split; reflexivity].
  - intros s' u Hs. cbn in Hs. injection Hs as <- _. split; [right; exists e; reflexivity|split; reflexivity].
  - intros Hx. rewrite (cpid_set_different s x Hx). split; [left; reflexivity|split; reflexivity].
Qed.

(* [cp_last] (the last request, written by set) is never read by update or get: two controllers that agree on
   command, gains and staged record behave alike.  Hence a followed getter that is absent, or returns a
   command equal (==) to the current one, is the same as following nothing. *)
Definition eq_mod_last (a b : @cpid F) : Prop := cp_cmd a = cp_cmd b /\ cp_k a = cp_k b /\ cp_st a = cp_st b.
Definition rel_res (ra rb : res (@cpid F * upd)) : Prop :=
  match ra, rb with
  | Ok (a, u), Ok (b, v) => eq_mod_last a b /\ u = v
  | Panic, Panic => True
  | _, _ => False
  end.
Lemma cpid_step_mod_last a b i : eq_mod_last a b -> rel_res (cpid_step c a None i) (cpid_step c b None i).
Proof.
  destruct a as [la ca ka sa], b as [lb cb kb stb]. unfold eq_mod_last. cbn [cp_cmd cp_k cp_st].
  intros (-> & -> & ->). unfold rel_res, cpid_step, cpid_with_st. cbn [cp_cmd cp_k cp_st cp_last].
  destruct i as [e| |d]; [repeat split|repeat split|].
  destruct stb as [e| |u0]; [repeat split|repeat split|].
  destruct (dt_f c (d_time d) (cu_time u0)) as [dt|]; cbn [bind]; [|exact I].
  destruct (cu_u1 u0) as [u1|]; repeat split.
Qed.
Definition follow_same (cmd : @command F) (fo : option (out (@command F))) : Prop :=
  match fo with
  | None | Some ONone => True
  | Some (OSome dc) => c_eqb (d_val dc) cmd = true
  | Some (OErr _) => False
  end.
Lemma cpid_follow_same a fo i :
  follow_same (cp_cmd a) fo -> rel_res (cpid_step c a fo i) (cpid_step c a None i).
Proof.
  assert (Hrefl : forall s, eq_mod_last s s) by (intros s; repeat split).
  destruct fo as [[e| |dc]|]; cbn [follow_same]; intros Hf;
    [contradiction|exact (cpid_step_mod_last a a i (Hrefl a))| |exact (cpid_step_mod_last a a i (Hrefl a))].
  rewrite cpid_follow_present. apply cpid_step_mod_last.
  rewrite (cpid_set_same a (d_val dc) Hf). repeat split.
Qed.
Lemma cpid_get_mod_last a b : eq_mod_last a b -> cpid_get a = cpid_get b.
Proof. intros (Hc & _ & Hs). unfold cpid_get. rewrite Hc, Hs. reflexivity. Qed.

Lemma cpid_step_keeps_cmd s i s' u : cpid_step c s None i = Ok (s', u) -> cp_cmd s' = cp_cmd s.
Proof.
  unfold cpid_step. destruct i as [e| |d]; try (intros [= <- _]; reflexivity).
  destruct (cp_st s) as [e| |u0]; try (intros [= <- _]; reflexivity).
  destruct (dt_f c (d_time d) (cu_time u0)) as [dt|]; cbn [bind]; [|discriminate].
  destruct (cu_u1 u0) as [u1|]; intros [= <- _]; reflexivity.
Qed.

(* whole runs: events (followed getter's result, input) whose follows are all "same command"; the inputs
   may be present, absent or errors *)
Definition cstepf (s : @cpid F) (fi : option (out (@command F)) * out (@state F)) : res (@cpid F * upd) :=
  cpid_step c s (fst fi) (snd fi).
Theorem cpid_run_follow_same (l : list (option (out (@command F)) * out (@state F))) :
  forall a b, eq_mod_last a b -> Forall (fun fi => follow_same (cp_cmd b) (fst fi)) l ->
  match run cstepf a l, run (cstep c) b (map snd l) with
  | Ok a', Ok b' => eq_mod_last a' b' /\ cpid_get a' = cpid_get b'
  | Panic, Panic => True
  | _, _ => False
  end.
Proof.
  induction l as [|[fo i] r IH]; intros a b Hab Hf.
  - cbn [run map]. split; [exact Hab|apply cpid_get_mod_last; exact Hab].
  - inversion Hf as [|x y Hf1 Hf2]; subst x y. cbn [fst] in Hf1. cbn [run map snd].
    unfold cstepf at 1. cbn [fst snd]. change (cstep c b i) with (cpid_step c b None i).
    assert (Hc : cp_cmd a = cp_cmd b) by exact (proj1 Hab). rewrite <- Hc in Hf1.
    pose proof (cpid_follow_same a fo i Hf1) as R1. pose proof (cpid_step_mod_last a b i Hab) as R2.
    unfold rel_res in R1, R2.
    destruct (cpid_step c a fo i) as [[a1 u1]|]; destruct (cpid_step c a None i) as [[a2 u2]|]; try contradiction;
    destruct (cpid_step c b None i) as [[b1 v1]|] eqn:Eb; try contradiction; cbn [bind fst]; [|exact I].
    destruct R1 as [(E1 & E2 & E3) _]. destruct R2 as [(G1 & G2 & G3) _].
    apply IH.
    + repeat split; congruence.
    + rewrite (cpid_step_keeps_cmd b i b1 v1 Eb). exact Hf2.
Qed.
End CpidMore.

(* the closed forms also hold when a command getter is followed that is absent or keeps returning the same command *)
Theorem cpid_closed_form_follow (c : cfg) (cmd : @command R) (ks : @pdkvals R) (s : @cpid R)
        (l : list (option (out (@command R)) * datum (@state R))) :
  cp_cmd s = cmd -> cp_k s = ks -> cfresh s ->
  l <> [] -> gaps_ok (map (fun x => d_time (snd x)) l) -> Forall (fun x => follow_same cmd (fst x)) l ->
  exists s', run (cstepf c) s (map (fun x => (fst x, OSome (snd x))) l) = Ok s' /\
    cpid_get s' =
    let es := cerrs cmd (map snd l) in
    match c_kind cmd with
    | Position => OSome (mkDatum (ltime es) (ulaw cmd ks es))
    | Velocity => if (2 <=? length l)%nat then OSome (mkDatum (ltime es) (uint cmd ks es)) else ONone
    | Acceleration => if (3 <=? length l)%nat then OSome (mkDatum (ltime es) (uint2 cmd ks es)) else ONone
    end.
Proof.
  intros Hc Hk Hst Hne Hg Hf.
  assert (Hne' : map snd l <> []) by (destruct l; [contradiction|discriminate]).
  assert (Hg' : gaps_ok (map d_time (map snd l))) by (rewrite map_map; exact Hg).
  destruct (cpid_closed_form c cmd ks s (map snd l) Hc Hk Hst Hne' Hg') as (s2 & E2 & _ & _ & G2).
  pose proof (cpid_run_follow_same c (map (fun x => (fst x, OSome (snd x))) l) s s) as R.
  rewrite map_map in R. cbn [snd] in R. rewrite <- (map_map snd OSome) in R. rewrite E2 in R.
  destruct (run (cstepf c) s (map (fun x => (fst x, OSome (snd x))) l)) as [s1|].
  - exists s1. split; [reflexivity|]. destruct R as [_ ->].
    + repeat split.
    + rewrite Hc. apply Forall_forall. intros fi Hin. apply in_map_iff in Hin. destruct Hin as (x & <- & Hx).
      cbn [fst]. exact (proj1 (Forall_forall _ l) Hf x Hx).
    + rewrite G2, map_length. reflexivity.
  - exfalso. apply R.
    + repeat split.
    + rewrite Hc. apply Forall_forall. intros fi Hin. apply in_map_iff in Hin. destruct Hin as (x & <- & Hx).
      cbn [fst]. exact (proj1 (Forall_forall _ l) Hf x Hx).
Qed.

(* ------------------------------------------------------------------ whole histories: "since the last reset" *)
Section Histories.
Local Open Scope R_scope.
Notation smp := (Z * R)%type.
Variable sb : bool.
Notation c := (cfg_chk sb).

(* IntegralStream / DerivativeStream: an arbitrary earlier history [pre] (any events, from any state, as long
   as it did not panic), then an absent or error event, then n >= 1 present samples: the output depends on
   those n samples only and is the closed form *)
Theorem integral_derivative_since_last_reset u (pre : list (out (@quantity R))) (r : out (@quantity R))
        (l : list smp) (s0 si sd : @dint R) :
  run (integ_step c) s0 pre = Ok si -> run (deriv_step c) s0 pre = Ok sd ->
  (r = ONone \/ exists e, r = OErr e) -> l <> [] -> gaps_ok (map fst l) ->
  (exists s', run (integ_step c) s0 (pre ++ r :: map (qev u) l) = Ok s' /\
     dint_get s' = if (2 <=? length l)%nat then OSome (mkDatum (ltime l) (qnew (trapsum l) (ustep u))) else ONone) /\
  (exists s', run (deriv_step c) s0 (pre ++ r :: map (qev u) l) = Ok s' /\
     dint_get s' = if (2 <=? length l)%nat then OSome (mkDatum (ltime l) (qnew (dquot l) (uquot u))) else ONone).
Proof.
  intros Hi Hd Hr Hne Hg. rewrite !run_app, Hi, Hd. cbn [bind run].
  destruct (integ_step c si r) as [[s1 u1]|] eqn:E1; [|destruct Hr as [->|[e ->]]; discriminate].
  destruct (deriv_step c sd r) as [[s2 u2]|] eqn:E2; [|destruct Hr as [->|[e ->]]; discriminate].
  cbn [bind fst]. split.
  - apply (integral_closed_form sb u l s1); try assumption.
    exact (proj1 (dint_reset_inv sb u si r s1 u1 Hr) E1).
  - apply (derivative_closed_form sb u l s2); try assumption.
    exact (proj2 (dint_reset_inv sb u sd r s2 u2 Hr) E2).
Qed.
End Histories.

(* the to-state converters ignore absent events altogether (only an error resets them): deleting the
   absent events of any history changes nothing; generic carrier, any configuration *)
Section AbsentIgnored.
Context {F : Type} {NF : Num F}.
Variable c : cfg.
Definition present {T} (o : out T) : bool := match o with ONone => false | _ => true end.
Lemma run_skip_absent {St T} (step : St -> out T -> res (St * upd)) :
  (forall s, step s ONone = Ok (s, UOk)) ->
  forall l s, run step s l = run step s (filter present l).
Proof.
  intros H l. induction l as [|i r IH]; intros s; [reflexivity|].
  destruct i as [e| |d]; cbn [filter present run].
  - destruct (step s (OErr e)) as [[s1 u1]|]; cbn [bind fst]; [apply IH|reflexivity].
  - rewrite H. cbn [bind fst]. apply IH.
  - destruct (step s (OSome d)) as [[s1 u1]|]; cbn [bind fst]; [apply IH|reflexivity].
Qed.
Theorem tostate_absent_transparent (l : list (out (@quantity F))) (s : @tstate F) :
  run (a2s_step c) s l = run (a2s_step c) s (filter present l) /\
  run (v2s_step c) s l = run (v2s_step c) s (filter present l) /\
  run (p2s_step c) s l = run (p2s_step c) s (filter present l).
Proof. repeat split; apply run_skip_absent; reflexivity. Qed.
(* ... and an error event forgets everything before it *)
Theorem tostate_error_resets (pre : list (out (@quantity F))) e (l : list (out (@quantity F))) (s0 s1 : @tstate F) :
  (run (a2s_step c) s0 pre = Ok s1 -> run (a2s_step c) s0 (pre ++ OErr e :: l) = run (a2s_step c) None l) /\
  (run (v2s_step c) s0 pre = Ok s1 -> run (v2s_step c) s0 (pre ++ OErr e :: l) = run (v2s_step c) None l) /\
  (run (p2s_step c) s0 pre = Ok s1 -> run (p2s_step c) s0 (pre ++ OErr e :: l) = run (p2s_step c) None l).
Proof. repeat split; intros H; rewrite run_app, H; reflexivity. Qed.
End AbsentIgnored.

(* ------------------------------------------------------------------ the closed forms, spelled out *)
Section Spelled.
Local Open Scope R_scope.
Notation smp := (Z * R)%type.

(* sum_{i=0}^{n-1} f i *)
Fixpoint sumn (n : nat) (f : nat -> R) : R := match n with O => 0 | S k => sumn k f + f k end.
Lemma sumn_ext n f g : (forall i, (i < n)%nat -> f i = g i) -> sumn n f = sumn n g.
Proof.
  induction n as [|k IH]; intros H; [reflexivity|]. cbn [sumn]. rewrite IH, (H k) by (intros; try apply H; lia). reflexivity.
Qed.
(* trapsum [s_0 .. s_{n-1}] = sum_{i=0}^{n-2} (t_{i+1} - t_i)/1e9 * (x_i + x_{i+1}) / 2 *)
Theorem trapsum_indexed (l : list smp) (d : smp) :
  trapsum l = sumn (length l - 1) (fun i => dsec (fst (nth (S i) l d)) (fst (nth i l d)) * (snd (nth i l d) + snd (nth (S i) l d)) / 2).
Proof.
  induction l as [|q l' IH] using rev_ind; [reflexivity|].
  destruct l' as [|p l'' _] using rev_ind; [reflexivity|].
  rewrite <- app_assoc. cbn [app]. unfold trapsum in *. rewrite psum_snoc2, IH.
  rewrite !app_length. cbn [length].
  replace (length l'' + 2 - 1)%nat with (S (length l'' + 1 - 1)) by lia. cbn [sumn].
  f_equal.
  - apply sumn_ext. intros i Hi.
    replace (l'' ++ [p; q]) with ((l'' ++ [p]) ++ [q]) by (rewrite <- app_assoc; reflexivity).
    rewrite !(app_nth1 (l'' ++ [p]) [q]) by (rewrite app_length; cbn [length]; lia). reflexivity.
  - replace (length l'' + 1 - 1)%nat with (length l'') by lia.
    rewrite (app_nth2 l'' [p; q]) by lia. rewrite (app_nth2 l'' [p; q]) by lia.
    replace (S (length l'') - length l'')%nat with 1%nat by lia. rewrite Nat.sub_diag. reflexivity.
Qed.
Lemma trapsum_snoc (l : list smp) p q : trapsum (l ++ [p; q]) = trapsum (l ++ [p]) + area p q.
Proof. apply psum_snoc2. Qed.
Lemma forms_three t1 x1 t2 x2 t3 x3 :
  let l := [(t1, x1); (t2, x2); (t3, x3)] in
  let I2 := dsec t2 t1 * (x1 + x2) / 2 in
  let I3 := I2 + dsec t3 t2 * (x2 + x3) / 2 in
  let D2 := (x2 - x1) / dsec t2 t1 in
  let D3 := (x3 - x2) / dsec t3 t2 in
  trapsum l = I3 /\ trapsum2 l = dsec t3 t2 * (I2 + I3) / 2 /\
  dquot l = D3 /\ dquot2 l = (D3 - D2) / dsec t3 t2 /\ ltime l = t3 /\ lval l = x3.
Proof.
  cbv zeta. unfold trapsum2, serc, dquot2, lastgap, dquot, last2, trapsum, psum, quot.
  cbn [prefixes map tl ltime lval last fst snd psum psum_from app rev removelast]. unfold area. cbn [fst snd].
  split; [ring|]. split; [unfold Rdiv; ring|]. repeat split.
Qed.
End Spelled.

(* ------------------------------------------------------------------ examples: hypotheses are satisfiable, values are what one expects *)
Section Examples.
Local Open Scope R_scope.
Ltac zc := repeat match goal with |- context [IZR (?a - ?b)] =>
                    let v := eval vm_compute in (a - b)%Z in change (a - b)%Z with v end.
Ltac lists := cbn [prefixes map tl ltime lval last fst snd psum psum_from app rev length removelast].

(* four irregularly spaced samples: t = 0 s, 1 s, 3 s, 3.5 s *)
Definition ex_l : list (Z * R) := [(0%Z, 1); (1000000000%Z, 3); (3000000000%Z, 2); (3500000000%Z, 6)].
Example ex_gaps : gaps_ok (map fst ex_l).
Proof. cbn. repeat split; reflexivity. Qed.
Example ex_trapsum : trapsum ex_l = 9.
Proof. unfold trapsum, ex_l, psum. lists. unfold area, dsec. cbn [fst snd]. zc. lra. Qed.
Example ex_dquot : dquot ex_l = 8.
Proof. unfold dquot, last2, ex_l, quot. lists. unfold dsec. zc. lra. Qed.
Example ex_trapsum2 : trapsum2 ex_l = 13.
Proof.
  unfold trapsum2, serc, ex_l. lists. unfold trapsum, psum. lists. unfold area, dsec. cbn [fst snd]. zc. lra.
Qed.
Example ex_dquot2 : dquot2 ex_l = 17.
Proof. unfold dquot2, lastgap, dquot, last2, ex_l, quot. lists. unfold dsec. zc. lra. Qed.

(* the theorems applied to that run (unit of the input: mm, so the integral is in mm s, the derivative in mm/s) *)
Example ex_integral sb :
  exists s', run (integ_step (cfg_chk sb)) dint_init (map (qev UP) ex_l) = Ok s' /\
             dint_get s' = OSome (mkDatum 3500000000%Z (qnew 9 {| mm := 1; sec := 1 |})).
Proof.
  destruct (integral_closed_form sb UP ex_l dint_init (proj1 (dint_init_inv UP)) ltac:(discriminate) ex_gaps)
    as (s' & E & G).
  exists s'. split; [exact E|]. rewrite G, ex_trapsum. reflexivity.
Qed.
Example ex_derivative sb :
  exists s', run (deriv_step (cfg_chk sb)) dint_init (map (qev UP) ex_l) = Ok s' /\
             dint_get s' = OSome (mkDatum 3500000000%Z (qnew 8 {| mm := 1; sec := -1 |})).
Proof.
  destruct (derivative_closed_form sb UP ex_l dint_init (proj2 (dint_init_inv UP)) ltac:(discriminate) ex_gaps)
    as (s' & E & G).
  exists s'. split; [exact E|]. rewrite G, ex_dquot. reflexivity.
Qed.
Example ex_a2s sb :
  exists s', run (a2s_step (cfg_chk sb)) None (map (qev UA) ex_l) = Ok s' /\
             a2s_get (cfg_chk sb) s' = Ok (OSome (mkDatum 3500000000%Z {| s_pos := 13; s_vel := 9; s_acc := 6 |})).
Proof.
  destruct (a2s_closed_form sb ex_l ex_gaps) as (s' & E & G).
  exists s'. split; [exact E|]. rewrite G, ex_trapsum, ex_trapsum2. reflexivity.
Qed.
Example ex_p2s sb :
  exists s', run (p2s_step (cfg_chk sb)) None (map (qev UP) ex_l) = Ok s' /\
             p2s_get (cfg_chk sb) s' = Ok (OSome (mkDatum 3500000000%Z {| s_pos := 6; s_vel := 8; s_acc := 17 |})).
Proof.
  destruct (p2s_closed_form sb ex_l ex_gaps) as (s' & E & G).
  exists s'. split; [exact E|]. rewrite G, ex_dquot, ex_dquot2. reflexivity.
Qed.
(* the range hypothesis cannot be dropped: two representable stamps whose difference overflows i64 *)
Example ex_gap_needed sb u :
  run (integ_step (cfg_chk sb)) dint_init (map (qev u) [((-5000000000000000000)%Z, 1); (5000000000000000000%Z, 1)]) = Panic /\
  in_i64 (-5000000000000000000) = true /\ in_i64 5000000000000000000 = true.
Proof. repeat split. Qed.

(* CommandPID: velocity command 5, gains (2, 1, 1); state samples at 0 s, 1 s, 3 s with velocities 1, 3, 4:
   errors 4, 2, 1;  u = 8, 5, 7.5;  integral of u = 6.5 + 12.5 = 19 *)
Definition ex_k : @kvals R := {| kp := 2; ki := 1; kd := 1 |}.
Definition ex_ks : @pdkvals R := {| k_pos := ex_k; k_vel := ex_k; k_acc := ex_k |}.
Definition ex_states : list (datum (@state R)) :=
  [mkDatum 0%Z {| s_pos := 0; s_vel := 1; s_acc := 1 |};
   mkDatum 1000000000%Z {| s_pos := 2; s_vel := 3; s_acc := 3 |};
   mkDatum 3000000000%Z {| s_pos := 9; s_vel := 4; s_acc := 4 |}].
Example ex_cpid_gaps : gaps_ok (map d_time ex_states).
Proof. cbn. repeat split; reflexivity. Qed.
Example ex_ulaw : ulaw (cnew Velocity 5) ex_ks (cerrs (cnew Velocity 5) ex_states) = 15 / 2.
Proof.
  unfold ulaw, cerrs, ex_states, dquot, last2, trapsum, psum, quot, area, dsec, cnew, comp.
  cbn [map d_time d_val c_kind c_val s_vel pdk_get ex_ks ex_k k_vel kp ki kd]. lists. zc. lra.
Qed.
Example ex_uint : uint (cnew Velocity 5) ex_ks (cerrs (cnew Velocity 5) ex_states) = 19.
Proof.
  unfold uint, useries, serc, cerrs, ex_states, cnew, comp. cbn [map d_time d_val c_kind c_val s_vel]. lists.
  unfold ulaw, dquot, last2, trapsum, psum, quot. lists. unfold area, dsec.
  cbn [fst snd c_kind pdk_get ex_ks ex_k k_vel kp ki kd]. zc. lra.
Qed.
Example ex_uint2 : uint2 (cnew Acceleration 5) ex_ks (cerrs (cnew Acceleration 5) ex_states) = 51 / 2.
Proof.
  unfold uint2, serc, cerrs, ex_states, cnew, comp. cbn [map d_time d_val c_kind c_val s_acc]. lists.
  unfold uint, useries, serc. lists.
  unfold ulaw, dquot, last2, trapsum, psum, quot. lists. unfold area, dsec.
  cbn [fst snd c_kind pdk_get ex_ks ex_k k_acc kp ki kd]. zc. lra.
Qed.
Example ex_cpid c :
  exists s', run (cstep c) (cpid_init (cnew Velocity 5) ex_ks) (map OSome ex_states) = Ok s' /\
             cpid_get s' = OSome (mkDatum 3000000000%Z 19).
Proof.
  destruct (cpid_closed_form c (cnew Velocity 5) ex_ks (cpid_init (cnew Velocity 5) ex_ks) ex_states
              eq_refl eq_refl (or_introl eq_refl) ltac:(discriminate) ex_cpid_gaps) as (s' & E & _ & _ & G).
  exists s'. split; [exact E|]. rewrite G. cbn [c_kind cnew length Nat.leb]. rewrite ex_uint. reflexivity.
Qed.
Example ex_cpid_acc c :
  exists s', run (cstep c) (cpid_init (cnew Acceleration 5) ex_ks) (map OSome ex_states) = Ok s' /\
             cpid_get s' = OSome (mkDatum 3000000000%Z (51 / 2)).
Proof.
  destruct (cpid_closed_form c (cnew Acceleration 5) ex_ks (cpid_init (cnew Acceleration 5) ex_ks) ex_states
              eq_refl eq_refl (or_introl eq_refl) ltac:(discriminate) ex_cpid_gaps) as (s' & E & _ & _ & G).
  exists s'. split; [exact E|]. rewrite G. cbn [c_kind cnew length Nat.leb]. rewrite ex_uint2. reflexivity.
Qed.
(* following: nothing, an absent getter, and a getter returning the same command *)
Definition ex_follow : list (option (out (@command R)) * datum (@state R)) :=
  combine [None; Some ONone; Some (OSome (mkDatum 7%Z (cnew Velocity 5)))] ex_states.
Example ex_follow_ok : Forall (fun x => follow_same (cnew Velocity 5) (fst x)) ex_follow /\ map snd ex_follow = ex_states.
Proof.
  split; [|reflexivity]. repeat constructor. cbn. unfold c_eqb. cbn. apply Flocq.Core.Raux.Req_bool_true. reflexivity.
Qed.
Example ex_cpid_follow c :
  exists s', run (cstepf c) (cpid_init (cnew Velocity 5) ex_ks) (map (fun x => (fst x, OSome (snd x))) ex_follow) = Ok s' /\
             cpid_get s' = OSome (mkDatum 3000000000%Z 19).
Proof.
  destruct (cpid_closed_form_follow c (cnew Velocity 5) ex_ks (cpid_init (cnew Velocity 5) ex_ks) ex_follow
              eq_refl eq_refl (or_introl eq_refl) ltac:(discriminate) ex_cpid_gaps (proj1 ex_follow_ok)) as (s' & E & G).
  exists s'. split; [exact E|]. rewrite G. cbv zeta. rewrite (proj2 ex_follow_ok).
  cbn [c_kind cnew length Nat.leb ex_follow combine]. rewrite ex_uint. reflexivity.
Qed.
End Examples.

Print Assumptions integral_closed_form.
Print Assumptions derivative_closed_form.
Print Assumptions integral_derivative_since_last_reset.
Print Assumptions a2s_closed_form.
Print Assumptions v2s_closed_form.
Print Assumptions p2s_closed_form.
Print Assumptions cpid_closed_form.
Print Assumptions cpid_closed_form_follow.
Print Assumptions cpid_run_follow_same.
Print Assumptions cpid_start_states.
Print Assumptions trapsum_indexed.
Print Assumptions forms_three.
Print Assumptions gaps_exact_C10.
Print Assumptions gaps_exact_C11.
Print Assumptions C10_shift_runs.
Print Assumptions C11_shift_runs.
Print Assumptions tostate_get_shift.
Print Assumptions cpid_get_shift.
Print Assumptions tostate_absent_transparent.
Print Assumptions tostate_error_resets.
Print Assumptions ex_integral.
Print Assumptions ex_cpid.
Print Assumptions ex_cpid_follow.
Print Assumptions ex_gap_needed.
