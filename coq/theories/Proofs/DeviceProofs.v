(* Devices: what an update writes (data-presence logic, time stamps, frame), for every carrier. *)
From Coq Require Import ZArith Bool List Lia Arith.
From RRTK Require Import Num.Num Model.Values Model.World Model.Devices Proofs.WorldProofs Proofs.DatumProofs.
Import ListNotations.

Section D.
Context {F : Type} {NF : Num F}.
Notation world := (@world F).

Definition slot_s (w : world) i := t_state (wget w i).
Definition slot_c (w : world) i := t_cmd (wget w i).

Lemma get_set_state (w : world) i d k :
  i < length w ->
  slot_s (set_state w i d) k = (if Nat.eqb k i then Some d else slot_s w k) /\
  slot_c (set_state w i d) k = slot_c w k /\ oth (set_state w i d) k = oth w k.
Proof.
  intros Hi. unfold slot_s, slot_c, oth, set_state. destruct (Nat.eqb_spec k i) as [->|Hn].
  - rewrite wget_wset_same by assumption. repeat split.
  - rewrite wget_wset_other by assumption. repeat split.
Qed.
Lemma get_set_cmd (w : world) i d k :
  i < length w ->
  slot_c (set_cmd w i d) k = (if Nat.eqb k i then Some d else slot_c w k) /\
  slot_s (set_cmd w i d) k = slot_s w k /\ oth (set_cmd w i d) k = oth w k.
Proof.
  intros Hi. unfold slot_s, slot_c, oth, set_cmd. destruct (Nat.eqb_spec k i) as [->|Hn].
  - rewrite wget_wset_same by assumption. repeat split.
  - rewrite wget_wset_other by assumption. repeat split.
Qed.
Lemma len_set_state (w : world) i d : length (set_state w i d) = length w.
Proof. apply wset_length. Qed.
Lemma len_set_cmd (w : world) i d : length (set_cmd w i d) = length w.
Proof. apply wset_length. Qed.
(* command reads depend only on command slots and links *)
Lemma cmd_get_ext (w w' : world) i :
  (forall k, slot_c w' k = slot_c w k) -> (forall k, oth w' k = oth w k) -> cmd_get w' i = cmd_get w i.
Proof.
  intros Hc Ho. unfold cmd_get, partner_cmd. fold (slot_c w' i) (slot_c w i) (oth w' i) (oth w i).
  rewrite Hc, Ho. destruct (oth w i) as [j|]; [fold (slot_c w' j) (slot_c w j); rewrite Hc|]; reflexivity.
Qed.

(* ---------------- Invert: state part ---------------- *)
Definition invert_states (w : world) t1 t2 : world :=
  match state_get w t1, state_get w t2 with
  | None, None => w
  | None, Some d2 => set_state w t1 (mkDatum (d_time d2) (s_neg (d_val d2)))
  | Some d1, None => set_state w t2 (mkDatum (d_time d1) (s_neg (d_val d1)))
  | Some d1, Some d2 =>
      let time := tmax_ge (d_time d1) (d_time d2) in
      let ns := s_divf (s_sub (d_val d1) (d_val d2)) ftwo in
      set_state (set_state w t1 (mkDatum time ns)) t2 (mkDatum time (s_neg ns))
  end.
Theorem invert_state_effect (w : world) t1 t2 :
  t1 <> t2 -> t1 < length w -> t2 < length w ->
  let w' := invert_states w t1 t2 in
  (forall k, k <> t1 -> k <> t2 -> slot_s w' k = slot_s w k) /\
  (forall k, slot_c w' k = slot_c w k /\ oth w' k = oth w k) /\
  match state_get w t1, state_get w t2 with
  | None, None => slot_s w' t1 = slot_s w t1 /\ slot_s w' t2 = slot_s w t2
  | None, Some d2 => slot_s w' t1 = Some (mkDatum (d_time d2) (s_neg (d_val d2))) /\ slot_s w' t2 = slot_s w t2
  | Some d1, None => slot_s w' t2 = Some (mkDatum (d_time d1) (s_neg (d_val d1))) /\ slot_s w' t1 = slot_s w t1
  | Some d1, Some d2 =>
      let ns := s_divf (s_sub (d_val d1) (d_val d2)) ftwo in
      slot_s w' t1 = Some (mkDatum (Z.max (d_time d1) (d_time d2)) ns) /\
      slot_s w' t2 = Some (mkDatum (Z.max (d_time d1) (d_time d2)) (s_neg ns))
  end.
Proof.
  intros Hne H1 H2 w'. unfold w', invert_states.
  destruct (state_get w t1) as [d1|], (state_get w t2) as [d2|].
  - rewrite tmax_ge_max. set (dA := mkDatum _ _). set (dB := mkDatum _ (s_neg _)).
    assert (L : t2 < length (set_state w t1 dA)) by (rewrite len_set_state; exact H2).
    split; [|split; [|split]].
    + intros k Hk1 Hk2. destruct (get_set_state (set_state w t1 dA) t2 dB k L) as (A & _ & _).
      destruct (get_set_state w t1 dA k H1) as (B & _ & _). rewrite A, B.
      destruct (Nat.eqb_spec k t2); [contradiction|]. destruct (Nat.eqb_spec k t1); [contradiction|]. reflexivity.
    + intros k. destruct (get_set_state (set_state w t1 dA) t2 dB k L) as (_ & A & A').
      destruct (get_set_state w t1 dA k H1) as (_ & B & B'). rewrite A, B, A', B'. split; reflexivity.
    + destruct (get_set_state (set_state w t1 dA) t2 dB t1 L) as (A & _ & _).
      destruct (get_set_state w t1 dA t1 H1) as (B & _ & _). rewrite A, B.
      destruct (Nat.eqb_spec t1 t2); [contradiction|]. rewrite Nat.eqb_refl. reflexivity.
    + destruct (get_set_state (set_state w t1 dA) t2 dB t2 L) as (A & _ & _). rewrite A, Nat.eqb_refl. reflexivity.
  - set (dB := mkDatum _ _). split; [|split; [|split]].
    + intros k Hk1 Hk2. destruct (get_set_state w t2 dB k H2) as (A & _ & _). rewrite A.
      destruct (Nat.eqb_spec k t2); [contradiction|reflexivity].
    + intros k. destruct (get_set_state w t2 dB k H2) as (_ & A & A'). rewrite A, A'. split; reflexivity.
    + destruct (get_set_state w t2 dB t2 H2) as (A & _ & _). rewrite A, Nat.eqb_refl. reflexivity.
    + destruct (get_set_state w t2 dB t1 H2) as (A & _ & _). rewrite A.
      destruct (Nat.eqb_spec t1 t2); [contradiction|reflexivity].
  - set (dA := mkDatum _ _). split; [|split; [|split]].
    + intros k Hk1 Hk2. destruct (get_set_state w t1 dA k H1) as (A & _ & _). rewrite A.
      destruct (Nat.eqb_spec k t1); [contradiction|reflexivity].
    + intros k. destruct (get_set_state w t1 dA k H1) as (_ & A & A'). rewrite A, A'. split; reflexivity.
    + destruct (get_set_state w t1 dA t1 H1) as (A & _ & _). rewrite A, Nat.eqb_refl. reflexivity.
    + destruct (get_set_state w t1 dA t2 H1) as (A & _ & _). rewrite A.
      destruct (Nat.eqb_spec t2 t1); [congruence|reflexivity].
  - split; [|split; [|split]]; intros; try split; reflexivity.
Qed.

(* ---------------- the differential never alters commands; frame for states ---------------- *)
Theorem diff_frame (w : world) s1 s2 sm dt :
  s1 < length w -> s2 < length w -> sm < length w ->
  let w' := diff_update w s1 s2 sm dt in
  (forall k, slot_c w' k = slot_c w k /\ oth w' k = oth w k) /\
  (forall k, k <> s1 -> k <> s2 -> k <> sm -> slot_s w' k = slot_s w k) /\
  (forall i, cmd_get w' i = cmd_get w i).
Proof.
  intros H1 H2 H3 w'.
  assert (G : (forall k, slot_c w' k = slot_c w k /\ oth w' k = oth w k) /\
              (forall k, k <> s1 -> k <> s2 -> k <> sm -> slot_s w' k = slot_s w k)).
  { unfold w', diff_update. destruct dt.
    - destruct (state_get w sm) as [a|]; [|split; intros; try split; reflexivity].
      destruct (state_get w s2) as [b|]; [|split; intros; try split; reflexivity].
      split; intros k; [|intros K1 K2 K3]; destruct (get_set_state w s1 (dstate_sub a b) k H1) as (A & B & C0).
      + rewrite B, C0. split; reflexivity.
      + rewrite A. destruct (Nat.eqb_spec k s1); [contradiction|reflexivity].
    - destruct (state_get w sm) as [a|]; [|split; intros; try split; reflexivity].
      destruct (state_get w s1) as [b|]; [|split; intros; try split; reflexivity].
      split; intros k; [|intros K1 K2 K3]; destruct (get_set_state w s2 (dstate_sub a b) k H2) as (A & B & C0).
      + rewrite B, C0. split; reflexivity.
      + rewrite A. destruct (Nat.eqb_spec k s2); [contradiction|reflexivity].
    - destruct (state_get w s1) as [a|]; [|split; intros; try split; reflexivity].
      destruct (state_get w s2) as [b|]; [|split; intros; try split; reflexivity].
      split; intros k; [|intros K1 K2 K3]; destruct (get_set_state w sm (dstate_add a b) k H3) as (A & B & C0).
      + rewrite B, C0. split; reflexivity.
      + rewrite A. destruct (Nat.eqb_spec k sm); [contradiction|reflexivity].
    - destruct (state_get w sm) as [a|]; [|split; intros; try split; reflexivity].
      destruct (state_get w s1) as [b|]; [|split; intros; try split; reflexivity].
      destruct (state_get w s2) as [d|]; [|split; intros; try split; reflexivity].
      set (x1 := dstate_divf _ _). set (wa := set_state w sm x1).
      set (x2 := dstate_divf (dstate_add (dstate_sub _ _) _) _). set (wb := set_state wa s1 x2).
      set (x3 := dstate_divf (dstate_add (dstate_add (dneg_s _) _) _) _).
      assert (La : s1 < length wa) by (unfold wa; rewrite len_set_state; exact H1).
      assert (Lb : s2 < length wb) by (unfold wb, wa; rewrite !len_set_state; exact H2).
      split; intros k; [|intros K1 K2 K3];
      destruct (get_set_state wb s2 x3 k Lb) as (A & B & C0); destruct (get_set_state wa s1 x2 k La) as (A1 & B1 & C1);
      destruct (get_set_state w sm x1 k H3) as (A2 & B2 & C2).
      + fold wa in B2, C2. fold wb in B1, C1. rewrite B, B1, B2, C0, C1, C2. split; reflexivity.
      + fold wa in A2. fold wb in A1. rewrite A, A1, A2.
        destruct (Nat.eqb_spec k s2); [contradiction|]. destruct (Nat.eqb_spec k s1); [contradiction|].
        destruct (Nat.eqb_spec k sm); [contradiction|]. reflexivity. }
  destruct G as [G1 G2]. split; [exact G1|split; [exact G2|]].
  intros i. apply cmd_get_ext; intros k; apply G1.
Qed.

(* GearTrain::new : ratio from tooth counts *)
Theorem teeth_ratio (teeth : list F) :
  (length teeth < 2 -> gear_ratio_of_teeth teeth = Panic) /\
  (2 <= length teeth -> forall f r, teeth = f :: r ->
     gear_ratio_of_teeth teeth = Ok (fmul (fdiv f (last teeth f)) (if Nat.even (length teeth) then fneg fone else fone))).
Proof.
  split.
  - intros H. destruct teeth as [|a [|b r]]; cbn in *; try reflexivity; lia.
  - intros H f r ->. destruct r as [|b r']; cbn in H; [lia|]. reflexivity.
Qed.
End D.
