(* Terminal links always form a symmetric matching; connect / disconnect never panic (after the fix). *)
From Coq Require Import ZArith Bool List Lia Arith.
From RRTK Require Import Num.Num Model.Values Model.World.
Import ListNotations.

Section W.
Context {F : Type} {NF : Num F}.
Notation world := (@world F).
Notation term := (@term F).

Definition oth (w : world) (i : nat) : option nat := t_other (wget w i).

Lemma wset_length (w : world) i t : length (wset w i t) = length w.
Proof. revert i. induction w as [|x r IH]; intros [|k]; cbn; auto. Qed.
Lemma wget_wset_same (w : world) i t : i < length w -> wget (wset w i t) i = t.
Proof. revert i. induction w as [|x r IH]; intros [|k] H; cbn in *; try lia; auto. apply IH. lia. Qed.
Lemma wget_wset_other (w : world) i k t : k <> i -> wget (wset w i t) k = wget w k.
Proof.
  revert i k. induction w as [|x r IH]; intros [|i] [|k] H; cbn; auto; try congruence.
  apply IH. congruence.
Qed.
Lemma wget_out (w : world) i : length w <= i -> wget w i = term_new.
Proof. intros H. unfold wget. apply nth_overflow. exact H. Qed.
Lemma wset_out (w : world) i t : length w <= i -> wset w i t = w.
Proof. revert i. induction w as [|x r IH]; intros [|k] H; cbn in *; try lia; auto. f_equal. apply IH. lia. Qed.

(* pointwise description of set_other *)
Lemma oth_set_other (w : world) i o k :
  oth (set_other w i o) k = if Nat.eqb k i then (if Nat.ltb i (length w) then o else oth w k) else oth w k.
Proof.
  unfold oth, set_other. destruct (Nat.eqb_spec k i) as [->|Hn].
  - destruct (Nat.ltb_spec i (length w)).
    + rewrite wget_wset_same by assumption. reflexivity.
    + rewrite wset_out by assumption. reflexivity.
  - rewrite wget_wset_other by assumption. reflexivity.
Qed.
Lemma len_set_other (w : world) i o : length (set_other w i o) = length w.
Proof. apply wset_length. Qed.
Lemma state_set_other (w : world) i o k :
  t_state (wget (set_other w i o) k) = t_state (wget w k) /\ t_cmd (wget (set_other w i o) k) = t_cmd (wget w k).
Proof.
  unfold set_other. destruct (Nat.eq_dec k i) as [->|Hn].
  - destruct (Nat.ltb_spec i (length w)).
    + rewrite wget_wset_same by assumption. split; reflexivity.
    + rewrite wset_out by assumption. split; reflexivity.
  - rewrite wget_wset_other by assumption. split; reflexivity.
Qed.

(* the invariant: links are in range, irreflexive and mutual *)
Definition Wf (w : world) : Prop :=
  forall i j, oth w i = Some j -> i < length w /\ j < length w /\ i <> j /\ oth w j = Some i.

Lemma Wf_init n : Wf (repeat term_new n).
Proof.
  intros i j H. unfold oth, wget in H.
  assert (E : nth i (repeat (@term_new F) n) term_new = term_new).
  { destruct (Nat.ltb_spec i n); [apply nth_repeat|apply nth_overflow; rewrite repeat_length; lia]. }
  rewrite E in H. discriminate.
Qed.

(* disconnect: under Wf it never panics; it unlinks both ends and nothing else *)
Lemma disconnect_spec (w : world) i :
  Wf w ->
  exists w', disconnect w i = Ok w' /\ length w' = length w /\
    (forall k, oth w' k = if Nat.eqb k i then None
                          else match oth w i with Some a => if Nat.eqb k a then None else oth w k | None => oth w k end) /\
    (forall k, t_state (wget w' k) = t_state (wget w k) /\ t_cmd (wget w' k) = t_cmd (wget w k)).
Proof.
  intros HW. unfold disconnect. fold (oth w i). destruct (oth w i) as [a|] eqn:E.
  - destruct (HW i a E) as (Hi & Ha & Hne & Hback).
    destruct (Nat.eqb_spec a i) as [->|_]; [contradiction|].
    eexists. split; [reflexivity|]. split; [rewrite !len_set_other; reflexivity|]. split.
    + intros k. rewrite oth_set_other, len_set_other.
      destruct (Nat.eqb_spec k i) as [->|Hk].
      * apply Nat.ltb_lt in Hi. rewrite Hi. reflexivity.
      * rewrite oth_set_other. destruct (Nat.eqb_spec k a) as [->|Hka]; [|reflexivity].
        apply Nat.ltb_lt in Ha. rewrite Ha. reflexivity.
    + intros k. destruct (state_set_other (set_other w a None) i None k) as [A B].
      destruct (state_set_other w a None k) as [C D]. rewrite A, B, C, D. split; reflexivity.
  - exists w. split; [reflexivity|]. split; [reflexivity|]. split.
    + intros k. destruct (Nat.eqb_spec k i) as [->|]; [exact E|reflexivity].
    + intros k. split; reflexivity.
Qed.
Lemma disconnect_Wf (w w' : world) i : Wf w -> disconnect w i = Ok w' -> Wf w'.
Proof.
  intros HW Hd. destruct (disconnect_spec w i HW) as (w1 & E & Hl & Ho & _). rewrite E in Hd. injection Hd as <-.
  intros k j Hk. rewrite Ho in Hk. rewrite Hl.
  destruct (Nat.eqb_spec k i) as [->|Hki]; [discriminate|].
  destruct (oth w i) as [a|] eqn:Ei.
  - destruct (Nat.eqb_spec k a) as [->|Hka]; [discriminate|].
    destruct (HW k j Hk) as (H1 & H2 & H3 & H4). repeat split; try assumption.
    rewrite Ho. destruct (Nat.eqb_spec j i) as [->|Hji].
    + rewrite Ei in H4. injection H4 as ->. contradiction.
    + destruct (Nat.eqb_spec j a) as [->|Hja]; [|exact H4].
      destruct (HW i a Ei) as (_ & _ & _ & Hb). rewrite Hb in H4. injection H4 as ->. contradiction.
  - destruct (HW k j Hk) as (H1 & H2 & H3 & H4). repeat split; try assumption.
    rewrite Ho. destruct (Nat.eqb_spec j i) as [->|Hji]; [rewrite Ei in H4; discriminate|exact H4].
Qed.

(* connect: for distinct in-range terminals it never panics, links i <-> j, first unlinking whatever
   either was linked to (including each other); no other link and no state / command changes *)
Theorem connect_spec (w : world) i j :
  Wf w -> i <> j -> i < length w -> j < length w ->
  exists w', connect w i j = Ok w' /\ Wf w' /\ length w' = length w /\
    oth w' i = Some j /\ oth w' j = Some i /\
    (forall k, k <> i -> k <> j -> oth w' k = if (match oth w i with Some a => Nat.eqb k a | None => false end)
                                                 || (match oth w j with Some b => Nat.eqb k b | None => false end)
                                              then None else oth w k) /\
    (forall k, t_state (wget w' k) = t_state (wget w k) /\ t_cmd (wget w' k) = t_cmd (wget w k)).
Proof.
  intros HW Hne Hi Hj. unfold connect.
  destruct (disconnect_spec w i HW) as (w1 & E1 & L1 & O1 & S1). rewrite E1. cbn [bind].
  pose proof (disconnect_Wf w w1 i HW E1) as HW1.
  destruct (disconnect_spec w1 j HW1) as (w2 & E2 & L2 & O2 & S2). rewrite E2. cbn [bind].
  pose proof (disconnect_Wf w1 w2 j HW1 E2) as HW2.
  destruct (Nat.eqb_spec i j) as [->|_]; [contradiction|].
  eexists. split; [reflexivity|].
  set (w3 := set_other (set_other w2 i (Some j)) j (Some i)).
  assert (L3 : length w3 = length w) by (unfold w3; rewrite !len_set_other; lia).
  assert (O3 : forall k, oth w3 k = if Nat.eqb k j then Some i else if Nat.eqb k i then Some j else oth w2 k).
  { intros k. unfold w3. rewrite oth_set_other, len_set_other.
    destruct (Nat.eqb_spec k j) as [->|Hkj].
    - assert (Hlt : Nat.ltb j (length w2) = true) by (apply Nat.ltb_lt; lia). rewrite Hlt. reflexivity.
    - rewrite oth_set_other. destruct (Nat.eqb_spec k i) as [->|Hki]; [|reflexivity].
      assert (Hlt : Nat.ltb i (length w2) = true) by (apply Nat.ltb_lt; lia). rewrite Hlt. reflexivity. }
  (* oth w2 at i and j is None *)
  assert (O2i : oth w2 i = None).
  { rewrite O2. destruct (Nat.eqb_spec i j); [reflexivity|].
    assert (oth w1 i = None) as Hn by (rewrite O1, Nat.eqb_refl; reflexivity).
    destruct (oth w1 j) as [b|]; [destruct (Nat.eqb_spec i b); [reflexivity|exact Hn]|exact Hn]. }
  assert (O2j : oth w2 j = None) by (rewrite O2, Nat.eqb_refl; reflexivity).
  split; [|split; [exact L3|split; [|split; [|split]]]].
  - (* Wf w3 *)
    intros k m Hk. rewrite O3 in Hk. rewrite L3.
    destruct (Nat.eqb_spec k j) as [->|Hkj].
    + injection Hk as <-. repeat split; try lia. rewrite O3.
      destruct (Nat.eqb_spec i j); [lia|]. rewrite Nat.eqb_refl. reflexivity.
    + destruct (Nat.eqb_spec k i) as [->|Hki].
      * injection Hk as <-. repeat split; try lia. rewrite O3, Nat.eqb_refl. reflexivity.
      * destruct (HW2 k m Hk) as (H1 & H2 & H3 & H4). rewrite L2, L1 in *. repeat split; try assumption.
        rewrite O3. destruct (Nat.eqb_spec m j) as [->|Hmj]; [rewrite O2j in H4; discriminate|].
        destruct (Nat.eqb_spec m i) as [->|Hmi]; [rewrite O2i in H4; discriminate|exact H4].
  - rewrite O3. destruct (Nat.eqb_spec i j); [lia|]. rewrite Nat.eqb_refl. reflexivity.
  - rewrite O3, Nat.eqb_refl. reflexivity.
  - intros k Hki Hkj. rewrite O3.
    destruct (Nat.eqb_spec k j); [contradiction|]. destruct (Nat.eqb_spec k i); [contradiction|].
    rewrite O2. destruct (Nat.eqb_spec k j); [contradiction|].
    (* oth w1 j in terms of w *)
    assert (Hw1j : oth w1 j = match oth w i with Some a => if Nat.eqb j a then None else oth w j | None => oth w j end).
    { rewrite O1. destruct (Nat.eqb_spec j i); [lia|]. reflexivity. }
    rewrite Hw1j, O1. destruct (Nat.eqb_spec k i); [contradiction|].
    destruct (oth w i) as [a|] eqn:Ea.
    + destruct (Nat.eqb_spec j a) as [->|Hja].
      * (* i and j were linked to each other *)
        destruct (HW i a Ea) as (_ & _ & _ & Hb). rewrite Hb.
        destruct (Nat.eqb_spec k a); [contradiction|]. cbn. destruct (Nat.eqb_spec k i); [contradiction|reflexivity].
      * destruct (oth w j) as [b|] eqn:Eb.
        -- destruct (Nat.eqb_spec k b) as [->|Hkb].
           ++ rewrite orb_true_r. reflexivity.
           ++ rewrite orb_false_r. destruct (Nat.eqb_spec k a); reflexivity.
        -- rewrite orb_false_r. destruct (Nat.eqb_spec k a); reflexivity.
    + destruct (oth w j) as [b|] eqn:Eb; cbn [orb].
      * destruct (Nat.eqb_spec k b); reflexivity.
      * reflexivity.
  - intros k. unfold w3.
    destruct (state_set_other (set_other w2 i (Some j)) j (Some i) k) as [A B].
    destruct (state_set_other w2 i (Some j) k) as [C D].
    destruct (S2 k) as [G H]. destruct (S1 k) as [I J].
    rewrite A, B, C, D, G, H, I, J. split; reflexivity.
Qed.

(* every reachable world is well-formed *)
Inductive lop := LConnect (i j : nat) | LDisconnect (i : nat).
Definition lstep (w : world) (o : lop) : world :=
  match o with
  | LConnect i j => if (Nat.eqb i j) || negb (Nat.ltb i (length w)) || negb (Nat.ltb j (length w)) then w
                    else match connect w i j with Ok w' => w' | Panic => w end
  | LDisconnect i => match disconnect w i with Ok w' => w' | Panic => w end
  end.
Theorem Wf_reachable n (ops : list lop) : Wf (fold_left lstep ops (repeat term_new n)).
Proof.
  assert (G : forall w, Wf w -> Wf (fold_left lstep ops w)).
  { induction ops as [|o r IH]; intros w H; cbn [fold_left]; [exact H|]. apply IH.
    destruct o as [i j|i]; cbn [lstep].
    - destruct (Nat.eqb_spec i j) as [|Hij]; cbn [orb]; [exact H|].
      destruct (Nat.ltb_spec i (length w)) as [Hi|]; cbn [negb orb]; [|exact H].
      destruct (Nat.ltb_spec j (length w)) as [Hj|]; cbn [negb]; [|exact H].
      destruct (connect_spec w i j H Hij Hi Hj) as (w' & E & HW & _). rewrite E. exact HW.
    - destruct (disconnect_spec w i H) as (w' & E & _). rewrite E. eapply disconnect_Wf; eassumption. }
  apply G. apply Wf_init.
Qed.
(* and on reachable worlds connect of distinct terminals never panics *)
Theorem connect_never_panics n (ops : list lop) i j :
  let w := fold_left lstep ops (repeat term_new n) in
  i <> j -> i < length w -> j < length w -> connect w i j <> Panic.
Proof.
  intros w Hne Hi Hj. destruct (connect_spec w i j (Wf_reachable n ops) Hne Hi Hj) as (w' & E & _). rewrite E. discriminate.
Qed.
(* the code before the fix panicked on an already connected pair *)
Theorem connect_old_panics (w : world) i j : i <> j -> oth w i = Some j -> connect_old w i j = Panic.
Proof.
  intros Hne H. unfold connect_old. destruct (Nat.eqb_spec i j); [contradiction|].
  fold (oth w i). rewrite H, Nat.eqb_refl. reflexivity.
Qed.

(* reads *)
Theorem reads_spec (w : world) i :
  state_get w i = match t_state (wget w i), partner_state w i with
                  | None, None => None | Some a, None => Some a | None, Some b => Some b
                  | Some a, Some b => Some (mkDatum (Z.max (d_time a) (d_time b))
                                       (s_divf (s_add (d_val a) (d_val b)) ftwo)) end /\
  cmd_get w i = match t_cmd (wget w i), partner_cmd w i with
                | Some a, Some b => if (d_time b >? d_time a)%Z then Some b else Some a
                | Some a, None => Some a | None, b => b end.
Proof.
  split; [|reflexivity]. unfold state_get.
  destruct (t_state (wget w i)) as [a|], (partner_state w i) as [b|]; try reflexivity.
  unfold dstate_divf, dstate_add, tmax_ge. cbn [d_time d_val]. f_equal. f_equal.
  destruct (Z.geb_spec (d_time a) (d_time b)); lia.
Qed.
End W.

From RRTK Require Import Num.Laws.
Section Same.
Context {F : Type} {NF : Num F} {L : @NumLaws F NF}.
Lemma s_add_comm (a b : @state F) : s_add a b = s_add b a.
Proof. unfold s_add, snew_raw. rewrite (fadd_comm (s_pos a)), (fadd_comm (s_vel a)), (fadd_comm (s_acc a)). reflexivity. Qed.
(* two connected terminals always read the same state *)
Theorem connected_same_state (w : @world F) i j :
  Wf w -> oth w i = Some j -> state_get w i = state_get w j.
Proof.
  intros HW Hij. destruct (HW i j Hij) as (_ & _ & _ & Hji).
  unfold state_get, partner_state. fold (oth w i) (oth w j). rewrite Hij, Hji.
  destruct (t_state (wget w i)) as [a|], (t_state (wget w j)) as [b|]; try reflexivity.
  unfold dstate_divf, dstate_add, tmax_ge. cbn [d_time d_val]. rewrite (s_add_comm (d_val a)).
  f_equal. f_equal. destruct (Z.geb_spec (d_time a) (d_time b)), (Z.geb_spec (d_time b) (d_time a)); lia.
Qed.
End Same.
