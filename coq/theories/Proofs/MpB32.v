(* Motion profile on binary32: the constructor yields 0 <= t1 <= t2 <= t3 ; initial conditions. *)
From Coq Require Import ZArith Bool List Reals Lia.
From Flocq Require Import Core.Core IEEE754.Binary IEEE754.Bits IEEE754.BinarySingleNaN.
From RRTK Require Import Num.Num Num.B32 Model.Values Model.MotionProfile Proofs.ValuesProofs Proofs.B32Laws Proofs.B32Laws2.
Local Open Scope Z_scope.

Notation c := (cfg_chk true).
Notation mp32 := (@mp f32).

Lemma fzero_is_pos_zero : @fzero f32 B32 = B754_zero false.
Proof. vm_compute. reflexivity. Qed.
Lemma assert_ge0_inv (q : @quantity f32) : @assert_ge0 f32 B32 q = Ok tt -> BinarySingleNaN.Bleb (B754_zero false) (qv q) = true.
Proof.
  unfold assert_ge0, fgeb. cbn [fleb B32 B32_with_pow]. rewrite fzero_is_pos_zero.
  destruct (BinarySingleNaN.Bleb _ _); [reflexivity|discriminate].
Qed.
Lemma expect_time_inv (q : @quantity f32) t : @expect_time f32 B32 c q = Ok t -> t = time_of (qv q).
Proof.
  unfold expect_time, time_of_q. destruct (eq_assume_true c (qu q) (U_SECOND c)); [|discriminate].
  intros [= <-]. reflexivity.
Qed.
Lemma qadd_val (a b r : @quantity f32) : @qadd f32 B32 c a b = Ok r -> qv r = b32_add (qv a) (qv b).
Proof. unfold qadd. destruct (uadd c (qu a) (qu b)); cbn [bind]; [|discriminate]. intros [= <-]. reflexivity. Qed.

Theorem constructor_ordered s0 s1 mv ma (p : mp32) :
  @mp_new f32 B32 c s0 s1 mv ma = Ok p -> 0 <= mp_t1 p <= mp_t2 p /\ mp_t2 p <= mp_t3 p.
Proof.
  unfold mp_new.
  destruct (qsub c _ _) as [d1v|]; cbn [bind]; [|discriminate].
  match goal with |- context [assert_ge0 ?q] => set (t1 := q) end.
  destruct (assert_ge0 t1) as [[]|] eqn:A1; cbn [bind]; [|discriminate].
  destruct (qadd c _ _) as [sv|]; cbn [bind]; [|discriminate].
  destruct (qsub c _ _) as [d3v|]; cbn [bind]; [|discriminate].
  match goal with |- context [assert_ge0 ?q] => set (dt3 := q) end.
  destruct (assert_ge0 dt3) as [[]|] eqn:A3; cbn [bind]; [|discriminate].
  destruct (qadd c _ _) as [ev|]; cbn [bind]; [|discriminate].
  destruct (qsub c _ _) as [dp|]; cbn [bind]; [|discriminate].
  destruct (qadd c _ _) as [d13|]; cbn [bind]; [|discriminate].
  destruct (qsub c dp d13) as [d2p|]; cbn [bind]; [|discriminate].
  match goal with |- context [assert_ge0 ?q] => set (dt2 := q) end.
  destruct (assert_ge0 dt2) as [[]|] eqn:A2; cbn [bind]; [|discriminate].
  destruct (qadd c t1 dt2) as [t2|] eqn:Q2; cbn [bind]; [|discriminate].
  destruct (qadd c t2 dt3) as [t3|] eqn:Q3; cbn [bind]; [|discriminate].
  destruct (expect_time c t1) as [t1i|] eqn:E1; cbn [bind]; [|discriminate].
  destruct (expect_time c t2) as [t2i|] eqn:E2; cbn [bind]; [|discriminate].
  destruct (expect_time c t3) as [t3i|] eqn:E3; cbn [bind]; [|discriminate].
  intros [= <-]. cbn [mp_t1 mp_t2 mp_t3].
  apply expect_time_inv in E1, E2, E3. apply qadd_val in Q2, Q3. subst t1i t2i t3i. rewrite Q3, Q2.
  apply assert_ge0_inv in A1, A2, A3.
  destruct (time_of_chain (qv t1) (qv dt2) (qv dt3) A1 A2 A3) as [[H0 H1] H2].
  repeat split; assumption.
Qed.
