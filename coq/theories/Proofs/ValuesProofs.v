(* Lemmas about the value layer (units, quantities), generic in the numeric carrier. *)
From Coq Require Import ZArith Bool List Lia.
From RRTK Require Import Num.Num Model.Values.
Local Open Scope Z_scope.

Definition cfg_chk (s : bool) : cfg := {| chk := true; stdf := s |}.
Definition cfg_nochk (s : bool) : cfg := {| chk := false; stdf := s |}.

Lemma ueqb_eq u v : ueqb u v = true <-> u = v.
Proof.
  destruct u as [a b], v as [a' b']; unfold ueqb; cbn [mm sec].
  rewrite andb_true_iff, !Z.eqb_eq. split.
  - intros [-> ->]; reflexivity.
  - intros H; injection H; auto.
Qed.
Lemma ueqb_refl u : ueqb u u = true.
Proof. apply ueqb_eq; reflexivity. Qed.
Lemma ueqb_neq u v : ueqb u v = false <-> u <> v.
Proof.
  split.
  - intros H E. apply ueqb_eq in E. congruence.
  - intros H. destruct (ueqb u v) eqn:E; [apply ueqb_eq in E; contradiction|reflexivity].
Qed.

Section G.
Context {F : Type} {NF : Num F}.
Variable s : bool.
Notation c := (cfg_chk s).

Lemma unew_chk a b : unew c a b = {| mm := a; sec := b |}.
Proof. reflexivity. Qed.

Lemma umul_exps u v : umul c u v = {| mm := mm u + mm v; sec := sec u + sec v |}.
Proof. reflexivity. Qed.
Lemma udiv_exps u v : udiv c u v = {| mm := mm u - mm v; sec := sec u - sec v |}.
Proof. reflexivity. Qed.

Lemma uadd_ok_iff u v : (uadd c u v = Ok u <-> u = v) /\ (uadd c u v = Panic <-> u <> v).
Proof.
  unfold uadd, assert_ok, eq_assume_true; cbn [chk cfg_chk bind].
  destruct (ueqb u v) eqn:E; cbn [bind].
  - apply ueqb_eq in E. split; split; intros H; first [exact E | reflexivity | discriminate | contradiction].
  - apply ueqb_neq in E. split; split; intros H; first [exact E | reflexivity | discriminate | contradiction].
Qed.
Lemma usub_is_uadd u v : usub c u v = uadd c u v.
Proof. reflexivity. Qed.

(* quantities *)
Lemma qmul_spec (a b : @quantity F) :
  qmul c a b = {| qv := fmul (qv a) (qv b); qu := {| mm := mm (qu a) + mm (qu b); sec := sec (qu a) + sec (qu b) |} |}.
Proof. reflexivity. Qed.
Lemma qdiv_spec (a b : @quantity F) :
  qdiv c a b = {| qv := fdiv (qv a) (qv b); qu := {| mm := mm (qu a) - mm (qu b); sec := sec (qu a) - sec (qu b) |} |}.
Proof. reflexivity. Qed.

Lemma qadd_spec (a b : @quantity F) :
  (qu a = qu b -> qadd c a b = Ok {| qv := fadd (qv a) (qv b); qu := qu a |}) /\
  (qu a <> qu b -> qadd c a b = Panic).
Proof.
  unfold qadd, uadd, assert_ok, eq_assume_true; cbn [chk cfg_chk bind]. split; intros H.
  - rewrite H, ueqb_refl. cbn. rewrite <- H. reflexivity.
  - apply ueqb_neq in H. rewrite H. reflexivity.
Qed.
Lemma qsub_spec (a b : @quantity F) :
  (qu a = qu b -> qsub c a b = Ok {| qv := fsub (qv a) (qv b); qu := qu a |}) /\
  (qu a <> qu b -> qsub c a b = Panic).
Proof.
  unfold qsub, usub, assert_ok, eq_assume_true; cbn [chk cfg_chk bind]. split; intros H.
  - rewrite H, ueqb_refl. cbn. rewrite <- H. reflexivity.
  - apply ueqb_neq in H. rewrite H. reflexivity.
Qed.
Lemma qpcmp_spec (a b : @quantity F) :
  (qu a = qu b -> qpcmp c a b = Ok (fpcmp (qv a) (qv b))) /\ (qu a <> qu b -> qpcmp c a b = Panic).
Proof.
  unfold qpcmp, assert_ok, eq_assume_true; cbn [chk cfg_chk bind]. split; intros H.
  - rewrite H, ueqb_refl. reflexivity.
  - apply ueqb_neq in H. rewrite H. reflexivity.
Qed.
Lemma qadd_panic_iff (a b : @quantity F) : qadd c a b = Panic <-> qu a <> qu b.
Proof.
  destruct (qadd_spec a b) as [H1 H2]. split; [|exact H2].
  intros HP E. rewrite (H1 E) in HP. discriminate.
Qed.
Lemma qsub_panic_iff (a b : @quantity F) : qsub c a b = Panic <-> qu a <> qu b.
Proof.
  destruct (qsub_spec a b) as [H1 H2]. split; [|exact H2].
  intros HP E. rewrite (H1 E) in HP. discriminate.
Qed.
Lemma qpcmp_panic_iff (a b : @quantity F) : qpcmp c a b = Panic <-> qu a <> qu b.
Proof.
  destruct (qpcmp_spec a b) as [H1 H2]. split; [|exact H2].
  intros HP E. rewrite (H1 E) in HP. discriminate.
Qed.

(* operating on bare units = operating on quantities and taking the unit *)
Definition res_map {A B} (f : A -> B) (r : res A) : res B := match r with Ok a => Ok (f a) | Panic => Panic end.
Lemma unit_ops_agree (a b : @quantity F) :
  res_map qu (qadd c a b) = uadd c (qu a) (qu b) /\
  res_map qu (qsub c a b) = usub c (qu a) (qu b) /\
  qu (qmul c a b) = umul c (qu a) (qu b) /\
  qu (qdiv c a b) = udiv c (qu a) (qu b) /\
  qu (qneg a) = uneg (qu a) /\ qu (qabs c a) = qu a.
Proof.
  repeat split.
  - unfold qadd. destruct (uadd c (qu a) (qu b)); reflexivity.
  - unfold qsub. destruct (usub c (qu a) (qu b)); reflexivity.
Qed.

(* position derivatives *)
Lemma pd_roundtrip d : pd_of_unit c (unit_of_pd c d) = Some d.
Proof. destruct d; reflexivity. Qed.
Lemma pd_of_unit_inv u d : pd_of_unit c u = Some d -> u = unit_of_pd c d.
Proof.
  unfold pd_of_unit.
  destruct (ueqb u (unew c 1 0)) eqn:E0; [apply ueqb_eq in E0; intros [= <-]; exact E0|].
  destruct (ueqb u (unew c 1 (-1))) eqn:E1; [apply ueqb_eq in E1; intros [= <-]; exact E1|].
  destruct (ueqb u (unew c 1 (-2))) eqn:E2; [apply ueqb_eq in E2; intros [= <-]; exact E2|].
  discriminate.
Qed.
Lemma q_of_command_unit (x : @command F) : qu (q_of_command c x) = unit_of_pd c (c_kind x) /\ qv (q_of_command c x) = c_val x.
Proof. split; reflexivity. Qed.
Lemma unit_of_piece_spec p :
  unit_of_piece c p = match p with
                      | BeforeStart | Complete => None
                      | InitialAcceleration | EndAcceleration => Some {| mm := 1; sec := -2 |}
                      | ConstantVelocity => Some {| mm := 1; sec := -1 |} end.
Proof. destruct p; reflexivity. Qed.

(* mixed forms: the converted operand has the unit second / dimensionless *)
Lemma q_of_time_unit t : qu (q_of_time c t) = {| mm := 0; sec := 1 |}.
Proof. reflexivity. Qed.
Lemma q_of_dint_unit d : qu (@q_of_dint F NF c d) = {| mm := 0; sec := 0 |}.
Proof. reflexivity. Qed.
End G.

(* with checking compiled out, nothing is ever rejected and every unit is the zero-sized one *)
Section NoChk.
Context {F : Type} {NF : Num F}.
Variable s : bool.
Notation c := (cfg_nochk s).
Lemma nochk_never_panics (a b : @quantity F) :
  qadd c a b = Ok (qnew (fadd (qv a) (qv b)) (qu a)) /\
  qsub c a b = Ok (qnew (fsub (qv a) (qv b)) (qu a)) /\
  qpcmp c a b = Ok (fpcmp (qv a) (qv b)) /\
  (forall u v, uadd c u v = Ok u) /\ (forall u v, usub c u v = Ok u) /\
  (forall u v, assert_ok c u v = Ok tt).
Proof. repeat split. Qed.
Lemma nochk_conversions_accept (q : @quantity F) :
  time_of_q c q = Some (f_to_i64 (fmul (qv q) f1e9)) /\ dint_of_q c q = Some (f_to_i64 (qv q)).
Proof. split; reflexivity. Qed.
Lemma nochk_setters_accept (st : @state F) (q : @quantity F) :
  snd (s_set_acc c st q) = true /\ snd (s_set_vel c st q) = true /\ snd (s_set_pos c st q) = true.
Proof. repeat split. Qed.
End NoChk.
