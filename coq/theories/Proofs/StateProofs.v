(* State / Command: kinematics (exact arithmetic), setters, conversions. *)
From Coq Require Import ZArith Bool List Lia Reals Lra.
From Flocq Require Import Core.Raux.
From RRTK Require Import Num.Num Num.RR Model.Values Proofs.ValuesProofs.
Local Open Scope Z_scope.

Section G.
Context {F : Type} {NF : Num F}.
Variable s : bool.
Notation c := (cfg_chk s).

Lemma setters_spec (st : @state F) (q : @quantity F) :
  (qu q = {| mm := 1; sec := 0 |} -> s_set_pos c st q = ({| s_pos := qv q; s_vel := fzero; s_acc := fzero |}, true)) /\
  (qu q <> {| mm := 1; sec := 0 |} -> s_set_pos c st q = (st, false)) /\
  (qu q = {| mm := 1; sec := -1 |} -> s_set_vel c st q = ({| s_pos := s_pos st; s_vel := qv q; s_acc := fzero |}, true)) /\
  (qu q <> {| mm := 1; sec := -1 |} -> s_set_vel c st q = (st, false)) /\
  (qu q = {| mm := 1; sec := -2 |} -> s_set_acc c st q = ({| s_pos := s_pos st; s_vel := s_vel st; s_acc := qv q |}, true)) /\
  (qu q <> {| mm := 1; sec := -2 |} -> s_set_acc c st q = (st, false)).
Proof.
  unfold s_set_pos, s_set_vel, s_set_acc, eq_assume_true, U_MM, U_MM_S, U_MM_S2; cbn [chk cfg_chk]; rewrite !unew_chk.
  repeat split; intros H; try (rewrite H; reflexivity); apply ueqb_neq in H; rewrite H; reflexivity.
Qed.
Lemma raw_setters_spec (st : @state F) (x : F) :
  s_set_pos_raw st x = {| s_pos := x; s_vel := fzero; s_acc := fzero |} /\
  s_set_vel_raw st x = {| s_pos := s_pos st; s_vel := x; s_acc := fzero |} /\
  s_set_acc_raw st x = {| s_pos := s_pos st; s_vel := s_vel st; s_acc := x |}.
Proof. repeat split. Qed.

Lemma c_of_state_spec (st : @state F) :
  (feqb (s_acc st) fzero = false -> c_of_state st = cnew Acceleration (s_acc st)) /\
  (feqb (s_acc st) fzero = true -> feqb (s_vel st) fzero = false -> c_of_state st = cnew Velocity (s_vel st)) /\
  (feqb (s_acc st) fzero = true -> feqb (s_vel st) fzero = true -> c_of_state st = cnew Position (s_pos st)).
Proof. unfold c_of_state. repeat split; intros; repeat match goal with H : feqb _ _ = _ |- _ => rewrite H; clear H end; reflexivity. Qed.

Lemma command_accessors (x : @command F) :
  cnew (c_kind x) (c_val x) = x /\
  c_of_q c (q_of_command c x) = Some x /\
  (forall q, c_of_q c q = Some x -> q = q_of_command c x) /\
  c_get_acc c x = qnew (match c_kind x with Acceleration => c_val x | _ => fzero end) {| mm := 1; sec := -2 |} /\
  (c_kind x = Position -> c_get_pos c x = Some (q_of_command c x) /\ c_get_vel c x = Some (qnew fzero {| mm := 1; sec := -1 |})) /\
  (c_kind x = Velocity -> c_get_pos c x = None /\ c_get_vel c x = Some (q_of_command c x)) /\
  (c_kind x = Acceleration -> c_get_pos c x = None /\ c_get_vel c x = None /\ c_get_acc c x = q_of_command c x).
Proof.
  destruct x as [k v]. repeat split; try (destruct k; reflexivity); try (cbn in *; subst; reflexivity).
  intros q. unfold c_of_q. destruct (pd_of_unit c (qu q)) eqn:E; [|discriminate].
  intros [= <- <-]. apply pd_of_unit_inv in E. destruct q as [qv0 qu0]; cbn in *. subst. reflexivity.
Qed.

Lemma command_arith (a b : @command F) (k : F) :
  (c_kind a = c_kind b -> c_add a b = Ok (cnew (c_kind a) (fadd (c_val a) (c_val b))) /\
                          c_sub a b = Ok (cnew (c_kind a) (fsub (c_val a) (c_val b)))) /\
  (c_kind a <> c_kind b -> c_add a b = Panic /\ c_sub a b = Panic) /\
  c_mulf a k = cnew (c_kind a) (fmul (c_val a) k) /\ c_divf a k = cnew (c_kind a) (fdiv (c_val a) k) /\
  c_neg a = cnew (c_kind a) (fneg (c_val a)).
Proof.
  unfold c_add, c_sub.
  split; [intros Hk; rewrite Hk; destruct (c_kind b); split; reflexivity|].
  split; [intros Hk; destruct (c_kind a), (c_kind b); try (split; reflexivity); contradiction|].
  repeat split.
Qed.
End G.

(* exact arithmetic: v' = v + a dt, p' = p + v dt + a dt^2 / 2, acceleration unchanged *)
Local Open Scope R_scope.
Lemma update_closed_form (s : bool) (p v a : R) (dt : Z) :
  let d := IZR dt / 1000000000 in
  s_update (cfg_chk s) {| s_pos := p; s_vel := v; s_acc := a |} dt =
  Ok {| s_pos := p + v * d + a * d * d / 2; s_vel := v + a * d; s_acc := a |}.
Proof.
  intros d. unfold s_update. cbn. unfold d. f_equal. f_equal; field.
Qed.

Lemma update_zero_dt_R (s : bool) (p v a : R) :
  s_update (cfg_chk s) {| s_pos := p; s_vel := v; s_acc := a |} 0 = Ok {| s_pos := p; s_vel := v; s_acc := a |}.
Proof. rewrite (update_closed_form s p v a 0). cbv zeta. f_equal. f_equal; field. Qed.
