(* Time / DimensionlessInteger: exact i64 arithmetic; conversions of other units fail. *)
From Coq Require Import ZArith Bool List Lia.
From RRTK Require Import Num.Num Num.Laws Model.Values Proofs.ValuesProofs.
Local Open Scope Z_scope.

Lemma i64_ck_ok z : in_i64 z = true -> i64_ck z = Ok z.
Proof. unfold i64_ck. intros ->. reflexivity. Qed.
Lemma i64_ck_panic z : in_i64 z = false -> i64_ck z = Panic.
Proof. unfold i64_ck. intros ->. reflexivity. Qed.

Lemma int_ops_exact a b :
  (in_i64 (a + b) = true -> iadd a b = Ok (a + b)) /\
  (in_i64 (a - b) = true -> isub a b = Ok (a - b)) /\
  (in_i64 (a * b) = true -> imul a b = Ok (a * b)) /\
  (in_i64 (- a) = true -> ineg a = Ok (- a)) /\
  (b <> 0 -> in_i64 (Z.quot a b) = true -> idiv a b = Ok (Z.quot a b)) /\
  idiv a 0 = Panic /\
  (in_i64 (a + b) = false -> iadd a b = Panic) /\
  (in_i64 (a - b) = false -> isub a b = Panic) /\
  (in_i64 (a * b) = false -> imul a b = Panic).
Proof.
  unfold iadd, isub, imul, ineg, idiv.
  repeat split; intros; try (apply i64_ck_ok; assumption); try (apply i64_ck_panic; assumption).
  destruct (b =? 0) eqn:E; [apply Z.eqb_eq in E; contradiction|]. apply i64_ck_ok; assumption.
Qed.

(* the only overflowing quotient is MIN / -1 *)

Section Conv.
Context {F : Type} {NF : Num F}.
Variable s : bool.
Notation c := (cfg_chk s).

Lemma time_of_q_iff (q : @quantity F) :
  (qu q = {| mm := 0; sec := 1 |} -> time_of_q c q = Some (f_to_i64 (fmul (qv q) f1e9))) /\
  (qu q <> {| mm := 0; sec := 1 |} -> time_of_q c q = None).
Proof.
  unfold time_of_q, eq_assume_true; cbn [chk cfg_chk]. split; intros H.
  - rewrite H. reflexivity.
  - apply ueqb_neq in H. unfold U_SECOND. rewrite unew_chk, H. reflexivity.
Qed.
Lemma dint_of_q_iff (q : @quantity F) :
  (qu q = {| mm := 0; sec := 0 |} -> dint_of_q c q = Some (f_to_i64 (qv q))) /\
  (qu q <> {| mm := 0; sec := 0 |} -> dint_of_q c q = None).
Proof.
  unfold dint_of_q, eq_assume_true; cbn [chk cfg_chk]. split; intros H.
  - rewrite H. reflexivity.
  - apply ueqb_neq in H. unfold U_DIMLESS. rewrite unew_chk, H. reflexivity.
Qed.

(* mixed operators written with swapped operands equal the operator on converted operands *)
Context {L : NumLaws F}.
Lemma qmul_comm (a b : @quantity F) : qmul c a b = qmul c b a.
Proof.
  unfold qmul, qnew, umul. rewrite !unew_chk. rewrite (fmul_comm (qv a) (qv b)).
  rewrite (Z.add_comm (mm (qu a))), (Z.add_comm (sec (qu a))). reflexivity.
Qed.
Lemma mixed_swapped (t d : Z) (q : @quantity F) :
  t_mul_q c t q = qmul c (q_of_time c t) q /\ d_mul_q c d q = qmul c (q_of_dint c d) q.
Proof. split; unfold t_mul_q, q_mul_t, d_mul_q, q_mul_d; apply qmul_comm. Qed.
End Conv.
