(* PIDControllerStream: the state machine refines a function of its input history (any length). *)
From Coq Require Import ZArith Bool List Lia.
From RRTK Require Import Num.Num Model.Values Model.Streams.
Import ListNotations.
Local Open Scope Z_scope.

Section Pid.
Context {F : Type} {NF : Num F}.
Variable c : cfg.
Variable sp : F.
Variable k : @kvals F.

(* run a history from a state; a panicking step (i64 overflow of a time difference) aborts *)
Fixpoint pid_run (s : pid) (h : list (out F)) : res pid :=
  match h with
  | [] => Ok s
  | e :: r => match pid_step c s e with Ok (s', _) => pid_run s' r | Panic => Panic end
  end.
Definition step1 (s : pid) (e : out F) : res pid :=
  match pid_step c s e with Ok (s', _) => Ok s' | Panic => Panic end.
Fixpoint run_r (hr : list (out F)) : res pid :=     (* history newest first *)
  match hr with
  | [] => Ok (pid_init sp k)
  | e :: r => match run_r r with Ok s => step1 s e | Panic => Panic end
  end.
Lemma pid_run_app s h e : pid_run s (h ++ [e]) = match pid_run s h with Ok s' => step1 s' e | Panic => Panic end.
Proof.
  revert s. induction h as [|x xs IH]; intros s; cbn [pid_run app].
  - unfold step1. destruct (pid_step c s e) as [[s' u]|]; reflexivity.
  - destruct (pid_step c s x) as [[s' u]|]; [apply IH|reflexivity].
Qed.
Lemma run_fold h : pid_run (pid_init sp k) h = run_r (rev h).
Proof.
  induction h as [|e r IH] using rev_ind; [reflexivity|].
  rewrite pid_run_app, rev_app_distr. cbn [rev app run_r]. rewrite IH. reflexivity.
Qed.

(* ---- the specification: a function of the history (newest first) ---- *)
(* errors (setpoint - value) of the present samples since the last absent / errored input *)
Fixpoint recent (hr : list (out F)) : list (Z * F) :=
  match hr with
  | OSome d :: r => (d_time d, fsub sp (d_val d)) :: recent r
  | _ => []
  end.
Definition dtf (t tp : Z) : F := fdiv (f_of_Z (t - tp)) f1e9.
Definition addend (tp : Z) (ep : F) (t : Z) (e : F) : F := fdiv (fmul (dtf t tp) (fadd ep e)) ftwo.
Definition deriv (tp : Z) (ep : F) (t : Z) (e : F) : F := fdiv (fsub e ep) (dtf t tp).
(* trapezoidal integral of the error, accumulated left to right starting from 0 *)
Fixpoint integral (l : list (Z * F)) : F :=
  match l with
  | [] => fzero
  | (t, e) :: r =>
      match r with
      | [] => fadd fzero fzero
      | (tp, ep) :: _ => fadd (integral r) (addend tp ep t e)
      end
  end.
(* backward difference of the last two samples, 0 on the first *)
Definition derivative (l : list (Z * F)) : F :=
  match l with
  | (t, e) :: (tp, ep) :: _ => deriv tp ep t e
  | _ => fzero
  end.
Definition law (e i d : F) : F := fadd (fadd (fmul (kp k) e) (fmul (ki k) i)) (fmul (kd k) d).
Definition spec_r (hr : list (out F)) : out F :=
  match hr with
  | [] => ONone
  | ONone :: _ => ONone
  | OErr e :: _ => OErr e
  | OSome d :: _ =>
      let l := recent hr in
      OSome (mkDatum (d_time d) (law (fsub sp (d_val d)) (integral l) (derivative l)))
  end.
Definition pid_spec (h : list (out F)) : out F := spec_r (rev h).

Definition prev_of (l : list (Z * F)) : option (datum F) :=
  match l with (t, e) :: _ => Some (mkDatum t e) | [] => None end.

Definition Inv (hr : list (out F)) (s : pid) : Prop :=
  pid_sp s = sp /\ pid_k s = k /\
  pid_prev s = prev_of (recent hr) /\ pid_int s = integral (recent hr) /\ pid_out s = spec_r hr.

Lemma isub_ok a b z : isub a b = Ok z -> z = a - b.
Proof. unfold isub, i64_ck. destruct (in_i64 (a - b)); [intros [= <-]; reflexivity|discriminate]. Qed.

Lemma inv_run hr : forall s, run_r hr = Ok s -> Inv hr s.
Proof.
  induction hr as [|e r IH]; intros s.
  - cbn [run_r]. intros [= <-]. repeat split.
  - cbn [run_r]. destruct (run_r r) as [s0|] eqn:R; [|discriminate].
    specialize (IH s0 eq_refl). destruct IH as (Hsp & Hk & Hp & Hi & Hc).
    unfold step1. destruct e as [er| |d]; cbn [pid_step].
    + intros [= <-]. repeat split; cbn; assumption.
    + intros [= <-]. repeat split; cbn; assumption.
    + rewrite Hp, Hi, Hsp, Hk. cbn [recent spec_r].
      destruct (recent r) as [|[tp ep] l'] eqn:E; cbn [prev_of].
      * cbn [bind fst snd]. intros [= <-]. repeat split;
        cbn [pid_int pid_out pid_prev recent spec_r d_time d_val]; rewrite ?E; reflexivity.
      * unfold dt_f. cbn [d_time d_val].
        destruct (isub (d_time d) tp) as [z|] eqn:Z0; cbn [bind]; [|discriminate].
        apply isub_ok in Z0. subst z. cbn [fst snd].
        intros [= <-]. repeat split;
        cbn [pid_int pid_out pid_prev recent spec_r d_time d_val]; rewrite ?E; reflexivity.
Qed.

Theorem pid_refines_spec h s : pid_run (pid_init sp k) h = Ok s -> pid_get s = pid_spec h.
Proof. rewrite run_fold. intros H. apply inv_run in H. exact (proj2 (proj2 (proj2 (proj2 H)))). Qed.

(* update() returns the error exactly on an error event; the debug_assert of the first-sample branch
   (int_error == 0.0 when there is no previous error) never fires *)
Lemma pid_update_result s i s' u : pid_step c s i = Ok (s', u) ->
  match i with OErr e => u = UErr e | _ => u = UOk end.
Proof.
  destruct i as [e| |d]; cbn [pid_step]; try (intros [= <- <-]; reflexivity).
  destruct (pid_prev s) as [pe|]; cbn [bind].
  - destruct (dt_f c (d_time d) (d_time pe)); cbn [bind]; [intros [= <- <-]; reflexivity|discriminate].
  - intros [= <- <-]; reflexivity.
Qed.
Lemma pid_assert_never_fires hr s : run_r hr = Ok s -> pid_prev s = None -> pid_int s = fzero.
Proof.
  intros H Hp. apply inv_run in H. destruct H as (_ & _ & Hp' & Hi & _).
  rewrite Hp in Hp'. rewrite Hi. destruct (recent hr) as [|[t e] l]; [reflexivity|discriminate].
Qed.

(* shifting every timestamp by a constant shifts the output stamp and leaves values unchanged *)
Definition shift_out (d : Z) (o : out F) : out F :=
  match o with OSome x => OSome (mkDatum (d_time x + d) (d_val x)) | y => y end.
Lemma recent_shift d hr :
  recent (map (shift_out d) hr) = map (fun p => (fst p + d, snd p)) (recent hr).
Proof.
  induction hr as [|e r IH]; [reflexivity|]. destruct e as [er| |x]; try reflexivity.
  cbn [map shift_out recent d_time d_val fst snd]. rewrite IH. reflexivity.
Qed.
Lemma integral_shift d l : integral (map (fun p => (fst p + d, snd p)) l) = integral l.
Proof.
  induction l as [|[t e] r IH]; [reflexivity|].
  destruct r as [|[tp ep] r']; [reflexivity|].
  cbn [map fst snd integral] in *. rewrite IH.
  unfold addend, dtf. replace (t + d - (tp + d)) with (t - tp) by lia. reflexivity.
Qed.
Lemma derivative_shift d l : derivative (map (fun p => (fst p + d, snd p)) l) = derivative l.
Proof.
  destruct l as [|[t e] [|[tp ep] r']]; try reflexivity.
  cbn [map fst snd derivative]. unfold deriv, dtf. replace (t + d - (tp + d)) with (t - tp) by lia. reflexivity.
Qed.
Theorem pid_spec_shift d h : pid_spec (map (shift_out d) h) = shift_out d (pid_spec h).
Proof.
  unfold pid_spec. rewrite <- map_rev. set (hr := rev h). destruct hr as [|e r]; [reflexivity|].
  destruct e as [er| |x]; try reflexivity.
  cbn [map shift_out spec_r]. cbn [d_time d_val].
  change (OSome {| d_time := d_time x + d; d_val := d_val x |} :: map (shift_out d) r) with (map (shift_out d) (OSome x :: r)).
  rewrite recent_shift, integral_shift, derivative_shift. reflexivity.
Qed.
End Pid.
