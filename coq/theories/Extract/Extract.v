(* Extraction of the executable model (binary32 instance).  ExtrOcamlBasic only; Z and positive
   stay extracted datatypes; no Extract Constant of our own. *)
From Coq Require Import ZArith List.
From Coq Require Extraction ExtrOcamlBasic.
From RRTK Require Import Model.Case.
Extraction Language OCaml.
Extraction "model.ml" run_case.
