// Case kind 1: programs over the public value API.  Mirror of coq/theories/Model/Prog.v, with one
// arm per `impl` of the crate: every arm calls the crate's own operator / function.
use crate::wire::*;
use crate::{W_BAD, W_PANIC, W_TYPE};
use rrtk::*;

#[derive(Clone, Debug)]
pub enum Val {
    F(f32),
    Q(Quantity),
    T(Time),
    D(DimensionlessInteger),
    U(Unit),
    I(i64),
    B(bool),
    S(State),
    C(Command),
    PD(PositionDerivative),
    Piece(MotionProfilePiece),
    None_,
    Some_(Box<Val>),
    Dat(i64, Box<Val>),
    Ord(Option<core::cmp::Ordering>),
    Unit_,
    Pair(Box<Val>, Box<Val>),
}
use Val::*;

pub struct TypeErr;
type R = Result<Val, TypeErr>;

pub fn enc_val(v: &Val, out: &mut Vec<i64>) {
    match v {
        F(f) => {
            out.push(1);
            out.push(bits_of_f(*f));
        }
        Q(q) => {
            out.push(2);
            enc_q(*q, out);
        }
        T(t) => {
            out.push(3);
            out.push(t.0);
        }
        D(d) => {
            out.push(4);
            out.push(d.0);
        }
        U(u) => {
            out.push(5);
            let (m, s) = unit_exps(*u);
            out.push(m);
            out.push(s);
        }
        I(i) => {
            out.push(6);
            out.push(*i);
        }
        B(b) => {
            out.push(7);
            out.push(*b as i64);
        }
        S(s) => {
            out.push(8);
            enc_state(*s, out);
        }
        C(c) => {
            out.push(9);
            enc_cmd(*c, out);
        }
        PD(d) => {
            out.push(10);
            out.push(enc_pd(*d));
        }
        Piece(p) => {
            out.push(11);
            out.push(enc_piece(*p));
        }
        None_ => out.push(12),
        Some_(w) => {
            out.push(17);
            enc_val(w, out);
        }
        Dat(t, w) => {
            out.push(13);
            out.push(*t);
            enc_val(w, out);
        }
        Ord(o) => {
            out.push(14);
            out.push(match o {
                None => 0,
                Some(core::cmp::Ordering::Less) => 1,
                Some(core::cmp::Ordering::Equal) => 2,
                Some(core::cmp::Ordering::Greater) => 3,
            });
        }
        Unit_ => out.push(15),
        Pair(a, b) => {
            out.push(16);
            enc_val(a, out);
            enc_val(b, out);
        }
    }
}

pub fn dec_val(l: &[i64], pos: &mut usize) -> Option<Val> {
    let tag = *l.get(*pos)?;
    *pos += 1;
    let mut next = |pos: &mut usize| -> Option<i64> {
        let x = *l.get(*pos)?;
        *pos += 1;
        Some(x)
    };
    Some(match tag {
        1 => F(f_of_bits(next(pos)?)),
        2 => {
            let b = next(pos)?;
            let m = next(pos)?;
            let s = next(pos)?;
            Q(Quantity::new(f_of_bits(b), Unit::new(m as i8, s as i8)))
        }
        3 => T(Time::new(next(pos)?)),
        4 => D(DimensionlessInteger::new(next(pos)?)),
        5 => {
            let m = next(pos)?;
            let s = next(pos)?;
            U(Unit::new(m as i8, s as i8))
        }
        6 => I(next(pos)?),
        7 => B(next(pos)? != 0),
        8 => {
            let p = next(pos)?;
            let v = next(pos)?;
            let a = next(pos)?;
            S(State::new_raw(f_of_bits(p), f_of_bits(v), f_of_bits(a)))
        }
        9 => {
            let k = next(pos)?;
            let b = next(pos)?;
            C(Command::new(dec_pd(k), f_of_bits(b)))
        }
        10 => PD(dec_pd(next(pos)?)),
        11 => Piece(dec_piece(next(pos)?)),
        12 => None_,
        17 => Some_(Box::new(dec_val(l, pos)?)),
        13 => {
            let t = next(pos)?;
            Dat(t, Box::new(dec_val(l, pos)?))
        }
        15 => Unit_,
        16 => {
            let a = dec_val(l, pos)?;
            let b = dec_val(l, pos)?;
            Pair(Box::new(a), Box::new(b))
        }
        _ => return None,
    })
}

pub enum Expr {
    Lit(Val),
    Op(i64, Vec<Expr>),
}

pub fn dec_expr(l: &[i64], pos: &mut usize) -> Option<Expr> {
    let tag = *l.get(*pos)?;
    *pos += 1;
    match tag {
        0 => Some(Expr::Lit(dec_val(l, pos)?)),
        100 => {
            let o = *l.get(*pos)?;
            let n = *l.get(*pos + 1)?;
            *pos += 2;
            let mut args = Vec::new();
            for _ in 0..n.max(0) {
                args.push(dec_expr(l, pos)?);
            }
            Some(Expr::Op(o, args))
        }
        _ => None,
    }
}

fn vopt<A>(f: impl Fn(A) -> Val, o: Option<A>) -> Val {
    match o {
        Some(a) => Some_(Box::new(f(a))),
        None => None_,
    }
}
fn vres<A>(f: impl Fn(A) -> Val, o: Result<A, ()>) -> Val {
    match o {
        Ok(a) => Some_(Box::new(f(a))),
        Err(()) => None_,
    }
}
fn dat<T>(d: Datum<T>, f: impl Fn(T) -> Val) -> Val {
    Dat(d.time.0, Box::new(f(d.value)))
}

// ---- binary arithmetic: one arm per impl ----
macro_rules! bin4 {
    ($o:expr, $a:expr, $b:expr, $wrap:expr) => {
        match $o {
            1 => Ok($wrap($a + $b)),
            2 => Ok($wrap($a - $b)),
            3 => Ok($wrap($a * $b)),
            4 => Ok($wrap($a / $b)),
            _ => Err(TypeErr),
        }
    };
}
macro_rules! asg4 {
    ($o:expr, $a:expr, $b:expr, $wrap:expr) => {{
        let mut x = $a;
        match $o {
            1 => x += $b,
            2 => x -= $b,
            3 => x *= $b,
            4 => x /= $b,
            _ => return Err(TypeErr),
        }
        Ok($wrap(x))
    }};
}
macro_rules! bin_addsub {
    ($o:expr, $a:expr, $b:expr, $wrap:expr) => {
        match $o {
            1 => Ok($wrap($a + $b)),
            2 => Ok($wrap($a - $b)),
            _ => Err(TypeErr),
        }
    };
}
macro_rules! asg_addsub {
    ($o:expr, $a:expr, $b:expr, $wrap:expr) => {{
        let mut x = $a;
        match $o {
            1 => x += $b,
            2 => x -= $b,
            _ => return Err(TypeErr),
        }
        Ok($wrap(x))
    }};
}
macro_rules! bin_muldiv {
    ($o:expr, $a:expr, $b:expr, $wrap:expr) => {
        match $o {
            3 => Ok($wrap($a * $b)),
            4 => Ok($wrap($a / $b)),
            _ => Err(TypeErr),
        }
    };
}
macro_rules! asg_muldiv {
    ($o:expr, $a:expr, $b:expr, $wrap:expr) => {{
        let mut x = $a;
        match $o {
            3 => x *= $b,
            4 => x /= $b,
            _ => return Err(TypeErr),
        }
        Ok($wrap(x))
    }};
}

fn dq(d: Datum<Quantity>) -> Val {
    dat(d, Q)
}
fn df(d: Datum<f32>) -> Val {
    dat(d, F)
}
fn ds(d: Datum<State>) -> Val {
    dat(d, S)
}
fn dc(d: Datum<Command>) -> Val {
    dat(d, C)
}

fn arith(o: i64, asg: bool, x: &Val, y: &Val) -> R {
    match (x, y) {
        (F(a), F(b)) => {
            if asg {
                asg4!(o, *a, *b, F)
            } else {
                bin4!(o, *a, *b, F)
            }
        }
        (Q(a), Q(b)) => {
            if asg {
                asg4!(o, *a, *b, Q)
            } else {
                bin4!(o, *a, *b, Q)
            }
        }
        (Q(a), T(b)) => {
            if asg {
                asg4!(o, *a, *b, Q)
            } else {
                bin4!(o, *a, *b, Q)
            }
        }
        (Q(a), D(b)) => {
            if asg {
                asg4!(o, *a, *b, Q)
            } else {
                bin4!(o, *a, *b, Q)
            }
        }
        (T(a), Q(b)) => {
            if asg {
                Err(TypeErr)
            } else {
                bin4!(o, *a, *b, Q)
            }
        }
        (D(a), Q(b)) => {
            if asg {
                Err(TypeErr)
            } else {
                bin4!(o, *a, *b, Q)
            }
        }
        (T(a), T(b)) => {
            if asg {
                asg_addsub!(o, *a, *b, T)
            } else {
                match o {
                    1 => Ok(T(*a + *b)),
                    2 => Ok(T(*a - *b)),
                    3 => Ok(Q(*a * *b)),
                    4 => Ok(Q(*a / *b)),
                    _ => Err(TypeErr),
                }
            }
        }
        (T(a), D(b)) => {
            if asg {
                asg_muldiv!(o, *a, *b, T)
            } else {
                bin_muldiv!(o, *a, *b, T)
            }
        }
        (D(a), D(b)) => {
            if asg {
                asg4!(o, *a, *b, D)
            } else {
                bin4!(o, *a, *b, D)
            }
        }
        (D(a), T(b)) => {
            if asg {
                Err(TypeErr)
            } else {
                match o {
                    3 => Ok(T(*a * *b)),
                    4 => Ok(Q(*a / *b)),
                    _ => Err(TypeErr),
                }
            }
        }
        (U(a), U(b)) => {
            if asg {
                asg4!(o, *a, *b, U)
            } else {
                bin4!(o, *a, *b, U)
            }
        }
        (S(a), S(b)) => {
            if asg {
                asg_addsub!(o, *a, *b, S)
            } else {
                bin_addsub!(o, *a, *b, S)
            }
        }
        (S(a), F(b)) => {
            if asg {
                asg_muldiv!(o, *a, *b, S)
            } else {
                bin_muldiv!(o, *a, *b, S)
            }
        }
        (C(a), C(b)) => {
            if asg {
                asg_addsub!(o, *a, *b, C)
            } else {
                bin_addsub!(o, *a, *b, C)
            }
        }
        (C(a), F(b)) => {
            if asg {
                asg_muldiv!(o, *a, *b, C)
            } else {
                bin_muldiv!(o, *a, *b, C)
            }
        }
        (Dat(t1, v1), Dat(t2, v2)) => {
            let (t1, t2) = (Time(*t1), Time(*t2));
            match (&**v1, &**v2) {
                (F(a), F(b)) => {
                    let (a, b) = (Datum::new(t1, *a), Datum::new(t2, *b));
                    if asg {
                        asg4!(o, a, b, df)
                    } else {
                        bin4!(o, a, b, df)
                    }
                }
                (Q(a), Q(b)) => {
                    let (a, b) = (Datum::new(t1, *a), Datum::new(t2, *b));
                    if asg {
                        asg4!(o, a, b, dq)
                    } else {
                        bin4!(o, a, b, dq)
                    }
                }
                (S(a), S(b)) => {
                    let (a, b) = (Datum::new(t1, *a), Datum::new(t2, *b));
                    if asg {
                        asg_addsub!(o, a, b, ds)
                    } else {
                        bin_addsub!(o, a, b, ds)
                    }
                }
                (C(a), C(b)) => {
                    let (a, b) = (Datum::new(t1, *a), Datum::new(t2, *b));
                    if asg {
                        asg_addsub!(o, a, b, dc)
                    } else {
                        bin_addsub!(o, a, b, dc)
                    }
                }
                (S(a), F(b)) => {
                    let (a, b) = (Datum::new(t1, *a), Datum::new(t2, *b));
                    if asg {
                        asg_muldiv!(o, a, b, ds)
                    } else {
                        bin_muldiv!(o, a, b, ds)
                    }
                }
                (C(a), F(b)) => {
                    let (a, b) = (Datum::new(t1, *a), Datum::new(t2, *b));
                    if asg {
                        asg_muldiv!(o, a, b, dc)
                    } else {
                        bin_muldiv!(o, a, b, dc)
                    }
                }
                _ => Err(TypeErr),
            }
        }
        (Dat(t1, v1), y) => {
            let t1 = Time(*t1);
            match (&**v1, y) {
                (F(a), F(b)) => {
                    let a = Datum::new(t1, *a);
                    if asg {
                        asg4!(o, a, *b, df)
                    } else {
                        bin4!(o, a, *b, df)
                    }
                }
                (Q(a), Q(b)) => {
                    let a = Datum::new(t1, *a);
                    if asg {
                        asg4!(o, a, *b, dq)
                    } else {
                        bin4!(o, a, *b, dq)
                    }
                }
                (S(a), S(b)) => {
                    let a = Datum::new(t1, *a);
                    if asg {
                        asg_addsub!(o, a, *b, ds)
                    } else {
                        bin_addsub!(o, a, *b, ds)
                    }
                }
                (C(a), C(b)) => {
                    let a = Datum::new(t1, *a);
                    if asg {
                        asg_addsub!(o, a, *b, dc)
                    } else {
                        bin_addsub!(o, a, *b, dc)
                    }
                }
                (S(a), F(b)) => {
                    let a = Datum::new(t1, *a);
                    if asg {
                        asg_muldiv!(o, a, *b, ds)
                    } else {
                        bin_muldiv!(o, a, *b, ds)
                    }
                }
                (C(a), F(b)) => {
                    let a = Datum::new(t1, *a);
                    if asg {
                        asg_muldiv!(o, a, *b, dc)
                    } else {
                        bin_muldiv!(o, a, *b, dc)
                    }
                }
                _ => Err(TypeErr),
            }
        }
        _ => Err(TypeErr),
    }
}

fn neg_val(x: &Val) -> R {
    Ok(match x {
        F(a) => F(-*a),
        Q(a) => Q(-*a),
        T(a) => T(-*a),
        D(a) => D(-*a),
        U(a) => U(-*a),
        S(a) => S(-*a),
        C(a) => C(-*a),
        Dat(t, v) => {
            let t = Time(*t);
            match &**v {
                F(a) => df(-Datum::new(t, *a)),
                Q(a) => dq(-Datum::new(t, *a)),
                T(a) => dat(-Datum::new(t, *a), T),
                D(a) => dat(-Datum::new(t, *a), D),
                U(a) => dat(-Datum::new(t, *a), U),
                S(a) => ds(-Datum::new(t, *a)),
                C(a) => dc(-Datum::new(t, *a)),
                _ => return Err(TypeErr),
            }
        }
        _ => return Err(TypeErr),
    })
}
fn not_val(x: &Val) -> R {
    Ok(match x {
        B(b) => B(!*b),
        Dat(t, v) => match &**v {
            B(b) => dat(!Datum::new(Time(*t), *b), B),
            _ => return Err(TypeErr),
        },
        _ => return Err(TypeErr),
    })
}

#[cfg(any(
    feature = "dim_check_release",
    all(debug_assertions, feature = "dim_check_debug")
))]
mod chk_only {
    use super::*;
    pub fn unit_eq(a: Unit, b: Unit) -> R {
        Ok(B(a == b))
    }
    pub fn const_eq(a: Unit, b: Unit) -> R {
        Ok(B(a.const_eq(&b)))
    }
    pub fn const_assert(a: Unit, b: Unit) -> R {
        a.const_assert_eq(&b);
        Ok(Unit_)
    }
    pub fn c_try(q: Quantity) -> R {
        Ok(vres(C, Command::try_from(q)))
    }
    pub fn pd_of_unit(u: Unit) -> R {
        Ok(vres(PD, PositionDerivative::try_from(u)))
    }
}
#[cfg(not(any(
    feature = "dim_check_release",
    all(debug_assertions, feature = "dim_check_debug")
)))]
mod chk_only {
    use super::*;
    pub fn unit_eq(_a: Unit, _b: Unit) -> R {
        Err(TypeErr)
    }
    pub fn const_eq(_a: Unit, _b: Unit) -> R {
        Err(TypeErr)
    }
    pub fn const_assert(_a: Unit, _b: Unit) -> R {
        Err(TypeErr)
    }
    pub fn c_try(_q: Quantity) -> R {
        Err(TypeErr)
    }
    pub fn pd_of_unit(_u: Unit) -> R {
        Err(TypeErr)
    }
}

fn eq_val(x: &Val, y: &Val) -> R {
    match (x, y) {
        (F(a), F(b)) => Ok(B(a == b)),
        (Q(a), Q(b)) => Ok(B(a == b)),
        (T(a), T(b)) => Ok(B(a == b)),
        (D(a), D(b)) => Ok(B(a == b)),
        (I(a), I(b)) => Ok(B(a == b)),
        (U(a), U(b)) => chk_only::unit_eq(*a, *b),
        (S(a), S(b)) => Ok(B(a == b)),
        (C(a), C(b)) => Ok(B(a == b)),
        _ => Err(TypeErr),
    }
}

fn setter(s: State, r: Result<(), ()>) -> Val {
    Pair(Box::new(S(s)), Box::new(B(r.is_ok())))
}
fn to_dat(v: &Val) -> Option<Datum<Val>> {
    match v {
        Dat(t, w) => Some(Datum::new(Time(*t), (**w).clone())),
        _ => None,
    }
}
fn to_odat(v: &Val) -> Option<Option<Datum<Val>>> {
    match v {
        None_ => Some(None),
        Some_(w) => to_dat(w).map(Some),
        _ => None,
    }
}
fn vdat(d: Datum<Val>) -> Val {
    Dat(d.time.0, Box::new(d.value))
}
fn vodat(d: Option<Datum<Val>>) -> Val {
    vopt(vdat, d)
}

pub fn apply_op(o: i64, args: &[Val]) -> R {
    match args {
        [x] => match (o, x) {
            (9, _) => neg_val(x),
            (10, _) => not_val(x),
            (11, Q(q)) => Ok(Q(q.abs())),
            (20, T(t)) => Ok(Q(Quantity::from(*t))),
            (20, D(d)) => Ok(Q(Quantity::from(*d))),
            (20, C(c)) => Ok(Q(Quantity::from(*c))),
            (21, Q(q)) => Ok(vres(T, Time::try_from(*q))),
            (22, Q(q)) => Ok(vres(D, DimensionlessInteger::try_from(*q))),
            (23, Q(q)) => Ok(F(f32::from(*q))),
            (23, C(c)) => Ok(F(f32::from(*c))),
            (24, T(t)) => Ok(I(i64::from(*t))),
            (24, D(d)) => Ok(I(i64::from(*d))),
            (25, I(i)) => Ok(T(Time::from(*i))),
            (26, I(i)) => Ok(D(DimensionlessInteger::from(*i))),
            (27, Q(q)) => chk_only::c_try(*q),
            (28, C(c)) => Ok(PD(PositionDerivative::from(*c))),
            (28, Piece(p)) => Ok(vres(PD, PositionDerivative::try_from(*p))),
            (28, U(u)) => chk_only::pd_of_unit(*u),
            (29, PD(d)) => Ok(U(Unit::from(*d))),
            (29, Piece(p)) => Ok(vres(U, Unit::try_from(*p))),
            (30, S(s)) => Ok(C(Command::from(*s))),
            (33, F(f)) => Ok(Q(Quantity::dimensionless(*f))),
            (57, S(s)) => Ok(Q(s.get_position())),
            (58, S(s)) => Ok(Q(s.get_velocity())),
            (59, S(s)) => Ok(Q(s.get_acceleration())),
            (61, C(c)) => Ok(vopt(Q, c.get_position())),
            (62, C(c)) => Ok(vopt(Q, c.get_velocity())),
            (63, C(c)) => Ok(Q(c.get_acceleration())),
            _ => Err(TypeErr),
        },
        [x, y] => match (o, x, y) {
            (1..=4, _, _) => arith(o, false, x, y),
            (5..=8, _, _) => arith(o - 4, true, x, y),
            (12, _, _) => eq_val(x, y),
            (13, Q(a), Q(b)) => Ok(Ord(a.partial_cmp(b))),
            (13, F(a), F(b)) => Ok(Ord(a.partial_cmp(b))),
            (31, PD(d), F(f)) => Ok(C(Command::new(*d, *f))),
            (32, F(f), U(u)) => Ok(Q(Quantity::new(*f, *u))),
            (34, I(a), I(b)) => Ok(U(Unit::new(*a as i8, *b as i8))),
            (37, T(_), Dat(_, _)) => Err(TypeErr),
            (37, T(t), v) => Ok(vdat(Datum::new(*t, v.clone()))),
            (40, U(a), U(b)) => chk_only::const_eq(*a, *b),
            (41, U(a), U(b)) => Ok(B(a.eq_assume_true(b))),
            (42, U(a), U(b)) => Ok(B(a.eq_assume_false(b))),
            (43, U(a), U(b)) => {
                a.assert_eq_assume_ok(b);
                Ok(Unit_)
            }
            (44, U(a), U(b)) => {
                a.assert_eq_assume_not_ok(b);
                Ok(Unit_)
            }
            (45, U(a), U(b)) => chk_only::const_assert(*a, *b),
            (50, S(s), T(t)) => {
                let mut s = *s;
                s.update(*t);
                Ok(S(s))
            }
            (51, S(s), Q(q)) => {
                let mut s = *s;
                let r = s.set_constant_acceleration(*q);
                Ok(setter(s, r))
            }
            (52, S(s), Q(q)) => {
                let mut s = *s;
                let r = s.set_constant_velocity(*q);
                Ok(setter(s, r))
            }
            (53, S(s), Q(q)) => {
                let mut s = *s;
                let r = s.set_constant_position(*q);
                Ok(setter(s, r))
            }
            (54, S(s), F(f)) => {
                let mut s = *s;
                s.set_constant_acceleration_raw(*f);
                Ok(S(s))
            }
            (55, S(s), F(f)) => {
                let mut s = *s;
                s.set_constant_velocity_raw(*f);
                Ok(S(s))
            }
            (56, S(s), F(f)) => {
                let mut s = *s;
                s.set_constant_position_raw(*f);
                Ok(S(s))
            }
            (60, S(s), PD(d)) => Ok(Q(s.get_value(*d))),
            (70, Dat(_, _), Dat(_, _)) => {
                let mut a = to_dat(x).unwrap();
                let r = a.replace_if_older_than(to_dat(y).unwrap());
                Ok(Pair(Box::new(vdat(a)), Box::new(B(r))))
            }
            (71, _, Dat(_, _)) => match to_odat(x) {
                Some(mut a) => {
                    let r = a.replace_if_none_or_older_than(to_dat(y).unwrap());
                    Ok(Pair(Box::new(vodat(a)), Box::new(B(r))))
                }
                None => Err(TypeErr),
            },
            (72, _, _) => match (to_odat(x), to_odat(y)) {
                (Some(mut a), Some(b)) => {
                    let r = a.replace_if_none_or_older_than_option(b);
                    Ok(Pair(Box::new(vodat(a)), Box::new(B(r))))
                }
                _ => Err(TypeErr),
            },
            (73, Dat(_, _), Dat(_, _)) => Ok(vdat(latest(to_dat(x).unwrap(), to_dat(y).unwrap()))),
            _ => Err(TypeErr),
        },
        [x, y, z] => match (o, x, y, z) {
            (35, Q(p), Q(v), Q(a)) => Ok(S(State::new(*p, *v, *a))),
            (36, F(p), F(v), F(a)) => Ok(S(State::new_raw(*p, *v, *a))),
            _ => Err(TypeErr),
        },
        [F(p), F(i), F(d), F(e), F(ei), F(ed)] if o == 80 => {
            Ok(F(PIDKValues::new(*p, *i, *d).evaluate(*e, *ei, *ed)))
        }
        _ => Err(TypeErr),
    }
}

pub fn run(e: &Expr) -> R {
    match e {
        Expr::Lit(v) => Ok(v.clone()),
        Expr::Op(o, args) => {
            let mut vals = Vec::new();
            for a in args {
                vals.push(run(a)?);
            }
            apply_op(*o, &vals)
        }
    }
}

// [chk; std; expr...]
pub fn run_prog_case(l: &[i64]) -> Vec<i64> {
    if l.len() < 2 {
        return vec![W_BAD];
    }
    let mut pos = 2usize;
    let e = match dec_expr(l, &mut pos) {
        Some(e) if pos == l.len() => e,
        _ => return vec![W_BAD],
    };
    match run(&e) {
        Ok(v) => {
            let mut out = Vec::new();
            enc_val(&v, &mut out);
            out
        }
        Err(TypeErr) => vec![W_TYPE],
    }
}
