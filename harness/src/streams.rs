// Case kinds 3 (stateless combinators) and 4 (stateful streams): the crate's own stream types are
// constructed over scripted input getters.  Mirror of coq/theories/Model/WireStreams.v.
use crate::wire::*;
use crate::{W_BAD, W_PANIC};
use core::ops::*;
use rrtk::streams::control::*;
use rrtk::streams::converters::*;
use rrtk::streams::flow::*;
use rrtk::streams::logic::*;
use rrtk::streams::math::*;
use rrtk::streams::*;
use rrtk::*;

pub type E = u8;

// ------------------------------------------------------------------ scripted inputs
pub struct Scripted<T: Clone> {
    pub cur: Output<T, E>,
}
impl<T: Clone> Getter<T, E> for Scripted<T> {
    fn get(&self) -> Output<T, E> {
        self.cur.clone()
    }
}
impl<T: Clone> Updatable<E> for Scripted<T> {
    fn update(&mut self) -> NothingOrError<E> {
        Ok(())
    }
}
pub struct ScriptedTime {
    pub cur: TimeOutput<E>,
}
impl TimeGetter<E> for ScriptedTime {
    fn get(&self) -> TimeOutput<E> {
        self.cur
    }
}
impl Updatable<E> for ScriptedTime {
    fn update(&mut self) -> NothingOrError<E> {
        Ok(())
    }
}
pub fn scripted<T: Clone>(o: Output<T, E>) -> Reference<Scripted<T>> {
    rc_ref_cell_reference(Scripted { cur: o })
}

// ------------------------------------------------------------------ payloads
pub trait Payload: Sized + Clone + 'static {
    fn dec(l: &[i64], pos: &mut usize) -> Option<Self>;
    fn enc(&self, out: &mut Vec<i64>);
}
fn next(l: &[i64], pos: &mut usize) -> Option<i64> {
    let x = *l.get(*pos)?;
    *pos += 1;
    Some(x)
}
impl Payload for f32 {
    fn dec(l: &[i64], pos: &mut usize) -> Option<Self> {
        Some(f_of_bits(next(l, pos)?))
    }
    fn enc(&self, out: &mut Vec<i64>) {
        out.push(bits_of_f(*self));
    }
}
impl Payload for Quantity {
    fn dec(l: &[i64], pos: &mut usize) -> Option<Self> {
        let b = next(l, pos)?;
        let m = next(l, pos)?;
        let s = next(l, pos)?;
        Some(Quantity::new(f_of_bits(b), Unit::new(m as i8, s as i8)))
    }
    fn enc(&self, out: &mut Vec<i64>) {
        enc_q(*self, out);
    }
}
impl Payload for bool {
    fn dec(l: &[i64], pos: &mut usize) -> Option<Self> {
        Some(next(l, pos)? != 0)
    }
    fn enc(&self, out: &mut Vec<i64>) {
        out.push(*self as i64);
    }
}
impl Payload for State {
    fn dec(l: &[i64], pos: &mut usize) -> Option<Self> {
        let p = next(l, pos)?;
        let v = next(l, pos)?;
        let a = next(l, pos)?;
        Some(State::new_raw(f_of_bits(p), f_of_bits(v), f_of_bits(a)))
    }
    fn enc(&self, out: &mut Vec<i64>) {
        enc_state(*self, out);
    }
}
impl Payload for Command {
    fn dec(l: &[i64], pos: &mut usize) -> Option<Self> {
        let k = next(l, pos)?;
        let b = next(l, pos)?;
        Some(Command::new(dec_pd(k), f_of_bits(b)))
    }
    fn enc(&self, out: &mut Vec<i64>) {
        enc_cmd(*self, out);
    }
}
pub fn dec_out<T: Payload>(l: &[i64], pos: &mut usize) -> Option<Output<T, E>> {
    match next(l, pos)? {
        0 => Some(Ok(None)),
        1 => Some(Err(dec_err(next(l, pos)?))),
        2 => {
            let t = next(l, pos)?;
            let v = T::dec(l, pos)?;
            Some(Ok(Some(Datum::new(Time(t), v))))
        }
        _ => None,
    }
}
pub fn enc_out<T: Payload>(o: &Output<T, E>, out: &mut Vec<i64>) {
    match o {
        Ok(None) => out.push(0),
        Err(e) => {
            out.push(1);
            out.push(enc_err(*e));
        }
        Ok(Some(d)) => {
            out.push(2);
            out.push(d.time.0);
            d.value.enc(out);
        }
    }
}
pub fn dec_tout(l: &[i64], pos: &mut usize) -> Option<TimeOutput<E>> {
    match next(l, pos)? {
        1 => Some(Err(dec_err(next(l, pos)?))),
        3 => Some(Ok(Time(next(l, pos)?))),
        _ => None,
    }
}
pub fn enc_upd(r: &NothingOrError<E>, out: &mut Vec<i64>) {
    match r {
        Ok(()) => out.push(0),
        Err(e) => {
            out.push(1);
            out.push(enc_err(*e));
        }
    }
}
fn skip_powtbl(l: &[i64], pos: &mut usize) -> Option<()> {
    let n = next(l, pos)?;
    *pos += (3 * n.max(0)) as usize;
    if *pos > l.len() {
        return None;
    }
    Some(())
}

// read a getter twice, as the property demands that reading never changes a later read; then call the
// (stateless) stream's update(), which must succeed and must not change what get() returns.
// Deviations are reported by markers the model never produces: 96 e = update() returned Err(e),
// 95 = get() after update() differs from get() before it.
pub const W_UPD_ERR: i64 = 96;
pub const W_UPD_CHANGED: i64 = 95;
fn twice<T: Payload, G: Getter<T, E> + ?Sized>(g: &mut G) -> Vec<i64> {
    let mut out = Vec::new();
    enc_out(&g.get(), &mut out);
    let mut second = Vec::new();
    enc_out(&g.get(), &mut second);
    let first = out.clone();
    out.extend(second);
    if let Err(e) = g.update() {
        out.push(W_UPD_ERR);
        out.push(enc_err(e));
    }
    let mut third = Vec::new();
    enc_out(&g.get(), &mut third);
    if third != first {
        out.push(W_UPD_CHANGED);
    }
    out
}

// ------------------------------------------------------------------ kind 3
fn dyn_inputs<T: Payload, const N: usize>(ins: &[Output<T, E>]) -> [Reference<dyn Getter<T, E>>; N] {
    core::array::from_fn(|i| to_dyn!(Getter<T, E>, scripted(ins[i].clone())))
}
macro_rules! by_arity {
    ($n:expr, $f:ident, $T:ty, $ins:expr) => {
        match $n {
            0 => $f::<$T, 0>($ins),
            1 => $f::<$T, 1>($ins),
            2 => $f::<$T, 2>($ins),
            3 => $f::<$T, 3>($ins),
            4 => $f::<$T, 4>($ins),
            5 => $f::<$T, 5>($ins),
            6 => $f::<$T, 6>($ins),
            7 => $f::<$T, 7>($ins),
            8 => $f::<$T, 8>($ins),
            _ => vec![W_BAD],
        }
    };
}
fn sum_n<T: Payload + AddAssign + Copy, const N: usize>(ins: &[Output<T, E>]) -> Vec<i64> {
    twice(&mut SumStream::new(dyn_inputs::<T, N>(ins)))
}
fn prod_n<T: Payload + MulAssign + Copy, const N: usize>(ins: &[Output<T, E>]) -> Vec<i64> {
    twice(&mut ProductStream::new(dyn_inputs::<T, N>(ins)))
}
fn latest_n<T: Payload, const N: usize>(ins: &[Output<T, E>]) -> Vec<i64> {
    twice(&mut Latest::new(dyn_inputs::<T, N>(ins)))
}

fn comb_arith<T>(comb: i64, n: usize, l: &[i64], pos: &mut usize) -> Option<Vec<i64>>
where
    T: Payload + Copy + AddAssign + MulAssign + Add<Output = T> + Mul<Output = T> + Sub<Output = T> + Div<Output = T>,
{
    let mut ins: Vec<Output<T, E>> = Vec::new();
    for _ in 0..n {
        ins.push(dec_out::<T>(l, pos)?);
    }
    Some(match comb {
        1 => by_arity!(n, sum_n, T, &ins),
        2 => by_arity!(n, prod_n, T, &ins),
        _ => {
            if n != 2 {
                return Some(vec![W_PANIC]);
            }
            let a = scripted(ins[0].clone());
            let b = scripted(ins[1].clone());
            match comb {
                3 => twice(&mut Sum2::new(a, b)),
                4 => twice(&mut Product2::new(a, b)),
                5 => twice(&mut DifferenceStream::new(a, b)),
                _ => twice(&mut QuotientStream::new(a, b)),
            }
        }
    })
}

pub fn run_comb_case(l: &[i64]) -> Vec<i64> {
    if l.len() < 5 {
        return vec![W_BAD];
    }
    let (comb, ptype, n) = (l[2], l[3], l[4].max(0) as usize);
    let mut pos = 5usize;
    let r = (|| -> Option<Vec<i64>> {
        let p = &mut pos;
        Some(match comb {
            1..=6 => {
                if ptype == 0 {
                    comb_arith::<f32>(comb, n, l, p)?
                } else {
                    comb_arith::<Quantity>(comb, n, l, p)?
                }
            }
            7 => {
                skip_powtbl(l, p)?;
                let a = scripted(dec_out::<f32>(l, p)?);
                let b = scripted(dec_out::<f32>(l, p)?);
                twice(&mut ExponentStream::new(a, b))
            }
            8 => {
                let c = scripted(dec_out::<bool>(l, p)?);
                let i = scripted(dec_out::<f32>(l, p)?);
                twice(&mut IfStream::new(c, i))
            }
            9 => {
                let c = scripted(dec_out::<bool>(l, p)?);
                let t = scripted(dec_out::<f32>(l, p)?);
                let f = scripted(dec_out::<f32>(l, p)?);
                twice(&mut IfElseStream::new(c, t, f))
            }
            13 => {
                let mut ins = Vec::new();
                for _ in 0..n {
                    ins.push(dec_out::<f32>(l, p)?);
                }
                by_arity!(n, latest_n, f32, &ins)
            }
            14 => {
                let i = scripted(dec_out::<f32>(l, p)?);
                let tg = rc_ref_cell_reference(ScriptedTime { cur: dec_tout(l, p)? });
                let lim = next(l, p)?;
                twice(&mut Expirer::new(i, tg, Time(lim)))
            }
            15 => {
                let i = scripted(dec_out::<f32>(l, p)?);
                twice(&mut NoneToError::new(i))
            }
            16 => {
                let i = scripted(dec_out::<f32>(l, p)?);
                let tg = rc_ref_cell_reference(ScriptedTime { cur: dec_tout(l, p)? });
                let v = f32::dec(l, p)?;
                twice(&mut NoneToValue::new(i, tg, v))
            }
            17 => {
                let g = NoneGetter::new();
                let mut out = Vec::new();
                let mut g = g;
                enc_out::<f32>(&<NoneGetter as Getter<f32, E>>::get(&g), &mut out);
                enc_out::<f32>(&<NoneGetter as Getter<f32, E>>::get(&g), &mut out);
                if let Err(e) = <NoneGetter as Updatable<E>>::update(&mut g) {
                    out.push(W_UPD_ERR);
                    out.push(enc_err(e));
                }
                // Time itself is a TimeGetter whose update() does nothing
                let mut t = Time::new(l[l.len() - 1]);
                let before = <Time as TimeGetter<E>>::get(&t);
                if let Err(e) = <Time as Updatable<E>>::update(&mut t) {
                    out.push(W_UPD_ERR);
                    out.push(enc_err(e));
                }
                if before != Ok(Time::new(l[l.len() - 1])) || <Time as TimeGetter<E>>::get(&t) != before {
                    out.push(W_UPD_CHANGED);
                }
                out
            }
            22 => {
                let tg = rc_ref_cell_reference(ScriptedTime { cur: dec_tout(l, p)? });
                let v = f32::dec(l, p)?;
                twice(&mut ConstantGetter::new(tg, v))
            }
            23 => {
                let i = scripted(dec_out::<f32>(l, p)?);
                let mut tg = TimeGetterFromGetter::new(i);
                let mut out = Vec::new();
                if let Err(e) = tg.update() {
                    out.push(W_UPD_ERR);
                    out.push(enc_err(e));
                }
                for _ in 0..2 {
                    match tg.get() {
                        Err(e) => {
                            out.push(1);
                            out.push(enc_err(e));
                        }
                        Ok(t) => {
                            out.push(3);
                            out.push(t.0);
                        }
                    }
                }
                out
            }
            12 => {
                let a = scripted(dec_out::<bool>(l, p)?);
                twice(&mut NotStream::new(a))
            }
            10 | 11 | 18..=21 => {
                let a = scripted(dec_out::<bool>(l, p)?);
                let b = scripted(dec_out::<bool>(l, p)?);
                match comb {
                    10 => twice(&mut AndStream::new(a, b)),
                    11 => twice(&mut OrStream::new(a, b)),
                    18 => twice(&mut NotStream::new(rc_ref_cell_reference(AndStream::new(a, b)))),
                    19 => twice(&mut OrStream::new(
                        rc_ref_cell_reference(NotStream::new(a)),
                        rc_ref_cell_reference(NotStream::new(b)),
                    )),
                    20 => twice(&mut NotStream::new(rc_ref_cell_reference(OrStream::new(a, b)))),
                    _ => twice(&mut AndStream::new(
                        rc_ref_cell_reference(NotStream::new(a)),
                        rc_ref_cell_reference(NotStream::new(b)),
                    )),
                }
            }
            _ => return None,
        })
    })();
    match r {
        Some(v) if pos == l.len() => v,
        _ => vec![W_BAD],
    }
}


// ------------------------------------------------------------------ kind 4
// one event: set the scripted input, update, get twice
fn drive<T: Payload, O: Payload, S: Getter<O, E> + Updatable<E>>(
    stream: &mut S,
    input: &Reference<Scripted<T>>,
    evs: Vec<Output<T, E>>,
) -> Vec<i64> {
    let mut out = Vec::new();
    for ev in evs {
        input.borrow_mut().cur = ev;
        let r = std::panic::catch_unwind(std::panic::AssertUnwindSafe(|| {
            let mut o = Vec::new();
            let u = stream.update();
            enc_upd(&u, &mut o);
            let g1 = stream.get();
            enc_out(&g1, &mut o);
            let mut o2 = Vec::new();
            enc_out(&stream.get(), &mut o2);
            let mut o1 = Vec::new();
            enc_out(&g1, &mut o1);
            o.push((o1 == o2) as i64);
            o
        }));
        match r {
            Ok(o) => out.extend(o),
            Err(_) => {
                out.push(W_PANIC);
                return out;
            }
        }
    }
    out
}
pub fn dec_events<T: Payload>(l: &[i64], pos: &mut usize) -> Option<Vec<Output<T, E>>> {
    let n = next(l, pos)?;
    let mut v = Vec::new();
    for _ in 0..n.max(0) {
        v.push(dec_out::<T>(l, pos)?);
    }
    Some(v)
}
fn dec_kvals(l: &[i64], pos: &mut usize) -> Option<PIDKValues> {
    let p = f32::dec(l, pos)?;
    let i = f32::dec(l, pos)?;
    let d = f32::dec(l, pos)?;
    Some(PIDKValues::new(p, i, d))
}

pub fn run_strm_case(l: &[i64]) -> Vec<i64> {
    if l.len() < 3 {
        return vec![W_BAD];
    }
    let stream = l[2];
    let mut pos = 3usize;
    let r = (|| -> Option<Vec<i64>> {
        let p = &mut pos;
        Some(match stream {
            1 => {
                let sp = f32::dec(l, p)?;
                let k = dec_kvals(l, p)?;
                let evs = dec_events::<f32>(l, p)?;
                let input = scripted::<f32>(Ok(None));
                let mut s = PIDControllerStream::new(input.clone(), sp, k);
                drive::<f32, f32, _>(&mut s, &input, evs)
            }
            2 => {
                let cmd = Command::dec(l, p)?;
                let k = PositionDerivativeDependentPIDKValues::new(dec_kvals(l, p)?, dec_kvals(l, p)?, dec_kvals(l, p)?);
                let n = next(l, p)?;
                let input = scripted::<State>(Ok(None));
                let fol = scripted::<Command>(Ok(None));
                let mut s = CommandPID::new(input.clone(), cmd, k);
                let mut out = Vec::new();
                for _ in 0..n.max(0) {
                    let tag = next(l, p)?;
                    enum Ev {
                        Upd,
                        Set(Command),
                    }
                    let ev = if tag == 0 {
                        if *l.get(*p)? == 9 {
                            *p += 1;
                            s.stop_following();
                        } else {
                            fol.borrow_mut().cur = dec_out::<Command>(l, p)?;
                            s.follow(to_dyn!(Getter<Command, E>, fol.clone()));
                        }
                        input.borrow_mut().cur = dec_out::<State>(l, p)?;
                        Ev::Upd
                    } else {
                        Ev::Set(Command::dec(l, p)?)
                    };
                    let r = std::panic::catch_unwind(std::panic::AssertUnwindSafe(|| {
                        let mut o = Vec::new();
                        let u = match ev {
                            Ev::Upd => s.update(),
                            Ev::Set(c) => s.set(c),
                        };
                        enc_upd(&u, &mut o);
                        let g1 = s.get();
                        enc_out(&g1, &mut o);
                        match s.get_last_request() {
                            Some(c) => {
                                o.push(1);
                                c.enc(&mut o);
                            }
                            None => o.push(0),
                        }
                        let mut a = Vec::new();
                        let mut b = Vec::new();
                        enc_out(&g1, &mut a);
                        enc_out(&s.get(), &mut b);
                        o.push((a == b) as i64);
                        o
                    }));
                    match r {
                        Ok(o) => out.extend(o),
                        Err(_) => {
                            out.push(W_PANIC);
                            // the remaining events are not run; consume them so that the case is well-formed
                            *p = l.len();
                            return Some(out);
                        }
                    }
                }
                out
            }
            3 => {
                let sm = f32::dec(l, p)?;
                skip_powtbl(l, p)?;
                let evs = dec_events::<f32>(l, p)?;
                let input = scripted::<f32>(Ok(None));
                let mut s = EWMAStream::new(input.clone(), sm);
                drive::<f32, f32, _>(&mut s, &input, evs)
            }
            4 => {
                let sm = f32::dec(l, p)?;
                skip_powtbl(l, p)?;
                let evs = dec_events::<Quantity>(l, p)?;
                let input = scripted::<Quantity>(Ok(None));
                let mut s = EWMAStream::new(input.clone(), sm);
                drive::<Quantity, Quantity, _>(&mut s, &input, evs)
            }
            5 => {
                let w = next(l, p)?;
                let evs = dec_events::<f32>(l, p)?;
                let input = scripted::<f32>(Ok(None));
                let mut s = MovingAverageStream::new(input.clone(), Time(w));
                drive::<f32, f32, _>(&mut s, &input, evs)
            }
            6 => {
                let w = next(l, p)?;
                let evs = dec_events::<Quantity>(l, p)?;
                let input = scripted::<Quantity>(Ok(None));
                let mut s = MovingAverageStream::new(input.clone(), Time(w));
                drive::<Quantity, Quantity, _>(&mut s, &input, evs)
            }
            7 => {
                let evs = dec_events::<Quantity>(l, p)?;
                let input = scripted::<Quantity>(Ok(None));
                let mut s = IntegralStream::new(input.clone());
                drive::<Quantity, Quantity, _>(&mut s, &input, evs)
            }
            8 => {
                let evs = dec_events::<Quantity>(l, p)?;
                let input = scripted::<Quantity>(Ok(None));
                let mut s = DerivativeStream::new(input.clone());
                drive::<Quantity, Quantity, _>(&mut s, &input, evs)
            }
            9 => {
                let evs = dec_events::<Quantity>(l, p)?;
                let input = scripted::<Quantity>(Ok(None));
                let mut s = AccelerationToState::new(input.clone());
                drive::<Quantity, State, _>(&mut s, &input, evs)
            }
            10 => {
                let evs = dec_events::<Quantity>(l, p)?;
                let input = scripted::<Quantity>(Ok(None));
                let mut s = VelocityToState::new(input.clone());
                drive::<Quantity, State, _>(&mut s, &input, evs)
            }
            11 => {
                let evs = dec_events::<Quantity>(l, p)?;
                let input = scripted::<Quantity>(Ok(None));
                let mut s = PositionToState::new(input.clone());
                drive::<Quantity, State, _>(&mut s, &input, evs)
            }
            12 => {
                let m = next(l, p)?;
                let sx = next(l, p)?;
                let evs = dec_events::<f32>(l, p)?;
                let input = scripted::<f32>(Ok(None));
                let mut s = FloatToQuantity::new(Unit::new(m as i8, sx as i8), input.clone());
                drive::<f32, Quantity, _>(&mut s, &input, evs)
            }
            13 => {
                let evs = dec_events::<Quantity>(l, p)?;
                let input = scripted::<Quantity>(Ok(None));
                let mut s = QuantityToFloat::new(input.clone());
                drive::<Quantity, f32, _>(&mut s, &input, evs)
            }
            14 => {
                let n = next(l, p)?;
                let cond = scripted::<bool>(Ok(None));
                let input = scripted::<f32>(Ok(None));
                let mut s = FreezeStream::new(cond.clone(), input.clone());
                let mut out = Vec::new();
                for _ in 0..n.max(0) {
                    cond.borrow_mut().cur = dec_out::<bool>(l, p)?;
                    let ev = dec_out::<f32>(l, p)?;
                    out.extend(drive::<f32, f32, _>(&mut s, &input, vec![ev]));
                }
                out
            }
            15 => {
                let sp = f32::dec(l, p)?;
                let k = dec_kvals(l, p)?;
                let evs = dec_events::<Quantity>(l, p)?;
                let input = scripted::<Quantity>(Ok(None));
                let mut s = crate::pidex::make(
                    to_dyn!(Getter<Quantity, ()>, rc_ref_cell_reference(UnitErr { inner: input.clone() })),
                    Quantity::new(sp, MILLIMETER),
                    Quantity::dimensionless(k.kp),
                    Quantity::dimensionless(k.ki),
                    Quantity::dimensionless(k.kd),
                );
                let mut out = Vec::new();
                for ev in evs {
                    input.borrow_mut().cur = ev;
                    let r = std::panic::catch_unwind(std::panic::AssertUnwindSafe(|| {
                        let mut o = Vec::new();
                        let u = s.update().map_err(back_err);
                        enc_upd(&u, &mut o);
                        let g1 = s.get().map_err(back_err);
                        enc_out(&g1, &mut o);
                        let g2 = s.get().map_err(back_err);
                        let mut a = Vec::new();
                        let mut b = Vec::new();
                        enc_out(&g1, &mut a);
                        enc_out(&g2, &mut b);
                        o.push((a == b) as i64);
                        o
                    }));
                    match r {
                        Ok(o) => out.extend(o),
                        Err(_) => {
                            out.push(W_PANIC);
                            break;
                        }
                    }
                }
                out
            }
            _ => return None,
        })
    })();
    match r {
        Some(v) if pos == l.len() => v,
        _ => vec![W_BAD],
    }
}

// The example's error type is (): adapt the scripted u8-error getter.  Other(k) cannot be carried in
// a (), so the harness keeps the last error value on the side.
thread_local! { static LAST_ERR: std::cell::Cell<u8> = std::cell::Cell::new(0); }
pub struct UnitErr {
    pub inner: Reference<Scripted<Quantity>>,
}
impl Getter<Quantity, ()> for UnitErr {
    fn get(&self) -> Output<Quantity, ()> {
        match self.inner.borrow().get() {
            Ok(x) => Ok(x),
            Err(Error::Other(k)) => {
                LAST_ERR.with(|c| c.set(k));
                Err(Error::Other(()))
            }
            Err(_) => Err(Error::FromNone),
        }
    }
}
impl Updatable<()> for UnitErr {
    fn update(&mut self) -> NothingOrError<()> {
        Ok(())
    }
}
fn back_err(e: Error<()>) -> Error<E> {
    match e {
        Error::Other(()) => Error::Other(LAST_ERR.with(|c| c.get())),
        _ => Error::FromNone,
    }
}
