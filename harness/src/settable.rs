// Case kind 5: Settable bookkeeping, following, ConstantGetter, GetterFromHistory, TimeGetterFromGetter.
// Mirror of coq/theories/Model/WireSettable.v.
use crate::streams::{dec_out, dec_tout, enc_out, enc_upd, scripted, Payload, Scripted, ScriptedTime, E};
use crate::wire::*;
use crate::{W_BAD, W_PANIC};
use rrtk::*;

impl Payload for i64 {
    fn dec(l: &[i64], pos: &mut usize) -> Option<Self> {
        let x = *l.get(*pos)?;
        *pos += 1;
        Some(x)
    }
    fn enc(&self, out: &mut Vec<i64>) {
        out.push(*self);
    }
}

// a settable whose impl_set succeeds or fails as scripted and records what it receives
pub struct Rec {
    data: SettableData<i64, E>,
    pub received: Vec<i64>,
    pub fail: Option<Error<E>>,
}
impl Settable<i64, E> for Rec {
    fn impl_set(&mut self, value: i64) -> NothingOrError<E> {
        if let Some(e) = self.fail {
            return Err(e);
        }
        self.received.push(value);
        Ok(())
    }
    fn get_settable_data_ref(&self) -> &SettableData<i64, E> {
        &self.data
    }
    fn get_settable_data_mut(&mut self) -> &mut SettableData<i64, E> {
        &mut self.data
    }
}
impl Updatable<E> for Rec {
    fn update(&mut self) -> NothingOrError<E> {
        self.update_following_data()
    }
}
// the test history: absent when t is a multiple of 5, else value t stamped t/2
pub struct TestHist;
impl History<i64, E> for TestHist {
    fn get(&self, time: Time) -> Option<Datum<i64>> {
        if time.0 % 5 == 0 {
            None
        } else {
            Some(Datum::new(Time(time.0 / 2), time.0))
        }
    }
}
impl Updatable<E> for TestHist {
    fn update(&mut self) -> NothingOrError<E> {
        Ok(())
    }
}

fn enc_rec(r: &Rec, out: &mut Vec<i64>) {
    match r.get_last_request() {
        Some(v) => {
            out.push(1);
            out.push(v);
        }
        None => out.push(0),
    }
    out.push(r.received.len() as i64);
    out.push(*r.received.last().unwrap_or(&0));
}

pub fn run_sett_case(l: &[i64]) -> Vec<i64> {
    if l.len() < 3 {
        return vec![W_BAD];
    }
    let n = l[2].max(0);
    let mut pos = 3usize;
    let mut out = Vec::new();
    let mut rec = Rec { data: SettableData::new(), received: Vec::new(), fail: None };
    let g = scripted::<i64>(Ok(None));
    let clock = rc_ref_cell_reference(ScriptedTime { cur: Ok(Time(0)) });
    let mut cg = ConstantGetter::new(clock.clone(), 0i64);
    let mut adapter: Option<GetterFromHistory<'static, i64, ScriptedTime, E>> = None;
    for _ in 0..n {
        let r = std::panic::catch_unwind(std::panic::AssertUnwindSafe(|| -> Option<Vec<i64>> {
            let p = &mut pos;
            let mut o = Vec::new();
            let op = *l.get(*p)?;
            *p += 1;
            let mut arg = |p: &mut usize| -> Option<i64> {
                let x = *l.get(*p)?;
                *p += 1;
                Some(x)
            };
            match op {
                1 => {
                    let v = arg(p)?;
                    let u = rec.set(v);
                    enc_upd(&u, &mut o);
                    enc_rec(&rec, &mut o);
                }
                2 => {
                    rec.follow(to_dyn!(Getter<i64, E>, g.clone()));
                    o.push(0);
                }
                3 => {
                    rec.stop_following();
                    o.push(0);
                }
                4 => {
                    let u = rec.update();
                    enc_upd(&u, &mut o);
                    enc_rec(&rec, &mut o);
                }
                5 => {
                    g.borrow_mut().cur = dec_out::<i64>(l, p)?;
                    o.push(0);
                }
                6 => {
                    clock.borrow_mut().cur = dec_tout(l, p)?;
                    o.push(0);
                }
                7 => {
                    let variant = arg(p)?;
                    let a = arg(p)?;
                    let hist: &'static mut TestHist = Box::leak(Box::new(TestHist));
                    let made = match variant {
                        0 => Ok(GetterFromHistory::new_no_delta(hist, clock.clone())),
                        3 => Ok(GetterFromHistory::new_custom_delta(hist, clock.clone(), Time(a))),
                        1 => GetterFromHistory::new_start_at_zero(hist, clock.clone()),
                        _ => GetterFromHistory::new_custom_start(hist, clock.clone(), Time(a)),
                    };
                    match made {
                        Ok(x) => {
                            adapter = Some(x);
                            o.push(0);
                        }
                        Err(e) => {
                            adapter = None;
                            o.push(1);
                            o.push(enc_err(e));
                        }
                    }
                }
                8 => {
                    let d = arg(p)?;
                    match adapter.as_mut() {
                        Some(a) => {
                            a.set_delta(Time(d));
                            o.push(0);
                        }
                        None => o.push(W_BAD),
                    }
                }
                9 => {
                    let t = arg(p)?;
                    match adapter.as_mut() {
                        Some(a) => enc_upd(&a.set_time(Time(t)), &mut o),
                        None => o.push(W_BAD),
                    }
                }
                10 => match adapter.as_ref() {
                    Some(a) => enc_out(&a.get(), &mut o),
                    None => o.push(W_BAD),
                },
                11 => match adapter.as_mut() {
                    Some(a) => enc_upd(&a.update(), &mut o),
                    None => o.push(W_BAD),
                },
                12 => {
                    enc_out(&cg.get(), &mut o);
                    match cg.get_last_request() {
                        Some(v) => {
                            o.push(1);
                            o.push(v);
                        }
                        None => o.push(0),
                    }
                }
                13 => {
                    let v = arg(p)?;
                    enc_upd(&cg.set(v), &mut o);
                }
                14 => {
                    cg.follow(to_dyn!(Getter<i64, E>, g.clone()));
                    o.push(0);
                }
                15 => {
                    cg.stop_following();
                    o.push(0);
                }
                16 => enc_upd(&cg.update(), &mut o),
                17 => {
                    let tg = TimeGetterFromGetter::new(g.clone());
                    match tg.get() {
                        Err(e) => {
                            o.push(1);
                            o.push(enc_err(e));
                        }
                        Ok(t) => {
                            o.push(3);
                            o.push(t.0);
                        }
                    }
                }
                18 => {
                    let e = arg(p)?;
                    rec.fail = if e == 0 { None } else { Some(dec_err(e)) };
                    o.push(0);
                }
                _ => return None,
            }
            Some(o)
        }));
        match r {
            Ok(Some(o)) => out.extend(o),
            Ok(None) => return vec![W_BAD],
            Err(_) => {
                out.push(W_PANIC);
                return out;
            }
        }
    }
    if pos != l.len() {
        return vec![W_BAD];
    }
    out
}
