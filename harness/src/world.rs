// Case kind 7: terminals, devices and wrappers. Mirror of coq/theories/Model/WireWorld.v.
// Only compiled with the `devices` feature.
use crate::streams::{dec_out, enc_out, enc_upd, Payload, E};
use crate::wire::*;
use crate::{W_BAD, W_PANIC};
use core::cell::RefCell;
use rrtk::devices::wrappers::*;
use rrtk::devices::*;
use rrtk::*;

type Term = &'static RefCell<Terminal<'static, E>>;

// inner settable of TerminalData / f32: accepts or rejects as scripted and records what it receives
pub struct RecS<T: Clone + 'static> {
    data: SettableData<T, E>,
    pub received: &'static RefCell<Vec<T>>,
    pub fail: &'static RefCell<Option<Error<E>>>,
}
impl<T: Clone + 'static> Settable<T, E> for RecS<T> {
    fn impl_set(&mut self, value: T) -> NothingOrError<E> {
        if let Some(e) = *self.fail.borrow() {
            return Err(e);
        }
        self.received.borrow_mut().push(value);
        Ok(())
    }
    fn get_settable_data_ref(&self) -> &SettableData<T, E> {
        &self.data
    }
    fn get_settable_data_mut(&mut self) -> &mut SettableData<T, E> {
        &mut self.data
    }
}
impl<T: Clone + 'static> Updatable<E> for RecS<T> {
    fn update(&mut self) -> NothingOrError<E> {
        self.update_following_data()
    }
}
// inner getter of State with scripted update() result and get() output
pub struct InnerG {
    pub script: &'static RefCell<(NothingOrError<E>, Output<State, E>)>,
}
impl Getter<State, E> for InnerG {
    fn get(&self) -> Output<State, E> {
        self.script.borrow().1.clone()
    }
}
impl Updatable<E> for InnerG {
    fn update(&mut self) -> NothingOrError<E> {
        self.script.borrow().0
    }
}

enum Dev {
    Plain(&'static mut dyn Updatable<E>),
    Actuator(&'static mut ActuatorWrapper<'static, RecS<TerminalData>, E>, &'static RefCell<Option<Error<E>>>, &'static RefCell<Vec<TerminalData>>),
    Encoder(&'static mut GetterStateDeviceWrapper<'static, InnerG, E>, &'static RefCell<(NothingOrError<E>, Output<State, E>)>),
    Pidw(&'static mut PIDWrapper<'static, RecS<f32>, E>, &'static RefCell<Option<Error<E>>>, &'static RefCell<Vec<f32>>),
}

fn leak<T>(x: T) -> &'static mut T {
    Box::leak(Box::new(x))
}
fn next(l: &[i64], pos: &mut usize) -> Option<i64> {
    let x = *l.get(*pos)?;
    *pos += 1;
    Some(x)
}
fn enc_ods(o: Option<Datum<State>>, out: &mut Vec<i64>) {
    match o {
        Some(d) => {
            out.push(1);
            out.push(d.time.0);
            enc_state(d.value, out);
        }
        None => out.push(0),
    }
}
fn enc_odc(o: Option<Datum<Command>>, out: &mut Vec<i64>) {
    match o {
        Some(d) => {
            out.push(1);
            out.push(d.time.0);
            enc_cmd(d.value, out);
        }
        None => out.push(0),
    }
}
fn enc_td(t: &TerminalData, out: &mut Vec<i64>) {
    out.push(t.time.0);
    match t.command {
        Some(c) => {
            out.push(1);
            enc_cmd(c, out);
        }
        None => out.push(0),
    }
    match t.state {
        Some(s) => {
            out.push(1);
            enc_state(s, out);
        }
        None => out.push(0),
    }
}
fn read_term(t: Term, out: &mut Vec<i64>) {
    let b = t.borrow();
    enc_ods(<Terminal<'_, E> as Settable<Datum<State>, E>>::get_last_request(&b), out);
    enc_odc(<Terminal<'_, E> as Settable<Datum<Command>, E>>::get_last_request(&b), out);
    enc_ods(<Terminal<'_, E> as Getter<State, E>>::get(&b).unwrap(), out);
    enc_odc(<Terminal<'_, E> as Getter<Command, E>>::get(&b).unwrap(), out);
    match <Terminal<'_, E> as Getter<TerminalData, E>>::get(&b).unwrap() {
        Some(d) => {
            out.push(1);
            enc_td(&d.value, out);
            // TryFrom<TerminalData> for Datum<Command> / Datum<State>: the data's time with its command / state,
            // Err(()) exactly when that part is absent.  A deviation is reported by the marker 94 (never produced by the model).
            let td = d.value;
            let want_c = td.command.map(|c| Datum::new(td.time, c));
            let want_s = td.state.map(|s| Datum::new(td.time, s));
            let got_c: Option<Datum<Command>> = Datum::<Command>::try_from(td).ok();
            let got_s: Option<Datum<State>> = Datum::<State>::try_from(td).ok();
            let mut a = Vec::new();
            let mut b2 = Vec::new();
            enc_odc(want_c, &mut a);
            enc_ods(want_s, &mut a);
            enc_odc(got_c, &mut b2);
            enc_ods(got_s, &mut b2);
            if a != b2 {
                out.push(94);
            }
        }
        None => out.push(0),
    }
}
fn axle_n<const N: usize>(terms: &mut Vec<Term>) -> &'static mut dyn Updatable<E> {
    let a: &'static mut Axle<'static, N, E> = leak(Axle::new());
    for i in 0..N {
        terms.push(a.get_terminal(i));
    }
    a
}
fn gear_teeth<const N: usize>(teeth: &[f32]) -> GearTrain<'static, E> {
    let arr: [f32; N] = core::array::from_fn(|i| teeth[i]);
    GearTrain::new(arr)
}

pub fn run_world_case(l: &[i64]) -> Vec<i64> {
    if l.len() < 4 {
        return vec![W_BAD];
    }
    let nfree = l[2].max(0) as usize;
    let ndev = l[3].max(0) as usize;
    let mut pos = 4usize;
    let mut terms: Vec<Term> = Vec::new();
    for _ in 0..nfree {
        terms.push(leak(Terminal::new()));
    }
    let mut devs: Vec<Dev> = Vec::new();
    let built = (|| -> Option<()> {
        let p = &mut pos;
        for _ in 0..ndev {
            match next(l, p)? {
                1 => {
                    let d: &'static mut Invert<'static, E> = leak(Invert::new());
                    terms.push(d.get_terminal_1());
                    terms.push(d.get_terminal_2());
                    devs.push(Dev::Plain(d));
                }
                2 => {
                    let r = f32::dec(l, p)?;
                    let d: &'static mut GearTrain<'static, E> = leak(GearTrain::with_ratio_raw(r));
                    terms.push(d.get_terminal_1());
                    terms.push(d.get_terminal_2());
                    devs.push(Dev::Plain(d));
                }
                3 => {
                    let n = next(l, p)?;
                    let d = match n {
                        0 => axle_n::<0>(&mut terms),
                        1 => axle_n::<1>(&mut terms),
                        2 => axle_n::<2>(&mut terms),
                        3 => axle_n::<3>(&mut terms),
                        4 => axle_n::<4>(&mut terms),
                        5 => axle_n::<5>(&mut terms),
                        6 => axle_n::<6>(&mut terms),
                        7 => axle_n::<7>(&mut terms),
                        8 => axle_n::<8>(&mut terms),
                        _ => return None,
                    };
                    devs.push(Dev::Plain(d));
                }
                4 => {
                    let dt = match next(l, p)? {
                        0 => DifferentialDistrust::Side1,
                        1 => DifferentialDistrust::Side2,
                        2 => DifferentialDistrust::Sum,
                        _ => DifferentialDistrust::Equal,
                    };
                    let d: &'static mut Differential<'static, E> = leak(Differential::with_distrust(dt));
                    terms.push(d.get_side_1());
                    terms.push(d.get_side_2());
                    terms.push(d.get_sum());
                    devs.push(Dev::Plain(d));
                }
                5 => {
                    let n = next(l, p)?;
                    let mut teeth = Vec::new();
                    for _ in 0..n.max(0) {
                        teeth.push(f32::dec(l, p)?);
                    }
                    let g = match n {
                        0 => gear_teeth::<0>(&teeth),
                        1 => gear_teeth::<1>(&teeth),
                        2 => gear_teeth::<2>(&teeth),
                        3 => gear_teeth::<3>(&teeth),
                        4 => gear_teeth::<4>(&teeth),
                        5 => gear_teeth::<5>(&teeth),
                        6 => gear_teeth::<6>(&teeth),
                        7 => gear_teeth::<7>(&teeth),
                        8 => gear_teeth::<8>(&teeth),
                        _ => return None,
                    };
                    let d: &'static mut GearTrain<'static, E> = leak(g);
                    terms.push(d.get_terminal_1());
                    terms.push(d.get_terminal_2());
                    devs.push(Dev::Plain(d));
                }
                6 => {
                    let fail: &'static RefCell<Option<Error<E>>> = leak(RefCell::new(None));
                    let log: &'static RefCell<Vec<TerminalData>> = leak(RefCell::new(Vec::new()));
                    let inner = RecS { data: SettableData::new(), received: log, fail };
                    let d: &'static mut ActuatorWrapper<'static, RecS<TerminalData>, E> = leak(ActuatorWrapper::new(inner));
                    terms.push(d.get_terminal());
                    devs.push(Dev::Actuator(d, fail, log));
                }
                7 => {
                    let script: &'static RefCell<(NothingOrError<E>, Output<State, E>)> = leak(RefCell::new((Ok(()), Ok(None))));
                    let d: &'static mut GetterStateDeviceWrapper<'static, InnerG, E> =
                        leak(GetterStateDeviceWrapper::new(InnerG { script }));
                    terms.push(d.get_terminal());
                    devs.push(Dev::Encoder(d, script));
                }
                8 => {
                    let t0 = next(l, p)?;
                    let s0 = State::dec(l, p)?;
                    let c0 = Command::dec(l, p)?;
                    let mut ks = Vec::new();
                    for _ in 0..3 {
                        let a = f32::dec(l, p)?;
                        let b = f32::dec(l, p)?;
                        let c = f32::dec(l, p)?;
                        ks.push(PIDKValues::new(a, b, c));
                    }
                    let fail: &'static RefCell<Option<Error<E>>> = leak(RefCell::new(None));
                    let log: &'static RefCell<Vec<f32>> = leak(RefCell::new(Vec::new()));
                    let inner = RecS { data: SettableData::new(), received: log, fail };
                    let d: &'static mut PIDWrapper<'static, RecS<f32>, E> = leak(PIDWrapper::new(
                        inner,
                        Time(t0),
                        s0,
                        c0,
                        PositionDerivativeDependentPIDKValues::new(ks[0], ks[1], ks[2]),
                    ));
                    terms.push(d.get_terminal());
                    devs.push(Dev::Pidw(d, fail, log));
                }
                9 => {
                    // gear train from a Quantity ratio: GearTrain::with_ratio asserts that the ratio is dimensionless
                    let r = f32::dec(l, p)?;
                    let (m, sx) = (next(l, p)? as i8, next(l, p)? as i8);
                    let d: &'static mut GearTrain<'static, E> = leak(GearTrain::with_ratio(Quantity::new(r, Unit::new(m, sx))));
                    terms.push(d.get_terminal_1());
                    terms.push(d.get_terminal_2());
                    devs.push(Dev::Plain(d));
                }
                10 => {
                    // Differential::new(): equal trust
                    let d: &'static mut Differential<'static, E> = leak(Differential::new());
                    terms.push(d.get_side_1());
                    terms.push(d.get_side_2());
                    terms.push(d.get_sum());
                    devs.push(Dev::Plain(d));
                }
                _ => return None,
            }
        }
        Some(())
    })();
    if built.is_none() {
        return vec![W_BAD];
    }
    let nops = match next(l, &mut pos) {
        Some(n) => n.max(0),
        None => return vec![W_BAD],
    };
    let mut out = Vec::new();
    for _ in 0..nops {
        let r = std::panic::catch_unwind(std::panic::AssertUnwindSafe(|| -> Option<Vec<i64>> {
            let p = &mut pos;
            let mut o = Vec::new();
            match next(l, p)? {
                1 => {
                    let i = next(l, p)? as usize;
                    let j = next(l, p)? as usize;
                    connect(*terms.get(i)?, *terms.get(j)?);
                    o.push(0);
                }
                2 => {
                    let i = next(l, p)? as usize;
                    terms.get(i)?.borrow_mut().disconnect();
                    o.push(0);
                }
                3 => {
                    let i = next(l, p)? as usize;
                    let t = next(l, p)?;
                    let s = State::dec(l, p)?;
                    terms.get(i)?.borrow_mut().set(Datum::new(Time(t), s)).ok()?;
                    o.push(0);
                }
                4 => {
                    let i = next(l, p)? as usize;
                    let t = next(l, p)?;
                    let c = Command::dec(l, p)?;
                    terms.get(i)?.borrow_mut().set(Datum::new(Time(t), c)).ok()?;
                    o.push(0);
                }
                5 => {
                    let k = next(l, p)? as usize;
                    match devs.get_mut(k) {
                        Some(Dev::Plain(d)) => enc_upd(&d.update(), &mut o),
                        Some(Dev::Actuator(d, _, _)) => enc_upd(&d.update(), &mut o),
                        Some(Dev::Encoder(d, _)) => enc_upd(&d.update(), &mut o),
                        Some(Dev::Pidw(d, _, _)) => enc_upd(&d.update(), &mut o),
                        None => o.push(W_BAD),
                    }
                }
                6 => {
                    let i = next(l, p)? as usize;
                    read_term(*terms.get(i)?, &mut o);
                }
                7 => {
                    for t in &terms {
                        read_term(*t, &mut o);
                    }
                }
                8 => {
                    let k = next(l, p)? as usize;
                    let utag = next(l, p)?;
                    let ue = next(l, p)?;
                    let io = dec_out::<State>(l, p)?;
                    match devs.get(k) {
                        Some(Dev::Encoder(_, script)) => {
                            *script.borrow_mut() = (if utag == 0 { Ok(()) } else { Err(dec_err(ue)) }, io);
                            o.push(0);
                        }
                        _ => o.push(W_BAD),
                    }
                }
                9 => {
                    let k = next(l, p)? as usize;
                    let e = next(l, p)?;
                    let f = if e == 0 { None } else { Some(dec_err(e)) };
                    match devs.get(k) {
                        Some(Dev::Actuator(_, fail, _)) | Some(Dev::Pidw(_, fail, _)) => {
                            *fail.borrow_mut() = f;
                            o.push(0);
                        }
                        _ => o.push(W_BAD),
                    }
                }
                10 => {
                    let k = next(l, p)? as usize;
                    match devs.get(k) {
                        Some(Dev::Actuator(_, _, log)) => {
                            let log = log.borrow();
                            o.push(log.len() as i64);
                            match log.last() {
                                Some(x) => {
                                    o.push(1);
                                    enc_td(x, &mut o);
                                }
                                None => o.push(0),
                            }
                        }
                        Some(Dev::Pidw(_, _, log)) => {
                            let log = log.borrow();
                            o.push(log.len() as i64);
                            match log.last() {
                                Some(x) => {
                                    o.push(1);
                                    o.push(bits_of_f(*x));
                                }
                                None => o.push(0),
                            }
                        }
                        _ => o.push(W_BAD),
                    }
                }
                _ => return None,
            }
            Some(o)
        }));
        match r {
            Ok(Some(o)) => out.extend(o),
            Ok(None) => return vec![W_BAD],
            Err(_) => {
                out.push(W_PANIC);
                return out;
            }
        }
    }
    if pos != l.len() {
        return vec![W_BAD];
    }
    out
}


// Case kind 8: [n; i] -> Axle::<n>::get_terminal(i) from safe code: must panic when i >= n
fn axle_get<const N: usize>(i: usize) -> Vec<i64> {
    let a: &'static mut Axle<'static, N, E> = leak(Axle::new());
    let t = a.get_terminal(i);
    // the address is compared, never dereferenced, when out of range
    let base = a as *const _ as usize;
    let addr = t as *const _ as usize;
    let inside = addr >= base && addr < base + core::mem::size_of::<Axle<'static, N, E>>().max(1);
    vec![if inside { 0 } else { 96 }]
}
pub fn run_axle_index_case(l: &[i64]) -> Vec<i64> {
    if l.len() != 2 || l[1] < 0 {
        return vec![W_PANIC];
    }
    let i = l[1] as usize;
    match l[0] {
        0 => axle_get::<0>(i),
        1 => axle_get::<1>(i),
        2 => axle_get::<2>(i),
        3 => axle_get::<3>(i),
        4 => axle_get::<4>(i),
        5 => axle_get::<5>(i),
        6 => axle_get::<6>(i),
        7 => axle_get::<7>(i),
        8 => axle_get::<8>(i),
        _ => vec![W_BAD],
    }
}
