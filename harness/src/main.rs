// Rust side of the correspondence check: reads one case per line (blank-separated integers),
// runs it against the rrtk crate under test, prints one result line of integers.
// The case language is the one decoded by coq/theories/Model/Case.v.
#![allow(dead_code)]
#![allow(unused_imports)]
use std::io::{BufRead, Write};
mod consts;
mod mp;
mod prog;
#[cfg(feature = "std")]
mod refs;
mod settable;
mod streams;
// the crate's own example, compiled from the current source: its StreamPID is the stream assembly of C04
#[allow(dead_code, unused_imports)]
pub mod pidex {
    include!(concat!(env!("RRTK_VERIF_REPO"), "/examples/pid.rs"));
    pub fn make(
        input: Reference<dyn Getter<Quantity, ()>>,
        setpoint: Quantity,
        kp: Quantity,
        ki: Quantity,
        kd: Quantity,
    ) -> Box<dyn PidLike> {
        Box::new(StreamPID::new(input, setpoint, kp, ki, kd))
    }
    pub trait PidLike: Getter<f32, ()> + Updatable<()> {}
    impl PidLike for StreamPID {}
}
mod wire;
#[cfg(feature = "devices")]
mod world;

pub const W_PANIC: i64 = 99;
pub const W_TYPE: i64 = 98;
pub const W_BAD: i64 = 97;

fn run_case(case: &[i64]) -> Vec<i64> {
    if case.is_empty() {
        return vec![W_BAD];
    }
    let r = std::panic::catch_unwind(std::panic::AssertUnwindSafe(|| match case[0] {
        1 => prog::run_prog_case(&case[1..]),
        2 => consts::run(&case[1..]),
        3 => streams::run_comb_case(&case[1..]),
        4 => streams::run_strm_case(&case[1..]),
        5 => settable::run_sett_case(&case[1..]),
        6 => mp::run_mp_case(&case[1..]),
        #[cfg(feature = "devices")]
        7 => world::run_world_case(&case[1..]),
        #[cfg(feature = "devices")]
        8 => world::run_axle_index_case(&case[1..]),
        #[cfg(feature = "std")]
        9 => refs::run_ref_case(&case[1..]),
        #[cfg(feature = "std")]
        10 => refs::run_thread_case(&case[1..]),
        _ => vec![W_BAD],
    }));
    match r {
        Ok(v) => v,
        Err(_) => vec![W_PANIC],
    }
}

fn main() {
    std::panic::set_hook(Box::new(|_| {}));
    let args: Vec<String> = std::env::args().collect();
    if args.len() > 1 && args[1] == "--config" {
        // report the build configuration so that the runner can pass the matching cfg to the model
        println!(
            "chk={} std={} devices={} hook={} debug={}",
            wire::chk_on() as i32,
            cfg!(feature = "std") as i32,
            cfg!(feature = "devices") as i32,
            cfg!(rrtk_verif) as i32,
            cfg!(debug_assertions) as i32
        );
        return;
    }
    let stdin = std::io::stdin();
    let stdout = std::io::stdout();
    let mut out = std::io::BufWriter::new(stdout.lock());
    for line in stdin.lock().lines() {
        let line = line.unwrap();
        let toks: Vec<i64> = line
            .split_whitespace()
            .map(|t| t.parse::<i64>().expect("bad integer in case"))
            .collect();
        if toks.is_empty() {
            continue;
        }
        let r = run_case(&toks);
        let strs: Vec<String> = r.iter().map(|x| x.to_string()).collect();
        writeln!(out, "{}", strs.join(" ")).unwrap();
    }
}
