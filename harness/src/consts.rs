// Case kind 2: [idx] -> exponents of the idx-th named unit constant, referenced BY NAME in a file
// generated from the crate's src/dimensions/constants.rs (tools/gen_constants.py).
use crate::wire::unit_exps;
use rrtk::*;
include!(concat!(env!("RRTK_VERIF_GEN"), "/gen_consts.rs"));
pub fn run(l: &[i64]) -> Vec<i64> {
    match l.first() {
        Some(&i) if i >= 0 && (i as usize) < CONSTS.len() => {
            let (m, s) = unit_exps(CONSTS[i as usize].1);
            vec![5, m, s]
        }
        _ => vec![crate::W_BAD],
    }
}
