// Case kind 6: MotionProfile constructor and accessors. Mirror of coq/theories/Model/WireMP.v.
use crate::streams::{Payload, E};
use crate::wire::*;
use crate::{W_BAD, W_PANIC};
use rrtk::*;

fn enc_oq(o: Option<Quantity>, out: &mut Vec<i64>) {
    match o {
        Some(q) => {
            out.push(1);
            enc_q(q, out);
        }
        None => out.push(0),
    }
}
fn guarded(out: &mut Vec<i64>, f: impl FnOnce(&mut Vec<i64>)) {
    let r = std::panic::catch_unwind(std::panic::AssertUnwindSafe(|| {
        let mut o = Vec::new();
        f(&mut o);
        o
    }));
    match r {
        Ok(o) => out.extend(o),
        Err(_) => out.push(W_PANIC),
    }
}

pub fn private_times(p: &MotionProfile) -> (i64, i64, i64) {
    // t1, t2, t3 are private: read them through Debug ("t1: Time(…)")
    let s = format!("{:?}", p);
    let grab = |name: &str| -> i64 {
        let i = s.find(&format!("{}: Time(", name)).unwrap() + name.len() + 7;
        let j = s[i..].find(')').unwrap() + i;
        s[i..j].parse::<i64>().unwrap()
    };
    (grab("t1"), grab("t2"), grab("t3"))
}
fn private_max_acc_and_end(p: &MotionProfile, out: &mut Vec<i64>) {
    // max_acc: the acceleration commanded at t = 0 of a profile with t1 > 0 is not always available; read Debug
    let s = format!("{:?}", p);
    let i = s.find("max_acc: Quantity { value: ").unwrap() + 27;
    let j = s[i..].find(',').unwrap() + i;
    let v: f32 = s[i..j].parse::<f32>().unwrap();
    let k = s[j..].find("unit: ").unwrap() + j + 6;
    let ke = s[k..].find(" }, end_command").map(|x| x + k + 2).unwrap_or(k);
    let us = &s[k..ke];
    let nums: Vec<i64> = us
        .split(|c: char| !(c.is_ascii_digit() || c == '-'))
        .filter(|t| !t.is_empty() && t.chars().any(|c| c.is_ascii_digit()))
        .map(|t| t.parse::<i64>().unwrap())
        .collect();
    out.push(bits_of_f(v));
    if nums.len() >= 2 {
        out.push(nums[0]);
        out.push(nums[1]);
    } else {
        out.push(0);
        out.push(0);
    }
    // end command = what the history returns forever after completion; its kind and value through the public API
    let h = <MotionProfile as History<Command, E>>::get(p, Time(i64::MAX));
    match h {
        Some(d) => enc_cmd(d.value, out),
        None => {
            out.push(-1);
            out.push(0);
        }
    }
}

pub fn run_mp_case(l: &[i64]) -> Vec<i64> {
    let mut pos = 2usize;
    let parsed = (|| {
        let p = &mut pos;
        let s0 = State::dec(l, p)?;
        let s1 = State::dec(l, p)?;
        let mv = Quantity::dec(l, p)?;
        let ma = Quantity::dec(l, p)?;
        let n = *l.get(*p)?;
        *p += 1;
        let mut ts = Vec::new();
        for _ in 0..n.max(0) {
            ts.push(*l.get(*p)?);
            *p += 1;
        }
        Some((s0, s1, mv, ma, ts))
    })();
    let (s0, s1, mv, ma, ts) = match parsed {
        Some(x) if pos == l.len() => x,
        _ => return vec![W_BAD],
    };
    let prof = match std::panic::catch_unwind(|| MotionProfile::new(s0, s1, mv, ma)) {
        Ok(p) => p,
        Err(_) => return vec![W_PANIC],
    };
    let mut out = vec![0];
    let mut prof = prof;
    // Updatable::update of a profile does nothing and succeeds; a deviation is reported by 96 (never produced by the model)
    let before = format!("{:?}", prof);
    if <MotionProfile as Updatable<E>>::update(&mut prof).is_err() || format!("{:?}", prof) != before {
        return vec![96];
    }
    let prof = prof;
    let (t1, t2, t3) = private_times(&prof);
    out.extend([t1, t2, t3]);
    private_max_acc_and_end(&prof, &mut out);
    for t in ts {
        let t = Time(t);
        out.push(enc_piece(prof.get_piece(t)));
        match prof.get_mode(t) {
            Some(d) => {
                out.push(1);
                out.push(enc_pd(d));
            }
            None => out.push(0),
        }
        enc_oq(prof.get_acceleration(t), &mut out);
        guarded(&mut out, |o| enc_oq(prof.get_velocity(t), o));
        guarded(&mut out, |o| enc_oq(prof.get_position(t), o));
        guarded(&mut out, |o| match <MotionProfile as History<Command, E>>::get(&prof, t) {
            Some(d) => {
                o.push(1);
                o.push(d.time.0);
                enc_cmd(d.value, o);
            }
            None => o.push(0),
        });
    }
    out
}
