// Wire encoding of values (mirror of coq/theories/Model/Wire.v).
use rrtk::*;

pub fn chk_on() -> bool {
    // dimension checking is compiled in exactly when Unit carries its exponents
    std::mem::size_of::<Unit>() != 0
}
pub fn f_of_bits(b: i64) -> f32 {
    f32::from_bits(b as u32)
}
pub fn bits_of_f(f: f32) -> i64 {
    if f.is_nan() {
        0x7fc00000
    } else {
        f.to_bits() as i64
    }
}
pub fn unit_exps(u: Unit) -> (i64, i64) {
    // the exponents are private: read them through Debug
    let s = format!("{:?}", u);
    let nums: Vec<i64> = s
        .split(|c: char| !(c.is_ascii_digit() || c == '-'))
        .filter(|t| !t.is_empty() && t.chars().any(|c| c.is_ascii_digit()))
        .map(|t| t.parse::<i64>().unwrap())
        .collect();
    if nums.len() == 2 {
        (nums[0], nums[1])
    } else {
        (0, 0)
    }
}
pub fn enc_pd(d: PositionDerivative) -> i64 {
    match d {
        PositionDerivative::Position => 0,
        PositionDerivative::Velocity => 1,
        PositionDerivative::Acceleration => 2,
    }
}
pub fn dec_pd(z: i64) -> PositionDerivative {
    match z {
        0 => PositionDerivative::Position,
        1 => PositionDerivative::Velocity,
        _ => PositionDerivative::Acceleration,
    }
}
pub fn enc_piece(p: MotionProfilePiece) -> i64 {
    match p {
        MotionProfilePiece::BeforeStart => 0,
        MotionProfilePiece::InitialAcceleration => 1,
        MotionProfilePiece::ConstantVelocity => 2,
        MotionProfilePiece::EndAcceleration => 3,
        MotionProfilePiece::Complete => 4,
    }
}
pub fn dec_piece(z: i64) -> MotionProfilePiece {
    match z {
        0 => MotionProfilePiece::BeforeStart,
        1 => MotionProfilePiece::InitialAcceleration,
        2 => MotionProfilePiece::ConstantVelocity,
        3 => MotionProfilePiece::EndAcceleration,
        _ => MotionProfilePiece::Complete,
    }
}
pub fn enc_err(e: Error<u8>) -> i64 {
    match e {
        Error::FromNone => -1,
        Error::Other(k) => k as i64,
        _ => -2,
    }
}
pub fn dec_err(z: i64) -> Error<u8> {
    if z == -1 {
        Error::FromNone
    } else {
        Error::Other(z as u8)
    }
}
pub fn enc_q(q: Quantity, out: &mut Vec<i64>) {
    let (m, s) = unit_exps(q.unit);
    out.push(bits_of_f(q.value));
    out.push(m);
    out.push(s);
}
pub fn enc_state(s: State, out: &mut Vec<i64>) {
    out.push(bits_of_f(s.position));
    out.push(bits_of_f(s.velocity));
    out.push(bits_of_f(s.acceleration));
}
pub fn enc_cmd(c: Command, out: &mut Vec<i64>) {
    out.push(enc_pd(PositionDerivative::from(c)));
    out.push(bits_of_f(f32::from(c)));
}
