// Case kind 9: Reference variants, clones, to_dyn!, borrows.  Kind 10: threads incrementing through
// References built over one shared Arc.  Mirror of coq/theories/Model/WireRef.v.
use crate::{W_BAD, W_PANIC};
use rrtk::*;
use std::cell::Cell;
use std::sync::{Arc, Mutex, RwLock};

pub trait Bar {
    fn v(&self) -> i64;
    fn s(&mut self, x: i64);
}
pub struct Foo {
    v: i64,
    flag: Arc<std::sync::atomic::AtomicBool>,
}
impl Drop for Foo {
    fn drop(&mut self) {
        self.flag.store(true, std::sync::atomic::Ordering::SeqCst);
    }
}
impl Bar for Foo {
    fn v(&self) -> i64 {
        self.v
    }
    fn s(&mut self, x: i64) {
        self.v = x;
    }
}
enum H {
    Plain(Reference<Foo>),
    Dyn(Reference<dyn Bar>),
}
fn next(l: &[i64], pos: &mut usize) -> Option<i64> {
    let x = *l.get(*pos)?;
    *pos += 1;
    Some(x)
}

pub fn run_ref_case(l: &[i64]) -> Vec<i64> {
    if l.len() < 3 {
        return vec![W_BAD];
    }
    let flag = Arc::new(std::sync::atomic::AtomicBool::new(false));
    let foo = Foo { v: l[1], flag: flag.clone() };
    let first: Reference<Foo> = match l[0] {
        0 => unsafe { Reference::from_ptr(Box::leak(Box::new(foo)) as *mut Foo) },
        1 => rc_ref_cell_reference(foo),
        2 => unsafe { Reference::from_ptr_rw_lock(Box::leak(Box::new(RwLock::new(foo))) as *const RwLock<Foo>) },
        3 => unsafe { Reference::from_ptr_mutex(Box::leak(Box::new(Mutex::new(foo))) as *const Mutex<Foo>) },
        4 => arc_rw_lock_reference(foo),
        _ => arc_mutex_reference(foo),
    };
    let mut pool: Vec<Option<H>> = vec![Some(H::Plain(first))];
    let n = l[2].max(0);
    let mut pos = 3usize;
    let mut out = Vec::new();
    for _ in 0..n {
        let r = std::panic::catch_unwind(std::panic::AssertUnwindSafe(|| -> Option<Vec<i64>> {
            let p = &mut pos;
            let mut o = Vec::new();
            let op = next(l, p)?;
            if op == 6 {
                o.push(2);
                o.push(flag.load(std::sync::atomic::Ordering::SeqCst) as i64);
                return Some(o);
            }
            let k = next(l, p)? as usize;
            let x = if op == 4 { next(l, p)? } else { 0 };
            let live = matches!(pool.get(k), Some(Some(_)));
            if !live {
                o.push(W_BAD);
                return Some(o);
            }
            match op {
                1 => {
                    let c = match pool[k].as_ref().unwrap() {
                        H::Plain(r) => H::Plain(r.clone()),
                        H::Dyn(r) => H::Dyn(r.clone()),
                    };
                    pool.push(Some(c));
                    o.push(0);
                }
                2 => {
                    let h = pool[k].take().unwrap();
                    let d = match h {
                        H::Plain(r) => to_dyn!(Bar, r),
                        H::Dyn(r) => to_dyn!(Bar, r),
                    };
                    pool.push(Some(H::Dyn(d)));
                    o.push(0);
                }
                3 => {
                    let v = match pool[k].as_ref().unwrap() {
                        H::Plain(r) => r.borrow().v(),
                        H::Dyn(r) => r.borrow().v(),
                    };
                    // the same object read through a mutable borrow (Deref of BorrowMut) and, for a plain handle,
                    // through the unsafe inner handle of a clone (From<Reference> for ReferenceUnsafe) must agree
                    let v2 = match pool[k].as_ref().unwrap() {
                        H::Plain(r) => r.borrow_mut().v(),
                        H::Dyn(r) => r.borrow_mut().v(),
                    };
                    let v3 = match pool[k].as_ref().unwrap() {
                        H::Plain(r) => {
                            let u: rrtk::reference::ReferenceUnsafe<Foo> = r.clone().into();
                            let x = unsafe { u.borrow().v() };
                            x
                        }
                        H::Dyn(_) => v,
                    };
                    o.push(1);
                    o.push(v);
                    if v2 != v || v3 != v {
                        o.push(94);
                    }
                }
                4 => {
                    match pool[k].as_ref().unwrap() {
                        H::Plain(r) => r.borrow_mut().s(x),
                        H::Dyn(r) => r.borrow_mut().s(x),
                    }
                    o.push(0);
                }
                5 => {
                    pool[k] = None;
                    o.push(0);
                }
                _ => return None,
            }
            Some(o)
        }));
        match r {
            Ok(Some(o)) => out.extend(o),
            Ok(None) => return vec![W_BAD],
            Err(_) => {
                out.push(W_PANIC);
                return out;
            }
        }
    }
    if pos != l.len() {
        return vec![W_BAD];
    }
    out
}

// [variant (4 ArcRwLock | 5 ArcMutex); threads; increments]: every thread builds its own Reference over the shared
// Arc and increments through borrow_mut; the final count must be threads * increments (a test, not a proof)
pub fn run_thread_case(l: &[i64]) -> Vec<i64> {
    if l.len() != 3 {
        return vec![W_BAD];
    }
    let (v, t, k) = (l[0], l[1].max(0) as usize, l[2].max(0));
    let total = if v == 4 {
        let arc = Arc::new(RwLock::new(0i64));
        let hs: Vec<_> = (0..t)
            .map(|_| {
                let a = arc.clone();
                std::thread::spawn(move || {
                    let r = Reference::from_arc_rw_lock(a);
                    for _ in 0..k {
                        let mut g = r.borrow_mut();
                        let cur = *g;
                        *g = cur + 1;
                    }
                })
            })
            .collect();
        for h in hs {
            h.join().unwrap();
        }
        let x = *arc.read().unwrap();
        x
    } else {
        let arc = Arc::new(Mutex::new(0i64));
        let hs: Vec<_> = (0..t)
            .map(|_| {
                let a = arc.clone();
                std::thread::spawn(move || {
                    let r = Reference::from_arc_mutex(a);
                    for _ in 0..k {
                        let mut g = r.borrow_mut();
                        let cur = *g;
                        *g = cur + 1;
                    }
                })
            })
            .collect();
        for h in hs {
            h.join().unwrap();
        }
        let x = *arc.lock().unwrap();
        x
    };
    vec![total]
}
