(* Driver for the extracted model: one case per input line (blank-separated decimal integers),
   one result line per case.  No logic here: parse integers, call Model.run_case, print integers. *)
open Model

let rec pos_of_u64 (n : int64) : positive =
  (* n > 0 as unsigned *)
  if Int64.equal n 1L then XH
  else
    let q = Int64.shift_right_logical n 1 in
    if Int64.equal (Int64.logand n 1L) 1L then XI (pos_of_u64 q) else XO (pos_of_u64 q)

let z_of_string (s : string) : z =
  let n = Int64.of_string s in
  if Int64.equal n 0L then Z0
  else if Int64.compare n 0L > 0 then Zpos (pos_of_u64 n)
  else Zneg (pos_of_u64 (Int64.neg n))   (* Int64.neg MIN = MIN = 2^63 unsigned *)

let rec u64_of_pos (p : positive) : int64 =
  match p with
  | XH -> 1L
  | XO q -> Int64.shift_left (u64_of_pos q) 1
  | XI q -> Int64.logor (Int64.shift_left (u64_of_pos q) 1) 1L

let string_of_z (x : z) : string =
  match x with
  | Z0 -> "0"
  | Zpos p -> Printf.sprintf "%Lu" (u64_of_pos p)
  | Zneg p -> "-" ^ Printf.sprintf "%Lu" (u64_of_pos p)

let () =
  let buf = Buffer.create 65536 in
  (try
     while true do
       let line = input_line stdin in
       let toks = List.filter (fun s -> s <> "") (String.split_on_char ' ' (String.trim line)) in
       if toks <> [] then begin
         let case = List.map z_of_string toks in
         let r = run_case case in
         Buffer.clear buf;
         List.iteri (fun i x -> if i > 0 then Buffer.add_char buf ' '; Buffer.add_string buf (string_of_z x)) r;
         print_endline (Buffer.contents buf)
       end
     done
   with End_of_file -> ())
