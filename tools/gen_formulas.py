#!/usr/bin/env python3
"""Translator: the closed-form accessors of src/motion_profile.rs (get_acceleration, get_velocity, get_position),
State::update (src/state.rs) and PIDKValues::evaluate (src/lib.rs) -> GenFormulas.v.

Each function body is parsed (recursive descent, the Rust subset these bodies use: let, return, if / else-if chains on
Time comparisons, + - * / unary minus, field access, method calls, paths with arguments, literals, Some/None) and emitted
as a Gallina function that builds a program of the deep embedding (Model/Prog.v: `expr`), with the operators in exactly
the order and association of the source.  coq/gen_theorems/C06Formulas.v proves, for every profile / state / gains and
every argument, that running the generated program equals the hand-written model function."""
import os, re, sys

TOK = re.compile(r"\s*(?:(//[^\n]*)|(\d+\.\d+|\d+)|([A-Za-z_][A-Za-z0-9_]*)|(::|<=|>=|==|!=|[-+*/<>=(){},;.&!:])|(\"(?:[^\"\\\\]|\\\\.)*\"))")


class ParseError(Exception):
    pass


def tokenize(s):
    out, i = [], 0
    while i < len(s):
        if s[i:].strip() == "":
            break
        m = TOK.match(s, i)
        if not m:
            raise ParseError("cannot tokenize at: %r" % s[i:i + 40])
        i = m.end()
        if m.group(1): continue
        if m.group(2): out.append(("num", m.group(2)))
        elif m.group(3): out.append(("id", m.group(3)))
        elif m.group(5): out.append(("str", m.group(5)))
        else: out.append(("op", m.group(4)))
    return out


class P:
    def __init__(self, toks):
        self.t, self.i = toks, 0
    def peek(self, k=0):
        return self.t[self.i + k] if self.i + k < len(self.t) else (None, None)
    def at(self, v, k=0):
        return self.peek(k)[1] == v
    def eat(self, v=None):
        kind, val = self.peek()
        if v is not None and val != v:
            raise ParseError("expected %r, got %r (token %d)" % (v, val, self.i))
        self.i += 1
        return kind, val
    # ---- statements
    def block(self):
        self.eat("{"); st = self.stmts(); self.eat("}")
        return st
    def stmts(self):
        """returns a statement tree: ('let', name, e, rest) | ('ret', e) | ('if', a, b, then, else) | ('assign', field, e, rest) | ('end',)"""
        if self.at("}") or self.peek()[0] is None:
            return ("end",)
        if self.at("let"):
            self.eat("let")
            if self.at("mut"): self.eat("mut")
            _, name = self.eat(); self.eat("="); e = self.expr(); self.eat(";")
            return ("let", name, e, self.stmts())
        if self.at("assert") and self.at("!", 1):
            self.eat("assert"); self.eat("!"); self.eat("("); e = self.arith(); self.eat(">="); z = self.eat()
            if z != ("num", "0.0"): raise ParseError("only assert!(e >= 0.0) is supported")
            self.eat(")"); self.eat(";")
            return ("assert_ge0", e, self.stmts())
        if self.at("return"):
            self.eat("return"); e = self.expr()
            if self.at(";"): self.eat(";")
            return ("ret", e)
        if self.at("if"):
            self.eat("if"); a = self.arith(); op = self.eat()[1]
            if op != "<": raise ParseError("only `<` comparisons are supported, got %r" % op)
            b = self.arith(); th = self.block()
            if self.at("else"):
                self.eat("else")
                el = self.stmts_one_if() if self.at("if") else self.block()
            else:
                el = self.stmts()
                return ("if", a, b, th, el)
            rest = self.stmts()
            if rest != ("end",): raise ParseError("statements after a complete if/else chain")
            return ("if", a, b, th, el)
        if self.at("self") and self.at(".", 1) and self.at("=", 3):
            self.eat("self"); self.eat("."); _, f = self.eat(); self.eat("="); e = self.expr(); self.eat(";")
            return ("assign", f, e, self.stmts())
        e = self.expr()
        if self.at(";"): self.eat(";"); raise ParseError("expression statement without effect")
        return ("ret", e)
    def stmts_one_if(self):
        self.eat("if"); a = self.arith(); op = self.eat()[1]
        if op != "<": raise ParseError("only `<` comparisons are supported")
        b = self.arith(); th = self.block()
        if not self.at("else"): raise ParseError("if without else inside an else-if chain")
        self.eat("else")
        el = self.stmts_one_if() if self.at("if") else self.block()
        return ("if", a, b, th, el)
    # ---- expressions
    def expr(self):
        return self.arith()
    def arith(self):
        l = self.term()
        while self.peek()[1] in ("+", "-"):
            o = self.eat()[1]; r = self.term(); l = ("bin", o, l, r)
        return l
    def term(self):
        l = self.unary()
        while self.peek()[1] in ("*", "/"):
            o = self.eat()[1]; r = self.unary(); l = ("bin", o, l, r)
        return l
    def unary(self):
        if self.at("-"):
            self.eat("-"); return ("neg", self.unary())
        return self.postfix()
    def postfix(self):
        e = self.primary()
        while self.at("."):
            self.eat("."); _, name = self.eat()
            if self.at("("):
                self.eat("("); args = self.args(); e = ("meth", e, name, args)
            else:
                e = ("field", e, name)
        return e
    def args(self):
        a = []
        while not self.at(")"):
            a.append(self.expr())
            if self.at(","): self.eat(",")
        self.eat(")")
        return a
    def primary(self):
        if self.at("if"):
            self.eat("if"); a = self.arith(); self.eat("<"); b = self.arith()
            self.eat("{"); t = self.expr(); self.eat("}"); self.eat("else"); self.eat("{"); e = self.expr(); self.eat("}")
            return ("ifexpr", a, b, t, e)
        kind, val = self.eat()
        if kind == "num": return ("num", val)
        if kind == "str": return ("str", val)
        if val == "(":
            e = self.expr(); self.eat(")"); return e
        if kind == "id":
            path = [val]
            while self.at("::"):
                self.eat("::"); path.append(self.eat()[1])
            name = "::".join(path)
            if self.at("("):
                self.eat("("); return ("call", name, self.args())
            if self.at("{") and name[0].isupper() and self.peek(1)[0] == "id" and self.at(":", 2):
                self.eat("{"); fields = []
                while not self.at("}"):
                    _, fname = self.eat(); self.eat(":"); fields.append((fname, self.expr()))
                    if self.at(","): self.eat(",")
                self.eat("}")
                return ("struct", name, fields)
            return ("name", name)
        raise ParseError("unexpected token %r" % (val,))


def fn_body(src, fn_name, after=None):
    start = src.index(after) if after else 0
    m = re.search(r"fn\s+%s\s*\(([^)]*)\)[^{]*\{" % re.escape(fn_name), src[start:])
    if not m: raise ParseError("function %s not found" % fn_name)
    i = start + m.end(); depth = 1
    while depth:
        depth += {"{": 1, "}": -1}.get(src[i], 0); i += 1
    return src[start + m.end():i - 1], src.count("\n", 0, start + m.start()) + 1


BOP = {"+": "O_ADD", "-": "O_SUB", "*": "O_MUL", "/": "O_DIV"}
FLIT = {"0.0": "fzero", "0.5": "fhalf", "1.0": "fone", "2.0": "ftwo"}


class Emit:
    """expression -> Gallina `expr` term, with a name environment"""
    def __init__(self, atoms, units):
        self.atoms, self.units = atoms, units
    def e(self, x, env):
        k = x[0]
        if k == "num":
            if x[1] in FLIT: return "(Lit (VF %s))" % FLIT[x[1]]
            raise ParseError("float/integer literal %s has no model constant" % x[1])
        if k == "name":
            if x[1] in env: return env[x[1]]
            raise ParseError("unknown name %s" % x[1])
        if k == "field":
            if x[1] == ("name", "self") and ("self." + x[2]) in self.atoms:
                return self.atoms["self." + x[2]]
            if x[2] == "value":
                return "(Op O_F_FROM [%s])" % self.e(x[1], env)
            raise ParseError("unknown field access .%s" % x[2])
        if k == "bin":
            return "(Op %s [%s; %s])" % (BOP[x[1]], self.e(x[2], env), self.e(x[3], env))
        if k == "neg":
            return "(Op O_NEG [%s])" % self.e(x[1], env)
        if k == "call":
            f, a = x[1], x[2]
            if f == "Time::default" and not a: return "(Lit (VT 0))"
            if f == "Quantity::from" and len(a) == 1: return "(Op O_Q_FROM [%s])" % self.e(a[0], env)
            if f == "Quantity::dimensionless" and len(a) == 1: return "(Op O_Q_DIMLESS [%s])" % self.e(a[0], env)
            if f == "Quantity::new" and len(a) == 2 and a[1][0] == "name" and a[1][1] in self.units:
                m, s = self.units[a[1][1]]
                return "(Op O_Q_NEW [%s; Lit (VU (unew c (%d) (%d)))])" % (self.e(a[0], env), m, s)
            if f == "DimensionlessInteger" and len(a) == 1 and a[0][0] == "num" and "." not in a[0][1]:
                return "(Lit (VD %s))" % a[0][1]
            if f == "Command::from" and len(a) == 1: return "(Op O_C_FROM_S [%s])" % self.e(a[0], env)
            if f == "f32::from" and len(a) == 1: return "(Op O_F_FROM [%s])" % self.e(a[0], env)
            if f == "Time::try_from" and len(a) == 1: return "(Op O_T_TRY [%s])" % self.e(a[0], env)
            raise ParseError("unknown call %s/%d" % (f, len(a)))
        if k == "meth":
            recv, name, a = x[1], x[2], x[3]
            table = {"get_acceleration": "O_C_GET_ACC", "get_velocity": "O_C_GET_VEL", "get_position": "O_C_GET_POS"}
            stable = {"get_acceleration": "O_GET_ACC", "get_velocity": "O_GET_VEL", "get_position": "O_GET_POS"}
            if not a and recv == ("field", ("name", "self"), "end_command") and name in table:
                return "(Op %s [%s])" % (table[name], self.e(recv, env))
            if not a and recv == ("name", "self") and name in stable and "self" in self.atoms:
                return "(Op %s [%s])" % (stable[name], self.atoms["self"])
            if not a and recv[0] == "name" and ("state:" + recv[1]) in self.atoms and name in stable:
                return "(Op %s [%s])" % (stable[name], self.atoms["state:" + recv[1]])
            if not a and name == "abs": return "(Op O_ABS [%s])" % self.e(recv, env)
            if name == "expect" and len(a) == 1 and a[0][0] == "str": return "EXPECT" + self.e(recv, env)
            raise ParseError("unknown method .%s()" % name)
        if k == "ifexpr":
            return "(if fltb %s %s then %s else %s)" % (self.float_atom(x[1]), self.float_atom(x[2]), self.e(x[3], env), self.e(x[4], env))
        raise ParseError("cannot emit %r" % (x,))
    def float_atom(self, x):
        if x[0] == "field" and x[1][0] == "name" and ("float:%s.%s" % (x[1][1], x[2])) in self.atoms:
            return self.atoms["float:%s.%s" % (x[1][1], x[2])]
        raise ParseError("comparison operand is not a float field: %r" % (x,))
    def time_atom(self, x, env_t):
        if x[0] == "name" and x[1] in env_t: return env_t[x[1]]
        if x == ("call", "Time::default", []): return "0"
        if x[0] == "field" and x[1] == ("name", "self") and ("time:self." + x[2]) in self.atoms:
            return self.atoms["time:self." + x[2]]
        raise ParseError("comparison operand is not a Time atom: %r" % (x,))


def emit_option_fn(st, em, env, env_t, ind="  "):
    """statement tree of a fn returning Option<Quantity> -> Gallina term of type gres"""
    k = st[0]
    if k == "let":
        env2 = dict(env); env2[st[1]] = em.e(st[2], env)
        env_t2 = dict(env_t); env_t2.pop(st[1], None)
        return emit_option_fn(st[3], em, env2, env_t2, ind)
    if k == "ret":
        x = st[1]
        if x == ("name", "None"): return "GNone"
        if x[0] == "call" and x[1] == "Some" and len(x[2]) == 1: return "GSome %s" % em.e(x[2][0], env)
        return "GOpt %s" % em.e(x, env)
    if k == "if":
        a, b = em.time_atom(st[1], env_t), em.time_atom(st[2], env_t)
        return "if (%s <? %s) then %s\n%selse %s" % (a, b, emit_option_fn(st[3], em, env, env_t, ind + "  "), ind, emit_option_fn(st[4], em, env, env_t, ind))
    raise ParseError("unsupported statement %r in an Option-returning function" % (k,))


def emit_assign_fn(st, em, env, fields):
    """statement tree of a &mut self fn -> dict field -> expr"""
    k = st[0]
    if k == "let":
        env2 = dict(env); env2[st[1]] = em.e(st[2], env)
        return emit_assign_fn(st[3], em, env2, fields)
    if k == "assign":
        f2 = dict(fields); f2[st[1]] = em.e(st[2], env)
        return emit_assign_fn(st[3], em, env, f2)
    if k == "end":
        return fields
    raise ParseError("unsupported statement %r in a mutating function" % (k,))


def main(repo, outdir, units):
    """units: dict constant name -> (mm, s) from the constants translator"""
    out = []
    mp_src = open(os.path.join(repo, "src/motion_profile.rs")).read()
    atoms = {"self.t1": "(Lit (VT (mp_t1 self)))", "self.t2": "(Lit (VT (mp_t2 self)))", "self.t3": "(Lit (VT (mp_t3 self)))",
             "self.max_acc": "(Lit (VQ (mp_max_acc self)))", "self.start_vel": "(Lit (VQ (mp_start_vel self)))",
             "self.start_pos": "(Lit (VQ (mp_start_pos self)))", "self.end_command": "(Lit (VC (mp_end self)))",
             "time:self.t1": "mp_t1 self", "time:self.t2": "mp_t2 self", "time:self.t3": "mp_t3 self"}
    em = Emit(atoms, units)
    lines = {}
    for fn in ("get_acceleration", "get_velocity", "get_position"):
        body, line = fn_body(mp_src, fn, after="impl MotionProfile")
        st = P(tokenize(body)).stmts()
        term = emit_option_fn(st, em, {"t": "(Lit (VT t))"}, {"t": "t"})
        out.append("(* src/motion_profile.rs:%d *)\nDefinition gen_mp_%s (c : cfg) (self : @mp F) (t : Z) : @gres F :=\n  %s." % (line, fn, term))
        lines[fn] = line
    body, line = fn_body(mp_src, "new", after="impl MotionProfile")
    emn = Emit({"state:start_state": "(Lit (VS start_state))", "state:end_state": "(Lit (VS end_state))",
                "float:end_state.position": "(s_pos end_state)", "float:start_state.position": "(s_pos start_state)"}, units)
    env = {"start_state": "(Lit (VS start_state))", "end_state": "(Lit (VS end_state))", "max_vel": "(Lit (VQ max_vel))", "max_acc": "(Lit (VQ max_acc))"}
    # every `let` is evaluated once, in source order, and later referred to as a value (as the Rust does); asserts in between
    steps = []
    st = P(tokenize(body)).stmts()
    while st[0] in ("let", "assert_ge0"):
        if st[0] == "let":
            steps.append("glet (run c %s) (fun v_%s =>" % (emn.e(st[2], env), st[1]))
            env = dict(env); env[st[1]] = "(Lit v_%s)" % st[1]; st = st[3]
        else:
            steps.append("gassert_ge0 (run c %s) (" % emn.e(st[1], env)); st = st[2]
    if st[0] != "ret" or st[1][0] != "struct" or st[1][1] != "MotionProfile":
        raise ParseError("MotionProfile::new does not end in a MotionProfile { .. } literal")
    kinds = {"start_pos": "gq", "start_vel": "gq", "t1": "gt", "t2": "gt", "t3": "gt", "max_acc": "gq", "end_command": "gc"}
    order = []
    for fname, fe in st[1][2]:
        if fname not in kinds: raise ParseError("unknown MotionProfile field %s" % fname)
        t = emn.e(fe, env)
        if t.startswith("EXPECT"):
            if kinds[fname] != "gt": raise ParseError(".expect() on a field that is not a Time")
            steps.append("gt_expect (run c %s) (fun f_%s =>" % (t[len("EXPECT"):], fname))
        else:
            if kinds[fname] == "gt": raise ParseError("Time field %s is not built by Time::try_from(..).expect(..)" % fname)
            steps.append("%s (run c %s) (fun f_%s =>" % (kinds[fname], t, fname))
        order.append(fname)
    if sorted(order) != sorted(kinds):
        raise ParseError("MotionProfile literal has fields %s" % sorted(order))
    rec = "Some (Ok {| mp_start_pos := f_start_pos; mp_start_vel := f_start_vel; mp_t1 := f_t1; mp_t2 := f_t2; mp_t3 := f_t3; mp_max_acc := f_max_acc; mp_end := f_end_command |})"
    out.append("(* src/motion_profile.rs:%d *)\nDefinition gen_mp_new (c : cfg) (start_state end_state : @state F) (max_vel max_acc : @quantity F) : option (res (@mp F)) :=\n  %s\n  %s%s."
               % (line, "\n  ".join(steps), rec, ")" * len(steps)))
    lines["new"] = line
    st_src = open(os.path.join(repo, "src/state.rs")).read()
    body, line = fn_body(st_src, "update", after="impl State")
    em2 = Emit({"self": "(Lit (VS self))"}, units)
    fields = emit_assign_fn(P(tokenize(body)).stmts(), em2, {"delta_time": "(Lit (VT delta_time))"}, {})
    if set(fields) - {"position", "velocity", "acceleration"}:
        raise ParseError("State::update assigns unknown fields %s" % sorted(fields))
    none = "None"
    out.append("(* src/state.rs:%d *)\nDefinition gen_state_update (c : cfg) (self : @state F) (delta_time : Z) : option (@expr F) * option (@expr F) * option (@expr F) :=\n  (%s, %s, %s)."
               % (line, *[("Some %s" % fields[f]) if f in fields else none for f in ("position", "velocity", "acceleration")]))
    lib_src = open(os.path.join(repo, "src/lib.rs")).read()
    body, line = fn_body(lib_src, "evaluate", after="impl PIDKValues")
    em3 = Emit({"self.kp": "(Lit (VF (kp self)))", "self.ki": "(Lit (VF (ki self)))", "self.kd": "(Lit (VF (kd self)))"}, units)
    st = P(tokenize(body)).stmts()
    if st[0] != "ret": raise ParseError("PIDKValues::evaluate is not a single expression")
    out.append("(* src/lib.rs:%d *)\nDefinition gen_k_evaluate (c : cfg) (self : @kvals F) (error error_integral error_derivative : F) : @expr F :=\n  %s."
               % (line, em3.e(st[1], {"error": "(Lit (VF error))", "error_integral": "(Lit (VF error_integral))", "error_derivative": "(Lit (VF error_derivative))"})))
    os.makedirs(outdir, exist_ok=True)
    with open(os.path.join(outdir, "GenFormulas.v"), "w") as f:
        f.write("(* GENERATED from src/motion_profile.rs, src/state.rs, src/lib.rs by tools/gen_formulas.py *)\n"
                "From Coq Require Import ZArith List Bool.\nFrom RRTK Require Import Num.Num Model.Values Model.Prog Model.MotionProfile Model.FormulaExpr.\n"
                "Import ListNotations.\nLocal Open Scope Z_scope.\nSection Gen.\nContext {F : Type} {NF : Num F}.\n\n")
        f.write("\n\n".join(out))
        f.write("\nEnd Gen.\n")
    return lines


if __name__ == "__main__":
    import gen_constants
    items, _ = gen_constants.main(sys.argv[1], sys.argv[2])
    print(main(sys.argv[1], sys.argv[2], {it[0]: (int(it[1]), int(it[2])) for it in items}))
    print(open(os.path.join(sys.argv[2], "GenFormulas.v")).read())
