"""Generators for motion-profile cases (kind 6), shared by C06 and C07."""
import math
from common import *


def gen_profile(rng, kind=None):
    """returns (s0 bits triple, s1 bits triple, vmax bits, amax bits, class)"""
    kind = kind or rng.choices(["valid", "reversed", "zero", "rejected", "endvel", "endacc", "tight"], weights=[5, 2, 1, 1, 1.5, 0.7, 1])[0]
    vmax = 10 ** rng.uniform(-2, 3); amax = 10 ** rng.uniform(-2, 3)
    if rng.random() < 0.3:
        vmax = rng.choice([0.1, 0.2, 1.0, 2.0, 10.0, 0.5]); amax = rng.choice([0.01, 0.02, 0.1, 1.0, 5.0])
    sign = -1 if kind == "reversed" or (kind in ("endvel", "endacc", "tight") and rng.random() < 0.4) else 1
    def vel():
        r = rng.random()
        if r < 0.3: return 0.0
        if r < 0.4: return sign * vmax          # exactly at the limit
        return rng.uniform(-vmax, vmax)
    v0 = vel(); v1 = 0.0 if kind in ("valid", "reversed") and rng.random() < 0.6 else vel()
    vm, am = sign * vmax, sign * amax
    t1 = (vm - v0) / am; t3 = (v1 - vm) / (-am)
    d1 = (v0 + vm) / 2 * t1; d3 = (vm + v1) / 2 * t3
    need = d1 + d3
    p0 = rng.uniform(-1e4, 1e4) if rng.random() < 0.7 else 0.0
    if kind == "zero":
        p1 = p0
    elif kind == "rejected":
        p1 = p0 + need * rng.uniform(-0.5, 0.9) if rng.random() < 0.7 else p0 - sign * abs(need) - 1.0
        if rng.random() < 0.3:
            v0 = sign * vmax * rng.uniform(1.01, 2.0)      # start speed outside the limit
    elif kind == "tight":
        p1 = p0 + need * (1 + rng.choice([0.0, 1e-6, 1e-3, -1e-7]))
    else:
        extra = abs(need) * rng.uniform(0, 3) + 10 ** rng.uniform(-3, 3)
        p1 = p0 + need + sign * extra
    a1 = 0.0
    if kind == "endacc": a1 = rng.choice([0.0, rng.uniform(-amax, amax), 1e-8, -0.0])
    a0 = rng.choice([0.0, 0.0, rng.uniform(-amax, amax)])
    s0 = [f2b(p0), f2b(v0), f2b(a0)]; s1 = [f2b(p1), f2b(v1), f2b(a1)]
    return s0, s1, f2b(vmax if rng.random() < 0.9 else -vmax), f2b(amax if rng.random() < 0.9 else -amax), kind


def mp_case(cfg, s0, s1, vb, ab, ts, vunit=(1, -1), aunit=(1, -2)):
    return [6, cfg["chk"], cfg["std"]] + s0 + s1 + [vb] + list(vunit) + [ab] + list(aunit) + [len(ts)] + list(ts)


def query_times(rng, t1, t2, t3, n_random=8):
    ts = [-1, 0, 1, I64_MIN, I64_MIN + 1, I64_MAX, I64_MAX - 1, -10**9, -123456789]
    for t in (t1, t2, t3):
        ts += [t - 1, t, t + 1]
    for _ in range(n_random):
        ts.append(rng.randint(0, max(1, t3)))
        if t1 > 0: ts.append(rng.randint(0, t1))
        if t2 > t1: ts.append(rng.randint(t1, t2))
        if t3 > t2: ts.append(rng.randint(t2, t3))
    ts.append(t3 + rng.randint(0, 10**12))
    return [max(I64_MIN, min(I64_MAX, t)) for t in ts]


def parse_mp_output(out, ts):
    """-> None if panic else dict(t1,t2,t3,max_acc,end, per time: piece, mode, acc, vel, pos, hist)"""
    if not out or out[0] != 0: return None
    r = {"t1": out[1], "t2": out[2], "t3": out[3], "max_acc": tuple(out[4:7]), "end": tuple(out[7:9]), "q": []}
    pos = 9
    def oq():
        nonlocal pos
        if out[pos] == 99: pos += 1; return "PANIC"
        if out[pos] == 0: pos += 1; return None
        v = tuple(out[pos + 1:pos + 4]); pos += 4; return v
    for t in ts:
        piece = out[pos]; pos += 1
        if out[pos] == 0: mode = None; pos += 1
        else: mode = out[pos + 1]; pos += 2
        acc = oq(); vel = oq(); p = oq()
        if out[pos] == 99: h = "PANIC"; pos += 1
        elif out[pos] == 0: h = None; pos += 1
        else: h = (out[pos + 1], out[pos + 2], out[pos + 3]); pos += 4
        r["q"].append({"t": t, "piece": piece, "mode": mode, "acc": acc, "vel": vel, "pos": p, "hist": h})
    return r
