"""Shared generators for stateful-stream cases (kind 4)."""
import itertools
from common import *

STREAMS = {1: "PIDControllerStream", 2: "CommandPID", 3: "EWMAStream<f32>", 4: "EWMAStream<Quantity>", 5: "MovingAverageStream<f32>",
           6: "MovingAverageStream<Quantity>", 7: "IntegralStream", 8: "DerivativeStream", 9: "AccelerationToState",
           10: "VelocityToState", 11: "PositionToState", 12: "FloatToQuantity", 13: "QuantityToFloat", 14: "FreezeStream"}
# payload width of the input / output of each stream
IN_W = {1: 1, 3: 1, 4: 3, 5: 1, 6: 3, 7: 3, 8: 3, 9: 3, 10: 3, 11: 3, 12: 1, 13: 3, 14: 1}
OUT_W = {1: 1, 2: 1, 3: 1, 4: 3, 5: 1, 6: 3, 7: 3, 8: 3, 9: 3, 10: 3, 11: 3, 12: 3, 13: 1, 14: 1}
TOSTATE_UNIT = {9: (1, -2), 10: (1, -1), 11: (1, 0)}


def gen_times(rng, n, style="inc"):
    """n timestamps: strictly increasing with log-uniform intervals 1 us .. 10 h; 'nondec' allows repeats;
    'bad' allows decreasing; start anywhere incl. negative and large"""
    r = rng.random()
    if r < 0.5: t = rng.randint(0, 10**10)
    elif r < 0.7: t = rng.randint(-10**13, 10**13)
    elif r < 0.85: t = rng.randint(10**16, 10**18)
    else: t = 0
    out = []
    for _ in range(n):
        out.append(t)
        step = int(10 ** rng.uniform(3, 13.5))
        if rng.random() < 0.3: step = rng.choice([10**6, 10**7, 2 * 10**9, 10**9, 5 * 10**8, 20 * 10**6])
        if style == "nondec" and rng.random() < 0.25: step = 0
        if style == "bad" and rng.random() < 0.3: step = -rng.randint(0, 10**9)
        t += step
    return out


def events_from_word(rng, word, times, payload):
    """word over 'S','N','1','2' -> list of out encodings; present samples consume times in order"""
    evs = []
    it = iter(times)
    for ch in word:
        if ch == "S": evs.append(oSome(next(it), payload()))
        elif ch == "N": evs.append(oNone())
        else: evs.append(oErr(int(ch)))
    return evs


def strm_case(cfg, stream, params, evs):
    c = [4, cfg["chk"], cfg["std"], stream] + list(params) + [len(evs)]
    for e in evs:
        c += e
    return c


def split_outputs(stream, out):
    """split the output of a kind-4 case into per-event (upd, get, same) triples; stops at a panic marker"""
    w = OUT_W[stream]
    res, pos = [], 0
    while pos < len(out):
        if out[pos] == 99:
            res.append("PANIC"); break
        if out[pos] == 0:
            u = ("ok",); pos += 1
        else:
            u = ("err", out[pos + 1]); pos += 2
        g, pos = dec_out_py(out, pos, w)
        extra = None
        if stream == 2:
            if out[pos] == 0:
                extra = None; pos += 1
            else:
                extra = (out[pos + 1], out[pos + 2]); pos += 3
        same = out[pos]; pos += 1
        res.append((u, g, same, extra))
    return res


def random_word(rng, n, weights=(8, 1, 0.5, 0.5)):
    return "".join(rng.choices("SN12", weights=weights, k=n))


def all_words(maxlen, alphabet="SN12"):
    for n in range(1, maxlen + 1):
        for w in itertools.product(alphabet, repeat=n):
            yield "".join(w)


def moderate_bits(rng):
    return rand_f32_bits(rng, moderate=True, specials=0.04)


E9_BITS = f2b(1e9)
ONE_BITS = f2b(1.0)

def dt_bits(t2, t1):
    """bit pattern of f32::from(Quantity::from(Time(t2 - t1)))  = (i64 as f32) / 1e9, both correctly rounded"""
    d = t2 - t1
    if not (I64_MIN <= d <= I64_MAX):
        return None
    return f32_div_bits(f32_of_int_bits(d), E9_BITS)

def ewma_pow_pairs(sm_bits, evs):
    """(base, exponent) bit pairs the EWMA update can ask powf for on this history"""
    base = f32_sub_bits(ONE_BITS, sm_bits)
    if base is None:
        return []
    pairs = []
    prev = None
    for e in evs:
        if e[0] == 2:
            t = e[1]
            for p in (t, prev):
                if p is not None:
                    d = dt_bits(t, p)
                    if d is not None:
                        pairs.append((base, d))
            prev = t
        elif e[0] == 1:
            prev = None
    return pairs

def powtbl(tbl, pairs):
    ps = sorted(set(pairs))
    out = [len(ps)]
    for (b, e) in ps:
        out += [b, e, tbl[(b, e)]]
    return out
