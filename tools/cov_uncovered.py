#!/usr/bin/env python3
"""reads `llvm-cov show` output on stdin, prints the source lines with execution count 0, grouped by file"""
import re, sys
cur = None
for line in sys.stdin:
    m = re.match(r"^(/repo/src/[^:]+):$", line.strip())
    if m:
        cur = m.group(1); continue
    m = re.match(r"^\s*(\d+)\|\s*0\|(.*)$", line.rstrip("\n"))
    if m and cur:
        print("%s:%s:%s" % (cur, m.group(1), m.group(2)))
