"""Generators for world cases (kind 7): terminals, devices, wrappers."""
from common import *

NTERMS = {1: 2, 2: 2, 3: None, 4: 3, 5: 2, 6: 1, 7: 1, 8: 1}


def dev_spec(rng, kind, **kw):
    """returns (encoding, number of terminals)"""
    if kind == 1: return [1], 2
    if kind == 2:
        r = kw.get("ratio")
        if r is None:
            r = f2b(rng.choice([-1, 1]) * 10 ** rng.uniform(-2, 2)) if rng.random() < 0.8 else f2b(rng.choice([1.0, -1.0, 2.0, -2.0, 0.5, 3.0]))
        return [2, r], 2
    if kind == 3:
        n = kw.get("n", rng.randint(1, 6)); return [3, n], n
    if kind == 4:
        return [4, kw.get("distrust", rng.randrange(4))], 3
    if kind == 5:
        teeth = kw.get("teeth") or [f2b(float(rng.randint(8, 60))) for _ in range(rng.randint(2, 6))]
        return [5, len(teeth)] + teeth, 2
    if kind == 6: return [6], 1
    if kind == 7: return [7], 1
    if kind == 8:
        mb = lambda: rand_f32_bits(rng, specials=0.02)
        return [8, kw.get("t0", 0)] + [mb(), mb(), mb()] + [rng.randrange(3), mb()] + [mb() for _ in range(9)], 1
    raise ValueError(kind)


def world_case(cfg, nfree, devs, ops):
    c = [7, cfg["chk"], cfg["std"], nfree, len(devs)]
    for d in devs: c += d
    c += [len(ops)]
    for o in ops: c += o
    return c


def rstate(rng):
    return [rand_f32_bits(rng, specials=0.03) for _ in range(3)]


def parse_read(out, pos):
    """one read_term block -> dict, newpos"""
    def ods():
        nonlocal pos
        if out[pos] == 0: pos += 1; return None
        v = (out[pos + 1], tuple(out[pos + 2:pos + 5])); pos += 5; return v
    def odc():
        nonlocal pos
        if out[pos] == 0: pos += 1; return None
        v = (out[pos + 1], (out[pos + 2], out[pos + 3])); pos += 4; return v
    r = {"own_state": ods(), "own_cmd": odc(), "state": ods(), "cmd": odc()}
    if out[pos] == 0:
        r["data"] = None; pos += 1
    else:
        t = out[pos + 1]; pos += 2
        if out[pos] == 0: c = None; pos += 1
        else: c = (out[pos + 1], out[pos + 2]); pos += 3
        if out[pos] == 0: s = None; pos += 1
        else: s = tuple(out[pos + 1:pos + 4]); pos += 4
        r["data"] = (t, c, s)
    return r, pos


def parse_ops(case):
    """-> (nfree, devs(list of raw encodings), ops(list of lists), nterms)"""
    nfree, ndev = case[3], case[4]
    pos = 5; devs = []; nt = nfree
    for _ in range(ndev):
        k = case[pos]
        if k == 1: ln, n = 1, 2
        elif k == 2: ln, n = 2, 2
        elif k == 3: ln, n = 2, case[pos + 1]
        elif k == 4: ln, n = 2, 3
        elif k == 5: ln, n = 2 + case[pos + 1], 2
        elif k in (6, 7): ln, n = 1, 1
        elif k == 8: ln, n = 2 + 3 + 2 + 9, 1
        elif k == 9: ln, n = 4, 2
        elif k == 10: ln, n = 1, 3
        devs.append((case[pos:pos + ln], nt, n)); pos += ln; nt += n
    nops = case[pos]; pos += 1
    ops = []
    for _ in range(nops):
        o = case[pos]
        if o in (1,): ln = 3
        elif o in (2, 5, 6, 10): ln = 2
        elif o == 3: ln = 6
        elif o == 4: ln = 5
        elif o == 7: ln = 1
        elif o == 9: ln = 3
        elif o == 8:
            tag = case[pos + 4]
            ln = 4 + {0: 1, 1: 2, 2: 5}[tag]
        ops.append(case[pos:pos + ln]); pos += ln
    return nfree, devs, ops, nt


def parse_outputs(case, out):
    """per-op parsed outputs: None for unit ops, ('upd',..), ('read', dict), ('readall', [dict]), ('inner', ...), 'PANIC'"""
    nfree, devs, ops, nt = parse_ops(case)
    res = []; pos = 0
    for op in ops:
        o = op[0]
        if o == 7 and nt == 0:
            res.append(("readall", [])); continue
        if pos >= len(out): break
        if out[pos] == 99:
            res.append("PANIC"); break
        if o in (1, 2, 3, 4, 8, 9):
            res.append(None); pos += 1
        elif o == 5:
            if out[pos] == 0: res.append(("upd", "ok")); pos += 1
            else: res.append(("upd", "err", out[pos + 1])); pos += 2
        elif o == 6:
            r, pos = parse_read(out, pos); res.append(("read", r))
        elif o == 7:
            rs = []
            for _ in range(nt):
                r, pos = parse_read(out, pos); rs.append(r)
            res.append(("readall", rs))
        elif o == 10:
            kind = devs[op[1]][0][0]
            cnt = out[pos]; pos += 1
            if out[pos] == 0: last = None; pos += 1
            elif kind == 6:
                t = out[pos + 1]; pos += 2
                if out[pos] == 0: c = None; pos += 1
                else: c = (out[pos + 1], out[pos + 2]); pos += 3
                if out[pos] == 0: s = None; pos += 1
                else: s = tuple(out[pos + 1:pos + 4]); pos += 4
                last = (t, c, s)
            else:
                last = out[pos + 1]; pos += 2
            res.append(("inner", cnt, last))
    return ops, res, devs, nt
