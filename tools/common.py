"""Shared machinery of the rrtk checks: builds (Coq, extraction, OCaml driver, Rust harness),
running cases through model and implementation, comparison, proof-side checks, evidence."""
import fcntl, hashlib, json, os, random, re, struct, subprocess, sys, time
from fractions import Fraction

VERIF = os.path.dirname(os.path.dirname(os.path.abspath(__file__)))
REPO = os.environ.get("VERIF_REPO", "/repo")
BUILD = os.path.join(VERIF, "build")
COQ = os.path.join(VERIF, "coq")
NCPU = min(16, os.cpu_count() or 4)
ENV = dict(os.environ, CARGO_NET_OFFLINE="true")

TIER = os.environ.get("RRTK_VERIF_TIER", "quick")
AXIOM_ALLOW = {
    "ClassicalDedekindReals.sig_forall_dec",
    "ClassicalDedekindReals.sig_not_dec",
    "FunctionalExtensionality.functional_extensionality_dep",
    "Classical_Prop.classic",
}
FORBIDDEN = re.compile(
    r"\b(Admitted|admit|Axiom|Axioms|Parameter|Parameters|Conjecture|Conjectures|Admit Obligations|"
    r"Unset Guard Checking|Unset Positivity Checking|Unset Universe Checking|bypass_check|"
    r"type-in-type|impredicative-set)\b")


class Lock:
    def __init__(self, name):
        os.makedirs(BUILD, exist_ok=True)
        self.path = os.path.join(BUILD, name + ".lock")
    def __enter__(self):
        self.f = open(self.path, "w")
        fcntl.flock(self.f, fcntl.LOCK_EX)
        return self
    def __exit__(self, *a):
        fcntl.flock(self.f, fcntl.LOCK_UN)
        self.f.close()


def sh(cmd, cwd=None, timeout=1800, env=None, check=True, inp=None):
    p = subprocess.run(cmd, shell=isinstance(cmd, str), cwd=cwd, timeout=timeout, env=env or ENV,
                       input=inp, stdout=subprocess.PIPE, stderr=subprocess.STDOUT, text=True)
    if check and p.returncode != 0:
        raise RuntimeError("command failed (%s): %s\n%s" % (p.returncode, cmd, p.stdout[-4000:]))
    return p


# ----------------------------------------------------------------------------- Coq side
def coq_sources():
    out = []
    for top in ("theories", "gen_theorems"):
        for root, _, files in os.walk(os.path.join(COQ, top)):
            for f in files:
                if f.endswith(".v"):
                    out.append(os.path.join(root, f))
    return sorted(out)


def coq_make():
    """Full .vo build (no -vos). No-op when up to date."""
    with Lock("coq"):
        if not os.path.exists(os.path.join(COQ, "Makefile")):
            sh("coq_makefile -f _CoqProject -o Makefile", cwd=COQ)
        p = sh("timeout 3000 make -j%d" % NCPU, cwd=COQ, check=False, timeout=3100)
        return p.returncode == 0, p.stdout


def build_driver():
    """Extract the model and compile the OCaml driver when any model .vo is newer."""
    with Lock("driver"):
        drv = os.path.join(BUILD, "model_driver")
        ex = os.path.join(BUILD, "extracted")
        os.makedirs(ex, exist_ok=True)
        newest = 0
        for d in ("Num", "Model", "Extract"):
            for root, _, files in os.walk(os.path.join(COQ, "theories", d)):
                for f in files:
                    if f.endswith(".vo") or f.endswith(".v"):
                        newest = max(newest, os.path.getmtime(os.path.join(root, f)))
        newest = max(newest, os.path.getmtime(os.path.join(VERIF, "ocaml", "driver.ml")))
        if os.path.exists(drv) and os.path.getmtime(drv) >= newest:
            return drv
        sh("timeout 600 coqc -Q %s/theories RRTK %s/theories/Extract/Extract.v" % (COQ, COQ), cwd=ex)
        sh("cp %s/ocaml/driver.ml . && timeout 600 ocamlfind ocamlopt -w -a model.mli model.ml driver.ml -o %s.tmp && mv %s.tmp %s"
           % (VERIF, drv, drv, drv), cwd=ex)
        return drv


def parse_assumptions(out):
    """number of Print Assumptions outputs and the set of axiom names they list"""
    closed = len(re.findall(r"Closed under the global context", out))
    n_ax_blocks = len(re.findall(r"^Axioms:", out, re.M))
    used = set()
    for m in re.finditer(r"^([A-Za-z_][A-Za-z0-9_.']*)\s*:", out, re.M):
        if m.group(1) != "Axioms":
            used.add(m.group(1))
    return closed + n_ax_blocks, used


def proof_check(pid, gen_theorems=()):
    """Compile Properties/<pid>.v afresh, collect Print Assumptions, check the allow-list and grep
    the development for forbidden vernacular.  Returns a dict."""
    res = {"ok": True, "problems": [], "theorems": [], "axioms": set(), "obligations": 0, "discharged": 0}
    ok, log = coq_make()
    if not ok:
        res["ok"] = False
        m = re.findall(r'File "([^"]+)", line (\d+)[^\n]*\n(?:[^\n]*\n){0,6}?Error:[^\n]*(?:\n[^\n]*){0,3}', log)
        res["problems"].append("coq build failed: " + log[-1500:])
        res["broken_file"] = m[0][0] if m else None
    import glob
    props = sorted(glob.glob(os.path.join(COQ, "theories", "Properties", pid + "*.v")))
    for prop in props:
        src = open(prop).read()
        thms = re.findall(r"^\s*(?:Theorem|Lemma|Example|Corollary)\s+([A-Za-z0-9_']+)", src, re.M)
        res["theorems"] += thms
        res["obligations"] += len(thms)
        if not ok:
            continue
        with Lock("coq"):
            p = sh("timeout 1200 coqc -Q theories RRTK -w -all theories/Properties/%s" % os.path.basename(prop), cwd=COQ, check=False, timeout=1300)
        out = p.stdout
        if p.returncode != 0:
            res["ok"] = False
            res["problems"].append("Properties/%s does not compile: %s" % (os.path.basename(prop), out[-1500:]))
        else:
            n_out, used = parse_assumptions(out)
            res["axioms"] |= used
            bad = sorted(a for a in used if a not in AXIOM_ALLOW)
            if bad:
                res["ok"] = False
                res["problems"].append("axioms outside the allow-list: " + ", ".join(bad))
            else:
                res["discharged"] += min(len(thms), n_out)
            if n_out < len(thms):
                res["problems"].append("fewer Print Assumptions outputs (%d) than statements (%d) in %s" % (n_out, len(thms), os.path.basename(prop)))
                res["ok"] = False
    for g in gen_theorems:
        gsrc = open(os.path.join(COQ, "gen_theorems", g + ".v")).read()
        gthms = re.findall(r"^\s*(?:Theorem|Lemma|Example|Corollary)\s+([A-Za-z0-9_']+)", gsrc, re.M)
        res["theorems"] += gthms
        res["obligations"] += len(gthms)
        gok, gout = compile_gen_theorems(g)
        if not gok:
            res["ok"] = False
            res["problems"].append("gen_theorems/%s.v does not check against the regenerated tables: %s" % (g, gout[-1200:]))
            res.setdefault("broken_gen", []).append(g)
        else:
            n_out, used = parse_assumptions(gout)
            res["axioms"] |= used
            bad = sorted(a for a in used if a not in AXIOM_ALLOW)
            if bad:
                res["ok"] = False
                res["problems"].append("axioms outside the allow-list: " + ", ".join(bad))
            else:
                res["discharged"] += min(len(gthms), n_out)
    # thorough tier: re-check the compiled property files and everything they depend on with the independent checker
    if ok and TIER != "quick":
        for prop in props:
            mod = "RRTK.Properties." + os.path.basename(prop)[:-2]
            p = sh("timeout 2400 coqchk -o -silent -Q theories RRTK %s" % mod, cwd=COQ, check=False, timeout=2500)
            out = p.stdout
            m = re.search(r"\* Axioms:(.*?)\n\s*\n\* Constants/Inductives relying on type-in-type:(.*?)\n\s*\n\* Constants/Inductives relying on unsafe \(co\)fixpoints:(.*?)\n\s*\n\* Inductives whose positivity is assumed:(.*?)\n", out + "\n", re.S)
            if p.returncode != 0 or not m:
                res["ok"] = False
                res["problems"].append("coqchk failed on %s: %s" % (mod, out[-800:]))
                continue
            axs = [a.strip() for a in m.group(1).split("\n") if a.strip() and a.strip() != "<none>"]
            bad = [a for a in axs if not any(a.endswith(x.split(".")[-1]) for x in AXIOM_ALLOW)]
            for label, g in (("type-in-type", m.group(2)), ("unsafe fixpoints", m.group(3)), ("assumed positivity", m.group(4))):
                if g.strip() != "<none>":
                    res["ok"] = False
                    res["problems"].append("coqchk: %s relies on %s: %s" % (mod, label, g.strip()[:200]))
            if bad:
                res["ok"] = False
                res["problems"].append("coqchk: axioms outside the allow-list in the closure of %s: %s" % (mod, ", ".join(bad)))
            res.setdefault("coqchk", []).append({"module": mod, "axioms": axs})
    # forbidden vernacular anywhere in the development (comments stripped)
    for f in coq_sources():
        txt = strip_coq_comments(open(f).read())
        for m in FORBIDDEN.finditer(txt):
            res["ok"] = False
            res["problems"].append("forbidden vernacular %r in %s" % (m.group(0), os.path.relpath(f, VERIF)))
        # Variable / Hypothesis outside a section
        depth = 0
        for line in txt.splitlines():
            s = line.strip()
            if re.match(r"^(Section|Module Type|Module)\b", s) and not s.startswith("Module Import") and not s.startswith("Module Export"):
                if s.startswith("Section"):
                    depth += 1
            if re.match(r"^End\b", s) and depth > 0:
                depth -= 1
            if depth == 0 and re.match(r"^(Variable|Variables|Hypothesis|Hypotheses|Context)\b", s):
                res["ok"] = False
                res["problems"].append("Variable/Hypothesis outside a section in %s: %s" % (os.path.relpath(f, VERIF), s[:60]))
    res["axioms"] = sorted(res["axioms"])
    return res


def proof_check_streams(pid, name, extra=()):
    """proof_check plus the theorems over the stream bodies translated from the source (tools/gen_streams.py -> GenStreams.v ->
    coq/gen_theorems/<name>.v); a body the translator cannot read is a broken obligation, never skipped."""
    gens = gen_sources()
    proof = proof_check(pid, gen_theorems=tuple(extra) + (name,))
    if gens.get("streams_error"):
        proof["ok"] = False
        proof["problems"].append("translator tools/gen_streams.py cannot read the current source: " + gens["streams_error"])
    if gens.get("wiring_error") and (name == "C20Wiring" or "C20Wiring" in extra):
        proof["ok"] = False
        proof["problems"].append("translator tools/gen_wiring.py cannot read PIDWrapper::new in the current source: " + gens["wiring_error"])
    if gens.get("ref_error") and (name == "C09Connect" or "C09Connect" in extra):
        proof["ok"] = False
        proof["problems"].append("translator tools/gen_ref.py cannot read Terminal::disconnect / connect in the current source: " + gens["ref_error"])
    proof["translated_functions"] = [("%s::%s" % (k, f)) for (k, f, n, ins, ps) in (gens.get("streams") or [])]
    return proof


def add_ops_table(proof, gens):
    """the theorems of coq/gen_theorems/OpsTable.v (value-layer impl bodies translated by tools/gen_ops.py = operator table)"""
    if gens.get("ops_error"):
        proof["ok"] = False
        proof["problems"].append("translator tools/gen_ops.py cannot read the current source: " + gens["ops_error"])
    proof["translated_impls"] = len(gens.get("ops") or [])
    return proof


def strip_coq_comments(s):
    out, depth, i = [], 0, 0
    while i < len(s):
        if s.startswith("(*", i):
            depth += 1; i += 2
        elif s.startswith("*)", i) and depth > 0:
            depth -= 1; i += 2
        else:
            if depth == 0:
                out.append(s[i])
            i += 1
    return "".join(out)


# ----------------------------------------------------------------------------- Rust side
CONFIGS = {
    # name: (cargo features, release?, hook?)
    "default": ("std,dim_check_debug", False, True),
    "devices": ("std,dim_check_debug,devices", False, True),
    "std_chk_rel": ("std,dim_check_release,devices", True, False),
    "std_nochk_rel": ("std,devices", True, False),
    "libm_chk_rel": ("alloc,libm,dim_check_release,devices", True, False),
    "libm_nochk_rel": ("alloc,libm,devices", True, False),
    "micromath_chk_rel": ("alloc,micromath,dim_check_release,devices", True, False),
    "micromath_nochk_rel": ("alloc,micromath,devices", True, False),
    "nohook": ("std,dim_check_debug,devices", False, False),
}


def repo_tag():
    return "" if REPO == "/repo" else "_" + hashlib.sha1(REPO.encode()).hexdigest()[:8]


def gen_dir():
    return os.path.join(BUILD, "gen" + repo_tag())


def _rm_gen(base):
    for ext in (".v", ".vo", ".vok", ".vos", ".glob"):
        try: os.remove(os.path.join(gen_dir(), base + ext))
        except OSError: pass
    try: os.remove(os.path.join(gen_dir(), ".compiled"))
    except OSError: pass


class _Watchdog:
    """a translator that does not come back within the limit is a translator that cannot read the source (ParseError), not a hang"""
    def __init__(self, seconds): self.seconds = seconds
    def __enter__(self):
        import signal, threading, rustmini
        self.active = threading.current_thread() is threading.main_thread()
        if self.active:
            def boom(signum, frame): raise rustmini.ParseError("translator did not finish within %d s" % self.seconds)
            self.old = signal.signal(signal.SIGALRM, boom); signal.alarm(self.seconds)
    def __exit__(self, *a):
        import signal
        if self.active:
            signal.alarm(0); signal.signal(signal.SIGALRM, self.old)
        return False


def gen_sources():
    """Translators for tabular source, regenerated from the repository on every run."""
    import gen_constants, gen_accessors, gen_formulas, gen_streams, gen_ops, rustmini
    with Lock("gen" + repo_tag()), _Watchdog(300):
        items, n_all = gen_constants.main(REPO, gen_dir())
        accs, ctors = gen_accessors.main(REPO, gen_dir())
        try:
            flines = gen_formulas.main(REPO, gen_dir(), {it[0]: (int(it[1]), int(it[2])) for it in items})
            ferr = None
        except gen_formulas.ParseError as ex:
            # leave no stale table behind: the theorems over it must fail, not pass on old text
            try: os.remove(os.path.join(gen_dir(), "GenFormulas.v"))
            except OSError: pass
            flines, ferr = None, str(ex)
        try:
            sinfo = gen_streams.main(REPO, gen_dir(), {it[0]: (int(it[1]), int(it[2])) for it in items})
            serr = None
        except (rustmini.ParseError, KeyError, IndexError) as ex:
            # the theorems over the translated stream bodies must fail, not pass on a stale translation
            try: os.remove(os.path.join(gen_dir(), "GenStreams.v"))
            except OSError: pass
            sinfo, serr = None, "%s: %s" % (type(ex).__name__, ex)
        try:
            oinfo = [t["what"] for t in gen_ops.main(REPO, gen_dir(), {it[0]: (int(it[1]), int(it[2])) for it in items})]
            oerr = None
        except (rustmini.ParseError, KeyError, IndexError) as ex:
            try: os.remove(os.path.join(gen_dir(), "GenOps.v"))
            except OSError: pass
            oinfo, oerr = None, "%s: %s" % (type(ex).__name__, ex)
        try:
            import gen_ref
            rinfo, rerr = gen_ref.main(REPO, gen_dir()), None
        except (rustmini.ParseError, KeyError, IndexError) as ex:
            rinfo, rerr = None, "%s: %s" % (type(ex).__name__, ex)
            _rm_gen("GenRef")
        try:
            import gen_wiring
            winfo, werr = gen_wiring.main(REPO, gen_dir()), None
        except Exception as ex:
            winfo, werr = None, "%s: %s" % (type(ex).__name__, ex)
            _rm_gen("GenWiring")
        # a table that could not be regenerated leaves nothing behind, neither source nor compiled file
        if ferr: _rm_gen("GenFormulas")
        if serr: _rm_gen("GenStreams")
        if oerr: _rm_gen("GenOps")
    return {"constants": items, "n_pub_const": n_all, "accessors": accs, "ctors": ctors, "formulas": flines, "formulas_error": ferr,
            "streams": sinfo, "streams_error": serr, "ops": oinfo, "ops_error": oerr, "ref": rinfo, "ref_error": rerr, "wiring": winfo, "wiring_error": werr}


def compile_gen_theorems(name, extra_gen=()):
    """Compile build/gen/*.v and coq/gen_theorems/<name>.v against them; returns (ok, output).
    The result is a pure function of the generated tables, the theorem file and the compiled development, so it is cached under
    a hash of exactly those inputs (the translators themselves run on every check).  The generated tables are compiled under
    the lock (once per content, stamp file); the theorem files themselves can be compiled in parallel."""
    g = gen_dir()
    with Lock("gen" + repo_tag()):
        h = hashlib.sha1()
        for f in sorted(os.listdir(g)):
            if f.endswith(".v"):
                h.update(f.encode()); h.update(open(os.path.join(g, f), "rb").read())
        for root, _, files in os.walk(os.path.join(COQ, "theories")):
            for f in sorted(files):
                if f.endswith(".v") and ("Model" in root or "Num" in root or "Proofs" in root):
                    h.update(open(os.path.join(root, f), "rb").read())
        base = h.hexdigest()
        h.update(open(os.path.join(COQ, "gen_theorems", name + ".v"), "rb").read())
        cdir = os.path.join(BUILD, "gen_cache"); os.makedirs(cdir, exist_ok=True)
        cfile = os.path.join(cdir, "%s_%s.out" % (name, h.hexdigest()[:20]))
        if os.path.exists(cfile):
            return True, open(cfile).read()
        stamp = os.path.join(g, ".compiled")
        if not (os.path.exists(stamp) and open(stamp).read() == base):
            for f in sorted(os.listdir(g)):
                if f.endswith(".v"):
                    p = sh("timeout 600 coqc -Q %s/theories RRTK -Q . Gen %s" % (COQ, f), cwd=g, check=False)
                    if p.returncode != 0:
                        return False, p.stdout
            open(stamp, "w").write(base)
    p = sh("timeout 900 coqc -Q theories RRTK -Q %s Gen -w -all gen_theorems/%s.v" % (g, name), cwd=COQ, check=False, timeout=1000)
    if p.returncode == 0:
        tmp = cfile + ".%d" % os.getpid()
        open(tmp, "w").write(p.stdout); os.replace(tmp, cfile)
    return p.returncode == 0, p.stdout


def build_harness(config="default"):
    feats, release, hook = CONFIGS[config]
    if not os.path.exists(os.path.join(gen_dir(), "gen_consts.rs")):
        gen_sources()
    d = os.path.join(BUILD, "h", config + repo_tag())
    with Lock("h_" + config + repo_tag()):
        os.makedirs(d, exist_ok=True)
        tmpl = open(os.path.join(VERIF, "harness", "Cargo.toml.in")).read()
        toml = tmpl.replace("@REPO@", REPO).replace("@SRC@", os.path.join(VERIF, "harness", "src"))
        tp = os.path.join(d, "Cargo.toml")
        if not os.path.exists(tp) or open(tp).read() != toml:
            open(tp, "w").write(toml)
        lock = os.path.join(REPO, "Cargo.lock")
        if os.path.exists(lock) and not os.path.exists(os.path.join(d, "Cargo.lock")):
            sh(["cp", lock, os.path.join(d, "Cargo.lock")])
        env = dict(ENV)
        env["RUSTFLAGS"] = "--cfg rrtk_verif" if hook else ""
        env["RRTK_VERIF_GEN"] = gen_dir()
        env["RRTK_VERIF_REPO"] = REPO
        cmd = "timeout 1500 cargo build --offline --no-default-features --features %s %s" % (feats, "--release" if release else "")
        p = sh(cmd, cwd=d, env=env, check=False, timeout=1600)
        if p.returncode != 0:
            raise RuntimeError("harness build failed for config %s:\n%s" % (config, p.stdout[-3000:]))
        exe = os.path.join(d, "target", "release" if release else "debug", "rrtk_harness")
        return exe


def harness_config(exe):
    out = sh([exe, "--config"]).stdout.strip()
    return dict((k, int(v)) for k, v in (kv.split("=") for kv in out.split()))


def run_sharded(exe, cases, timeout=3000, extra_env=None):
    """cases: list of list[int].  Returns list of list[int] (same order)."""
    if not cases:
        return []
    save = os.environ.get("RRTK_VERIF_SAVE_CASES")
    if save and "model_driver" not in exe:
        # bin/coverage: keep every case sent to a harness build, to replay it on an instrumented build
        os.makedirs(save, exist_ok=True)
        with open(os.path.join(save, "%d_%d.txt" % (os.getpid(), len(os.listdir(save)))), "w") as f:
            f.write("# %s\n" % exe)
            f.write("\n".join(" ".join(map(str, c)) for c in cases) + "\n")
    n = max(1, min(NCPU, len(cases) // 200 + 1))
    shards = [cases[i::n] for i in range(n)]
    procs = []
    env = dict(ENV)
    if extra_env:
        env.update(extra_env)
    for sh_cases in shards:
        data = "\n".join(" ".join(map(str, c)) for c in sh_cases) + "\n"
        p = subprocess.Popen([exe], stdin=subprocess.PIPE, stdout=subprocess.PIPE, stderr=subprocess.PIPE, text=True, env=env)
        procs.append((p, data, len(sh_cases)))
    outs = []
    import threading
    results = [None] * len(procs)
    def work(i):
        p, data, k = procs[i]
        try:
            o, e = p.communicate(data, timeout=timeout)
        except subprocess.TimeoutExpired:
            p.kill(); o, e = p.communicate()
        results[i] = (o, e, p.returncode)
    ths = [threading.Thread(target=work, args=(i,)) for i in range(len(procs))]
    for t in ths: t.start()
    for t in ths: t.join()
    res = [None] * len(cases)
    for si, (o, e, rc) in enumerate(results):
        lines = o.split("\n")
        if lines and lines[-1] == "":
            lines.pop()
        k = procs[si][2]
        for j in range(k):
            idx = si + j * n
            if j < len(lines):
                try:
                    res[idx] = [int(x) for x in lines[j].split()]
                except ValueError:
                    res[idx] = ["garbled", lines[j][:80]]
            else:
                # process died (abort / segfault / timeout) on or before this case
                res[idx] = ["crash", rc, (e or "")[-200:]]
    return res


# ----------------------------------------------------------------------------- value encoding helpers
def f2b(x):
    """python float -> binary32 bit pattern (round to nearest even)"""
    return struct.unpack("<I", struct.pack("<f", x))[0]

def b2f(b):
    return struct.unpack("<f", struct.pack("<I", b & 0xFFFFFFFF))[0]

def b2frac(b):
    """exact rational value of a finite binary32 bit pattern"""
    s = -1 if (b >> 31) & 1 else 1
    e = (b >> 23) & 0xFF
    m = b & 0x7FFFFF
    if e == 255:
        return None
    if e == 0:
        return s * Fraction(m, 1 << 149)
    return s * Fraction(m + (1 << 23)) * (Fraction(2) ** (e - 150))

def is_nan_bits(b):
    return ((b >> 23) & 0xFF) == 255 and (b & 0x7FFFFF) != 0

def is_finite_bits(b):
    return ((b >> 23) & 0xFF) != 255

SPECIAL_BITS = [0x00000000, 0x80000000, 0x00000001, 0x80000001, 0x007FFFFF, 0x00800000, 0x7F7FFFFF, 0xFF7FFFFF,
                0x3F800000, 0xBF800000, 0x3F000000, 0x40000000, 0x33800000, 0x4B800000, 0x5F000000, 0xDF000000]
NONFINITE_BITS = [0x7F800000, 0xFF800000, 0x7FC00000]

def rand_f32_bits(rng, moderate=True, specials=0.08, nonfinite=0.0):
    r = rng.random()
    if r < nonfinite:
        return rng.choice(NONFINITE_BITS)
    if r < nonfinite + specials:
        return rng.choice(SPECIAL_BITS)
    if moderate:
        # magnitude strata 1e-3 .. 1e4, random sign
        mag = 10 ** rng.uniform(-3, 4)
        if rng.random() < 0.3:
            mag = round(mag, rng.randint(0, 2))  # "nice" values
        return f2b(mag if rng.random() < 0.5 else -mag)
    # any finite bit pattern by exponent stratum
    e = rng.randint(0, 254)
    return (rng.getrandbits(1) << 31) | (e << 23) | rng.getrandbits(23)

I64_MIN, I64_MAX = -(1 << 63), (1 << 63) - 1

# val encodings (Wire.v)
def vF(b): return [1, b]
def vQ(b, m, s): return [2, b, m, s]
def vT(t): return [3, t]
def vD(d): return [4, d]
def vU(m, s): return [5, m, s]
def vI(i): return [6, i]
def vB(b): return [7, 1 if b else 0]
def vS(p, v, a): return [8, p, v, a]
def vC(k, b): return [9, k, b]
def vPD(k): return [10, k]
def vPiece(k): return [11, k]
def vNone(): return [12]
def vSome(v): return [17] + v
def vDat(t, v): return [13, t] + v
def Lit(v): return [0] + v
def Op(o, *args):
    r = [100, o, len(args)]
    for a in args:
        r += a
    return r
def prog_case(cfg, e):
    return [1, cfg["chk"], cfg["std"]] + e

def dec_val(l, pos=0):
    """decode a wire value into a python structure, returns (obj, newpos)"""
    t = l[pos]
    if t == 1: return ("F", l[pos+1]), pos+2
    if t == 2: return ("Q", l[pos+1], (l[pos+2], l[pos+3])), pos+4
    if t == 3: return ("T", l[pos+1]), pos+2
    if t == 4: return ("D", l[pos+1]), pos+2
    if t == 5: return ("U", (l[pos+1], l[pos+2])), pos+3
    if t == 6: return ("I", l[pos+1]), pos+2
    if t == 7: return ("B", l[pos+1]), pos+2
    if t == 8: return ("S", l[pos+1], l[pos+2], l[pos+3]), pos+4
    if t == 9: return ("C", l[pos+1], l[pos+2]), pos+3
    if t == 10: return ("PD", l[pos+1]), pos+2
    if t == 11: return ("Piece", l[pos+1]), pos+2
    if t == 12: return ("None",), pos+1
    if t == 17:
        v, p = dec_val(l, pos+1); return ("Some", v), p
    if t == 13:
        v, p = dec_val(l, pos+2); return ("Dat", l[pos+1], v), p
    if t == 14: return ("Ord", l[pos+1]), pos+2
    if t == 15: return ("Unit",), pos+1
    if t == 16:
        a, p = dec_val(l, pos+1); b, p = dec_val(l, p); return ("Pair", a, b), p
    if t == 99: return ("PANIC",), pos+1
    if t == 98: return ("TYPE",), pos+1
    return ("?", t), pos+1


# ----------------------------------------------------------------------------- known findings
def known_findings(pid):
    p = os.path.join(VERIF, "known_findings.json")
    if not os.path.exists(p):
        return []
    return [k for k in json.load(open(p)) if k["property"] == pid and k["status"] == "known"]


# ----------------------------------------------------------------------------- the check driver
class Check:
    """One property check run.  A property module provides:
         PID, CONFIG(S), gen(rng, tier, cfg) -> iterable of (case:list[int], tag:str)
         optional okb(case, impl_out, model_out) -> (bool, why)   property oracle on the implementation's output
         optional nontrivial(case, model_out) -> bool
         optional extra(check) -> None   additional property-specific steps
    """
    def __init__(self, pid, tier, seed):
        self.pid, self.tier, self.seed = pid, tier, seed
        self.t0 = time.monotonic()
        self.violations = []      # list of dict
        self.known_hits = []
        self.cov = {"evaluations": 0, "distinct_nontrivial": 0, "traces_validated_against_impl": 0,
                    "samples": [], "distribution": {}, "exhaustive": False}
        self.notes = []
        self.assumptions = []
        self._distinct = set()

    def replay_path(self, suffix=""):
        d = os.path.join(VERIF, "replays")
        os.makedirs(d, exist_ok=True)
        return os.path.join(d, "%s_%s%s.json" % (self.pid, self.seed, suffix))

    def violation(self, what, replay_obj, failing_input_found=True, key=None):
        # known findings are matched by key
        for k in known_findings(self.pid):
            if key is not None and k["key"] == key:
                if key not in [h["key"] for h in self.known_hits]:
                    self.known_hits.append({"key": key, "what": k["what"]})
                return
        path = self.replay_path("_%d" % len(self.violations))
        replay_obj = dict(replay_obj, property=self.pid, what=what, failing_input_found=failing_input_found)
        json.dump(replay_obj, open(path, "w"), indent=1, default=str)
        self.violations.append({"what": what, "replay": path, "found": failing_input_found})

    def count(self, key, n=1):
        self.cov["distribution"][key] = self.cov["distribution"].get(key, 0) + n

    def finish(self, proof, rule, checker_cmd, trusted):
        wall = time.monotonic() - self.t0
        self.cov.update({
            "obligations": proof["obligations"], "discharged": proof["discharged"],
            "checker_cmd": checker_cmd,
            "trusted_base": trusted + ["axioms reported by Print Assumptions: " + (", ".join(proof["axioms"]) or "none")],
            "rule": rule, "theorems": proof["theorems"], "notes": self.notes, "coqchk": proof.get("coqchk", "thorough tier only"),
        })
        ev = {"property_id": self.pid, "tier": self.tier, "seed": self.seed, "level": "proof",
              "coverage": self.cov, "assumptions": self.assumptions, "wall_s": round(wall, 2),
              "violations": len(self.violations), "known_findings_hit": self.known_hits}
        os.makedirs(os.path.join(VERIF, "evidence"), exist_ok=True)
        json.dump(ev, open(os.path.join(VERIF, "evidence", self.pid + ".json"), "w"), indent=1, default=str)
        for h in self.known_hits:
            print("KNOWN-FINDING: property=%s %s" % (self.pid, h["what"]))
        if self.violations:
            self.violations.sort(key=lambda v: not v["found"])
            for v in self.violations[:1]:
                print("VIOLATION property=%s replay=%s%s" % (self.pid, v["replay"], "" if v["found"] else " no-failing-input-found"))
            for v in self.violations[:5]:
                print("  " + v["what"][:300])
            return 1
        print("OK property=%s tier=%s seed=%d evaluations=%d distinct_nontrivial=%d obligations=%d/%d wall=%.1fs"
              % (self.pid, self.tier, self.seed, self.cov["evaluations"], self.cov["distinct_nontrivial"],
                 proof["discharged"], proof["obligations"], wall))
        return 0


HARNESS_MARKERS = {
    96: "update() of a stream / getter whose update must do nothing returned an error",
    95: "get() after update() differs from get() before it on a stateless stream / getter",
    94: "two ways of reading the same object disagree (TryFrom<TerminalData> for Datum<..>, or a Reference read through borrow / borrow_mut / its unsafe inner handle)",
}


def release_agreement(chk, cases, tags, impl, describe=None):
    """The same cases on an optimised build without debug assertions (std, dimension checking on in release, devices; no hook):
    wherever the debug build neither panics nor crashes, the release build must print the same integers.  The model follows the
    debug build (i64 overflow = panic), so inputs on which the debug build panics are outside this comparison."""
    global _REL_EXE
    try:
        _REL_EXE
    except NameError:
        _REL_EXE = build_harness("std_chk_rel")
    idx = [i for i, o in enumerate(impl) if o and isinstance(o[0], int) and W_PANIC_CODE not in o[:1] and 99 not in o]
    if not idx:
        return
    rel = run_sharded(_REL_EXE, [cases[i] for i in idx])
    n = 0
    for i, ro in zip(idx, rel):
        n += 1
        if ro != impl[i]:
            chk.violation("the release build (no debug assertions) behaves differently from the debug build on an input where the debug build does not panic [%s]" % tags[i],
                          {"case": cases[i], "tag": tags[i], "impl_debug": impl[i], "impl_release": ro, "release_config": CONFIGS["std_chk_rel"][0] + " --release",
                           "describe": describe(cases[i], ro) if describe else None}, True)
            break
    chk.cov["release_build_cases_compared"] = chk.cov.get("release_build_cases_compared", 0) + n


W_PANIC_CODE = 99


def correspondence(chk, cases, tags, exe, drv, okb=None, nontrivial=None, describe=None, max_report=5, pow_env=None, rel=True):
    """Run cases through harness and model; record disagreements as violations.
    okb(case, impl_out, model_out) -> (ok, why) decides whether the *property* fails on the implementation."""
    impl = run_sharded(exe, cases)
    model = run_sharded(drv, cases, extra_env=pow_env)
    in_coq_sample(chk, cases, model)
    if rel and cases and cases[0][1:3] == [1, 1] or (rel and cases and cases[0][0] in (8, 9, 10)):
        release_agreement(chk, cases, tags, impl, describe)
    n_bad = 0
    first_nofail = None
    for i, c in enumerate(cases):
        chk.cov["evaluations"] += 1
        chk.count(tags[i])
        mo, io = model[i], impl[i]
        h = hash(tuple(mo))
        nt = nontrivial(c, mo) if nontrivial else (mo not in ([99], [98], [97], [12]))
        if nt and (tags[i], h) not in chk._distinct:
            chk._distinct.add((tags[i], h))
            chk.cov["distinct_nontrivial"] += 1
        prop_ok, why = (True, "")
        if io != mo:
            # deviation markers emitted by the harness itself (never by the model): a side check inside the harness failed
            k = next((j for j in range(min(len(io), len(mo))) if io[j] != mo[j]), min(len(io), len(mo)))
            if k < len(io) and isinstance(io[k], int) and io[k] in HARNESS_MARKERS:
                prop_ok, why = False, HARNESS_MARKERS[io[k]]
        if okb and prop_ok:
            try:
                prop_ok, why = okb(c, io, mo)
            except Exception as ex:  # malformed implementation output
                prop_ok, why = False, "oracle could not read implementation output: %r" % (ex,)
        if io == mo and prop_ok:
            chk.cov["traces_validated_against_impl"] += 1
            if len(chk.cov["samples"]) < 6 and nt and i % max(1, len(cases) // 6) == 0:
                chk.cov["samples"].append({"tag": tags[i], "case": c if len(c) < 80 else c[:80] + ["..."], "result": mo if len(mo) < 40 else mo[:40] + ["..."],
                                           "describe": describe(c, mo) if describe else None})
            continue
        n_bad += 1
        if not prop_ok:
            if n_bad <= max_report or True:
                key = why if why.startswith("known:") else None
                chk.violation("property fails on the implementation: %s [%s]" % (why, tags[i]),
                              {"case": c, "tag": tags[i], "impl": io, "model": mo,
                               "describe": describe(c, io) if describe else None,
                               "replay_cmd": "echo '%s' | <harness>" % " ".join(map(str, c))}, True, key=key)
        else:
            if first_nofail is None:
                first_nofail = (c, tags[i], io, mo)
    if first_nofail is not None and not any(v["found"] for v in chk.violations):
        c, tag, io, mo = first_nofail
        chk.violation("correspondence model<->implementation broken on %d case(s); the property oracle found no failing input [%s]" % (n_bad, tag),
                      {"correspondence": "run_case (coq/theories/Model/Case.v) vs harness", "case": c, "tag": tag, "impl": io, "model": mo,
                       "describe": describe(c, io) if describe else None}, False)
    elif first_nofail is not None:
        chk.notes.append("correspondence also differs on cases where the property oracle is satisfied (first: %s)" % (first_nofail[1],))
    return impl, model


INCOQ_HDR = """From Coq Require Import ZArith List Bool. Import ListNotations.
From RRTK Require Import Model.Case.
Open Scope Z_scope.
Fixpoint leqb (a b : list Z) : bool := match a, b with [], [] => true | x :: a', y :: b' => Z.eqb x y && leqb a' b' | _, _ => false end.
Fixpoint mism (i : Z) (cs es : list (list Z)) : list Z :=
  match cs, es with c :: cs', e :: es' => if leqb (run_case c) e then mism (i + 1) cs' es' else i :: mism (i + 1) cs' es' | _, _ => [] end.
"""


def in_coq_sample(chk, cases, model):
    """cases.v: evaluate a sample of the batch with vm_compute inside Coq (no extraction, no OCaml driver) and compare
    with what the extracted program printed.  Keeps extraction and the driver honest."""
    want = 60 if chk.tier == "quick" else 400
    idx = [i for i in range(len(cases)) if model[i] and isinstance(model[i][0], int) and len(cases[i]) < 1500]
    if not idx:
        return
    step = max(1, len(idx) // want)
    idx = idx[::step][:want]
    L = lambda l: "[" + "; ".join("(%d)" % x for x in l) + "]"
    d = os.path.join(BUILD, "incoq", "%s_%s_%d" % (chk.pid, chk.tier, os.getpid()))
    os.makedirs(d, exist_ok=True)
    open(os.path.join(d, "cases.v"), "w").write(INCOQ_HDR + "Definition cs : list (list Z) := [%s].\nDefinition es : list (list Z) := [%s].\nEval vm_compute in mism 0 cs es.\n"
        % (";\n ".join(L(cases[i]) for i in idx), ";\n ".join(L(model[i]) for i in idx)))
    p = sh("timeout 900 coqc -noglob -Q %s/theories RRTK cases.v" % COQ, cwd=d, check=False, timeout=1000)
    m = re.search(r"=\s*\[([^\]]*)\]\s*:\s*list Z", p.stdout)
    if p.returncode != 0 or not m:
        chk.violation("in-Coq evaluation (cases.v, vm_compute) of the sampled cases failed: " + p.stdout[-600:],
                      {"correspondence": "Coq vm_compute of run_case vs extracted OCaml program", "cases_v": os.path.join(d, "cases.v")}, False)
        return
    bad = [int(x.strip(" ()%Z")) for x in m.group(1).split(";") if x.strip()]
    chk.cov["in_coq_vm_compute_cases"] = chk.cov.get("in_coq_vm_compute_cases", 0) + len(idx)
    if bad:
        i = idx[bad[0]]
        chk.violation("extracted model and in-Coq vm_compute of run_case differ on %d sampled case(s)" % len(bad),
                      {"correspondence": "Coq vm_compute of run_case vs extracted OCaml program", "case": cases[i], "extracted_output": model[i], "cases_v": os.path.join(d, "cases.v")}, False)
    else:
        import shutil
        shutil.rmtree(d, ignore_errors=True)


def std_trusted():
    return [
        "Coq 8.16.1 kernel; vm_compute inside proofs over finite tables only; no native_compute",
        "Flocq 4.1.0 BinarySingleNaN as the model of Rust f32 (+ - * / neg abs, i64->f32, f32->i64, comparisons)",
        "extraction with ExtrOcamlBasic only (Extract Inductive bool/option/unit/list/prod/sumbool/sumor as in that file); Z and positive kept as extracted datatypes; no Extract Constant of our own; OCaml 4.13.1; ocaml/driver.ml (integer parsing/printing only)",
        "Rust harness /verif/harness (case decoder, one arm per impl, catch_unwind, NaN canonicalisation, Unit exponents read through Debug)",
        "Python runner: case generators, comparison, property oracle used only to classify a disagreement",
        "correspondence is differential testing: it ties the hand-written model to /repo only on the generated cases",
        "modelled, not verified: i64 overflow = panic (debug build), i8 unit-exponent wrap excluded (|exp| <= 60)",
    ]


def main_args():
    import argparse
    ap = argparse.ArgumentParser()
    ap.add_argument("pid")
    ap.add_argument("--tier", default=os.environ.get("VERIF_TIER", "quick"))
    ap.add_argument("--replay", default=None)
    a = ap.parse_args()
    seed = int(os.environ.get("VERIF_SEED", "20260929"))
    return a.pid, a.tier, seed, a.replay


# ----------------------------------------------------------------------------- stream case helpers
def oNone(): return [0]
def oErr(e): return [1, e]
def oSome(t, payload): return [2, t] + list(payload)
def tErr(e): return [1, e]
def tOk(t): return [3, t]

def dec_out_py(l, pos, width):
    """decode an out value with a payload of `width` integers -> (('N',)|('E',e)|('S',t,payload), newpos)"""
    tag = l[pos]
    if tag == 0: return ("N",), pos + 1
    if tag == 1: return ("E", l[pos + 1]), pos + 2
    if tag == 2: return ("S", l[pos + 1], tuple(l[pos + 2:pos + 2 + width])), pos + 2 + width
    if tag == 99: return ("P",), pos + 1
    return ("?", tag), pos + 1

def frac_to_f32_bits(x):
    """exact rational -> nearest binary32 (ties to even), as a bit pattern; overflow -> infinity"""
    from fractions import Fraction
    if x == 0:
        return 0
    sign = 0x80000000 if x < 0 else 0
    x = abs(Fraction(x))
    # find e with 2^e <= x < 2^(e+1)
    e = x.numerator.bit_length() - x.denominator.bit_length()
    if Fraction(2) ** e > x: e -= 1
    if Fraction(2) ** (e + 1) <= x: e += 1
    if e < -126:
        q = x / Fraction(2) ** (-149)          # subnormal: multiples of 2^-149
        m = q.numerator // q.denominator
        rem = q - m
        if rem > Fraction(1, 2) or (rem == Fraction(1, 2) and m % 2 == 1): m += 1
        return sign | m                         # m == 2^23 becomes the smallest normal, correctly
    q = x / Fraction(2) ** (e - 23)             # in [2^23, 2^24)
    m = q.numerator // q.denominator
    rem = q - m
    if rem > Fraction(1, 2) or (rem == Fraction(1, 2) and m % 2 == 1): m += 1
    if m == 1 << 24:
        m >>= 1; e += 1
    if e > 127:
        return sign | 0x7F800000
    return sign | ((e + 127) << 23) | (m - (1 << 23))

def f32_of_int_bits(n):
    return frac_to_f32_bits(n)

def f32_div_bits(a, b):
    """correctly rounded a/b for finite non-zero b (bit patterns)"""
    from fractions import Fraction
    fa, fb = b2frac(a), b2frac(b)
    if fa is None or fb is None or fb == 0:
        return None
    if fa == 0:
        return (a ^ b) & 0x80000000
    return frac_to_f32_bits(fa / fb)

def f32_sub_bits(a, b):
    fa, fb = b2frac(a), b2frac(b)
    if fa is None or fb is None: return None
    r = fa - fb
    if r == 0:
        return 0x80000000 if (a >> 31) == 1 and (b >> 31) == 0 else 0
    return frac_to_f32_bits(r)
