"""Compile probes for C16 (second sentence) and C17 (to_dyn! from crates with different feature names)."""
import os, re, shutil
from common import *

CONSTRUCT = {
    "Invert": "Invert::<u8>::new()",
    "GearTrain": "GearTrain::<u8>::with_ratio_raw(2.0)",
    "Axle": "Axle::<2, u8>::new()",
    "Differential": "Differential::<u8>::new()",
    "ActuatorWrapper": "ActuatorWrapper::new(Inner::new())",
    "GetterStateDeviceWrapper": "GetterStateDeviceWrapper::new(InnerG)",
    "PIDWrapper": "PIDWrapper::new(InnerF::new(), Time(0), State::default(), Command::new(PositionDerivative::Position, 0.0), PositionDerivativeDependentPIDKValues::new(PIDKValues::new(1.0, 0.0, 0.0), PIDKValues::new(1.0, 0.0, 0.0), PIDKValues::new(1.0, 0.0, 0.0)))",
}
PRELUDE = '''#![allow(unused)]
use rrtk::*;
use rrtk::devices::*;
use rrtk::devices::wrappers::*;
struct Inner { d: SettableData<TerminalData, u8> }
impl Inner { fn new() -> Self { Self { d: SettableData::new() } } }
impl Settable<TerminalData, u8> for Inner {
    fn impl_set(&mut self, _v: TerminalData) -> NothingOrError<u8> { Ok(()) }
    fn get_settable_data_ref(&self) -> &SettableData<TerminalData, u8> { &self.d }
    fn get_settable_data_mut(&mut self) -> &mut SettableData<TerminalData, u8> { &mut self.d }
}
impl Updatable<u8> for Inner { fn update(&mut self) -> NothingOrError<u8> { Ok(()) } }
struct InnerF { d: SettableData<f32, u8> }
impl InnerF { fn new() -> Self { Self { d: SettableData::new() } } }
impl Settable<f32, u8> for InnerF {
    fn impl_set(&mut self, _v: f32) -> NothingOrError<u8> { Ok(()) }
    fn get_settable_data_ref(&self) -> &SettableData<f32, u8> { &self.d }
    fn get_settable_data_mut(&mut self) -> &mut SettableData<f32, u8> { &mut self.d }
}
impl Updatable<u8> for InnerF { fn update(&mut self) -> NothingOrError<u8> { Ok(()) } }
struct InnerG;
impl Getter<State, u8> for InnerG { fn get(&self) -> Output<State, u8> { Ok(None) } }
impl Updatable<u8> for InnerG { fn update(&mut self) -> NothingOrError<u8> { Ok(()) } }
'''


def c16_probes(accessors, ctors):
    """-> dict name -> (source, expectation) ; expectation 'reject' = a sound API makes rustc reject it"""
    out = {}
    for (ty, fn, named, uns, indexed) in accessors:
        if ty not in CONSTRUCT:
            out["dangle_%s_%s" % (ty, fn)] = (None, "no-template")
            continue
        call = "d.%s(%s)" % (fn, "0" if indexed else "")
        if uns: call = "unsafe { %s }" % call
        src = PRELUDE + '''
fn main() {
    let t;
    {
        let d = %s;
        t = %s;
        t.borrow_mut().set(Datum::new(Time(1), State::new_raw(1.0, 2.0, 3.0))).unwrap();
    } // the device, which owns the terminal, is dropped here
    let s: Option<Datum<State>> = t.borrow().get().unwrap();
    println!("{:?}", s);
}
''' % (CONSTRUCT[ty], call)
        out["dangle_%s_%s" % (ty, fn)] = (src, "reject" if not uns else "unsafe-ok")
    for (ty, fn, raw, uns) in ctors:
        if not raw: continue
        arg = {"from_ptr": "core::ptr::null_mut::<i32>()", "from_ptr_rw_lock": "core::ptr::null::<std::sync::RwLock<i32>>()",
               "from_ptr_mutex": "core::ptr::null::<std::sync::Mutex<i32>>()"}.get(fn, "core::ptr::null_mut::<i32>()")
        path = "rrtk::reference::%s" % ty
        src = '''#![allow(unused)]
fn main() {
    // no `unsafe` here: a raw-pointer constructor must not be callable from safe code
    let r = %s::<i32>::%s(%s);
    let _ = r;
}
''' % (path, fn, arg)
        out["safe_ctor_%s_%s" % (ty, fn)] = (src, "reject")
    return out


def build_probes(name, probes, features="std,devices,dim_check_debug", extra_toml=""):
    """compile every probe as a bin of one crate with --keep-going; returns dict name -> compiled(bool)"""
    d = os.path.join(BUILD, "probes_" + name + repo_tag())
    src = os.path.join(d, "src", "bin")
    if os.path.isdir(src): shutil.rmtree(src)
    os.makedirs(src, exist_ok=True)
    names = []
    for n, (code, exp) in probes.items():
        if code is None: continue
        open(os.path.join(src, n + ".rs"), "w").write(code); names.append(n)
    toml = '[package]\nname = "probes_%s"\nversion = "0.0.0"\nedition = "2021"\n[workspace]\n[dependencies]\nrrtk = { path = "%s", default-features = false, features = [%s] }\n%s' % (
        name, REPO, ", ".join('"%s"' % f for f in features.split(",") if f), extra_toml)
    open(os.path.join(d, "Cargo.toml"), "w").write(toml)
    lock = os.path.join(REPO, "Cargo.lock")
    if os.path.exists(lock) and not os.path.exists(os.path.join(d, "Cargo.lock")): sh(["cp", lock, os.path.join(d, "Cargo.lock")])
    with Lock("probes_" + name):
        p = sh("timeout 900 cargo build --offline --bins --keep-going --message-format=short", cwd=d, check=False, timeout=1000)
    failed = set(re.findall(r'could not compile `[^`]+` \(bin "([^"]+)"\)', p.stdout))
    res = {}
    for n in names:
        exe = os.path.join(d, "target", "debug", n)
        res[n] = (n not in failed) and os.path.exists(exe)
    return res, p.stdout, d


C17_SRC = '''#![allow(unused)]
use rrtk::*;
trait Bar { fn v(&self) -> i64; fn s(&mut self, x: i64); }
struct Foo(i64);
impl Bar for Foo { fn v(&self) -> i64 { self.0 } fn s(&mut self, x: i64) { self.0 = x } }
fn main() {
    // Rc<RefCell>
    let r = rc_ref_cell_reference(Foo(1));
    let d = to_dyn!(Bar, r.clone());
    d.borrow_mut().s(5);
    assert_eq!(r.borrow().v(), 5);
    r.borrow_mut().s(6);
    assert_eq!(d.borrow().v(), 6);
    // *const RwLock
    let w = static_rw_lock_reference!(Foo, Foo(2));
    let dw = to_dyn!(Bar, w.clone());
    dw.borrow_mut().s(9);
    assert_eq!(w.borrow().v(), 9);
    // *mut T
    let p = static_reference!(Foo, Foo(3));
    let dp = to_dyn!(Bar, p.clone());
    dp.borrow_mut().s(11);
    assert_eq!(p.borrow().v(), 11);
    println!("to_dyn ok");
}
'''

def c17_caller_probes():
    """to_dyn! called from crates that declare no features / only `alloc` / `alloc` and `std` themselves"""
    res = {}
    for name, feats in (("nofeat", ""), ("alloc_only", 'alloc = []\ndefault = ["alloc"]\n'), ("alloc_std", 'alloc = []\nstd = []\ndefault = ["alloc", "std"]\n')):
        r, log, d = build_probes("c17_" + name, {"todyn": (C17_SRC, "run")}, features="std,dim_check_debug", extra_toml="[features]\n" + feats)
        ok = r.get("todyn", False)
        out = ""
        if ok:
            p = sh([os.path.join(d, "target", "debug", "todyn")], check=False, timeout=60)
            ok = p.returncode == 0 and "to_dyn ok" in p.stdout
            out = p.stdout[-400:]
        else:
            out = log[-600:]
        res[name] = (ok, out, os.path.join(d, "src", "bin", "todyn.rs"))
    return res
