#!/usr/bin/env python3
"""Translator: src/dimensions/constants.rs -> GenConstants.v (list of (name, mm, sec))."""
import os, re, sys
def main(repo, outdir):
    src = open(os.path.join(repo, "src/dimensions/constants.rs")).read()
    items = re.findall(r"pub\s+const\s+([A-Z0-9_]+)\s*:\s*Unit\s*=\s*Unit::new\(\s*(-?\d+)\s*,\s*(-?\d+)\s*\)\s*;", src)
    # every `pub const` must have been understood
    n_all = len(re.findall(r"pub\s+const\s+", src))
    os.makedirs(outdir, exist_ok=True)
    with open(os.path.join(outdir, "GenConstants.v"), "w") as f:
        f.write("(* GENERATED from src/dimensions/constants.rs by tools/gen_constants.py; do not edit *)\n")
        f.write("From Coq Require Import ZArith List String.\nImport ListNotations.\nLocal Open Scope Z_scope.\nLocal Open Scope string_scope.\n")
        f.write("Definition n_pub_const : Z := %d.\n" % n_all)
        f.write("Definition constants : list (string * Z * Z) := [\n")
        f.write(";\n".join('  ("%s", (%s), (%s))' % (n, m, s) for n, m, s in items))
        f.write("\n].\n")
    with open(os.path.join(outdir, "gen_consts.rs"), "w") as f:
        f.write("// GENERATED from src/dimensions/constants.rs by tools/gen_constants.py\n")
        f.write("pub const CONSTS: &[(&str, Unit)] = &[\n")
        for n, m, s in items:
            f.write('    ("%s", rrtk::dimensions::constants::%s),\n' % (n, n))
        f.write("];\n")
    return items, n_all
if __name__ == "__main__":
    items, n = main(sys.argv[1], sys.argv[2])
    print(len(items), n)
