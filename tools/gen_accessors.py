#!/usr/bin/env python3
"""Translator: signatures of terminal accessors (devices.rs, devices/wrappers.rs) and of the Reference /
ReferenceUnsafe constructors (reference.rs) -> GenAccessors.v and a probe table."""
import os, re, sys

def impl_blocks(src):
    """yield (type name, body) for each `impl<...> Type<...> {` block (inherent impls only)"""
    for m in re.finditer(r"^impl<[^{]*?>\s+([A-Za-z]+)<[^{]*?>\s*\{", src, re.M):
        start = m.end(); depth = 1; i = start
        while depth and i < len(src):
            if src[i] == "{": depth += 1
            elif src[i] == "}": depth -= 1
            i += 1
        yield m.group(1), src[start:i]

def main(repo, outdir):
    accessors = []
    for f in ("src/devices.rs", "src/devices/wrappers.rs"):
        src = open(os.path.join(repo, f)).read()
        for ty, body in impl_blocks(src):
            for m in re.finditer(r"pub\s+(unsafe\s+)?fn\s+([a-z_0-9]+)\s*\(\s*&self[^)]*\)\s*->\s*&\s*('[a-z_]+\s+)?RefCell<Terminal<", body):
                accessors.append((ty, m.group(2), m.group(3) is not None, m.group(1) is not None, "usize" in m.group(0)))
    ctors = []
    src = open(os.path.join(repo, "src/reference.rs")).read()
    for ty, body in impl_blocks(src):
        if ty not in ("Reference", "ReferenceUnsafe"): continue
        for m in re.finditer(r"pub\s+(const\s+)?(unsafe\s+)?fn\s+(from_[a-z_]+)\s*\(([^)]*)\)", body):
            raw = "*mut" in m.group(4) or "*const" in m.group(4)
            ctors.append((ty, m.group(3), raw, m.group(2) is not None))
    os.makedirs(outdir, exist_ok=True)
    with open(os.path.join(outdir, "GenAccessors.v"), "w") as f:
        f.write("(* GENERATED from src/devices.rs, src/devices/wrappers.rs, src/reference.rs by tools/gen_accessors.py *)\n")
        f.write("From Coq Require Import List String Bool.\nImport ListNotations.\nLocal Open Scope string_scope.\n")
        f.write("(* (type, function, returns the struct's named lifetime, is unsafe fn) *)\n")
        f.write("Definition accessors : list (string * string * bool * bool) := [\n")
        f.write(";\n".join('  ("%s", "%s", %s, %s)' % (t, n, str(nm).lower(), str(u).lower()) for t, n, nm, u, _ in accessors))
        f.write("\n].\n(* (type, constructor, takes a raw pointer, is unsafe fn) *)\n")
        f.write("Definition ref_ctors : list (string * string * bool * bool) := [\n")
        f.write(";\n".join('  ("%s", "%s", %s, %s)' % (t, n, str(r).lower(), str(u).lower()) for t, n, r, u in ctors))
        f.write("\n].\n")
    return accessors, ctors

if __name__ == "__main__":
    a, c = main(sys.argv[1], sys.argv[2])
    for x in a: print(x)
    for x in c: print(x)
