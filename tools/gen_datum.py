#!/usr/bin/env python3
"""Translator: the operator impls of src/datum.rs -> GenDatumOps.v.
   Every `impl ... <Trait>[<Rhs>] for Datum<X>` block is parsed (a small recursive-descent parser for the Rust
   subset these bodies use: let, if/else expressions, comparisons, field access, + - * / ! unary -, compound
   assignment, Datum::new) and turned into a pair of expression trees: what the result's time is and what its
   value is, as functions of self.time / other.time / self.value / other.value / other.
   A body the parser cannot read makes the translator fail (reported by the check), it is never skipped."""
import os, re, sys

TOK = re.compile(r"\s*(?:(//[^\n]*)|([A-Za-z_][A-Za-z0-9_]*|\d+)|(::|>=|<=|==|!=|\+=|-=|\*=|/=|[-+*/!<>=(){},;.&:]))")


class ParseError(Exception):
    pass


def tokenize(s):
    out, i = [], 0
    while i < len(s):
        if s[i:].strip() == "":
            break
        m = TOK.match(s, i)
        if not m:
            raise ParseError("cannot tokenize at: %r" % s[i:i + 40])
        i = m.end()
        if m.group(1):
            continue
        out.append(m.group(2) or m.group(3))
    return out


HELPERS = {}      # private free functions of src/datum.rs: name -> (parameter names, body expression)


class P:
    def __init__(self, toks):
        self.t, self.i = toks, 0
    def peek(self, k=0):
        return self.t[self.i + k] if self.i + k < len(self.t) else None
    def eat(self, x=None):
        tok = self.peek()
        if x is not None and tok != x:
            raise ParseError("expected %r, got %r at token %d" % (x, tok, self.i))
        self.i += 1
        return tok
    # expressions -> tuples
    def expr(self):
        if self.peek() == "if":
            self.eat("if")
            a = self.arith()
            c = self.eat()
            if c not in (">=", ">", "<=", "<", "=="):
                raise ParseError("comparison expected, got %r" % c)
            b = self.arith()
            self.eat("{"); t = self.expr(); self.eat("}")
            self.eat("else")
            self.eat("{"); e = self.expr(); self.eat("}")
            return ("if", c, a, b, t, e)
        return self.arith()
    def arith(self):
        l = self.term()
        while self.peek() in ("+", "-"):
            o = self.eat(); r = self.term(); l = ("bin", o, l, r)
        return l
    def term(self):
        l = self.unary()
        while self.peek() in ("*", "/"):
            o = self.eat(); r = self.unary(); l = ("bin", o, l, r)
        return l
    def unary(self):
        if self.peek() in ("!", "-"):
            o = self.eat(); return ("un", o, self.unary())
        return self.primary()
    def primary(self):
        e = self.primary0()
        while self.peek() == "." and (self.peek(1) or "").isdigit():
            # tuple field of a newtype (Time(i64)): comparing the inner integers is comparing the Times
            self.eat("."); self.eat()
        return e
    def primary0(self):
        tok = self.eat()
        if tok == "(":
            e = self.expr(); self.eat(")"); return e
        if tok in HELPERS and self.peek() == "(":
            self.eat("("); args = []
            while self.peek() != ")":
                args.append(self.expr())
                if self.peek() == ",": self.eat(",")
            self.eat(")")
            params, body = HELPERS[tok]
            if len(params) != len(args): raise ParseError("helper %s called with %d arguments" % (tok, len(args)))
            return subst(body, dict(zip(params, args)))
        if tok in ("self", "other"):
            if self.peek() == ".":
                self.eat("."); f = self.eat()
                if f not in ("time", "value"):
                    raise ParseError("unknown field %r" % f)
                return ("fld", tok, f)
            if tok == "other":
                return ("other",)
            raise ParseError("bare self")
        if tok == "Datum" and self.peek() == "::":
            self.eat("::"); self.eat("new"); self.eat("(")
            a = self.expr(); self.eat(","); b = self.expr(); self.eat(")")
            return ("new", a, b)
        if re.match(r"[A-Za-z_]", tok or ""):
            return ("var", tok)
        raise ParseError("unexpected token %r" % tok)


def subst(e, env):
    if e[0] == "var":
        if e[1] not in env:
            raise ParseError("unbound name %r" % e[1])
        return env[e[1]]
    return tuple(subst(x, env) if isinstance(x, tuple) else x for x in e)


def parse_body(body, assign):
    """returns (time_expr, value_expr) of the result (for *Assign: of self after the call)"""
    p = P(tokenize(body))
    env = {}
    time, val = ("fld", "self", "time"), ("fld", "self", "value")
    result = None
    while p.peek() is not None:
        if p.peek() == "let":
            p.eat("let"); n = p.eat(); p.eat("="); e = subst(p.expr(), env); p.eat(";"); env[n] = e
        elif p.peek() == "self" and p.peek(1) == "." and p.peek(3) in ("=", "+=", "-=", "*=", "/="):
            p.eat("self"); p.eat("."); f = p.eat(); o = p.eat(); e = subst(p.expr(), env); p.eat(";")
            if not assign:
                raise ParseError("assignment to self in a by-value operator")
            cur = time if f == "time" else val
            # references to self.<f> inside e mean the value before this statement
            e = replace_self(e, time, val)
            new = e if o == "=" else ("bin", o[0], cur, e)
            if f == "time": time = new
            elif f == "value": val = new
            else: raise ParseError("unknown field")
        else:
            e = subst(p.expr(), env)
            if p.peek() == ";": p.eat(";")
            result = e
    if assign:
        if result is not None:
            raise ParseError("trailing expression in an assign operator")
        return time, val
    if result is None or result[0] != "new":
        raise ParseError("by-value operator does not end in Datum::new(..)")
    return result[1], result[2]


def replace_self(e, time, val):
    if e == ("fld", "self", "time"): return time
    if e == ("fld", "self", "value"): return val
    return tuple(replace_self(x, time, val) if isinstance(x, tuple) else x for x in e)


CMP = {">=": "CGe", ">": "CGt", "<=": "CLe", "<": "CLt", "==": "CEq"}
BOP = {"+": "BAdd", "-": "BSub", "*": "BMul", "/": "BDiv"}
UOP = {"!": "UNot", "-": "UNeg"}


def coq(e):
    k = e[0]
    if k == "fld":
        return {"selftime": "SelfTime", "othertime": "OtherTime", "selfvalue": "SelfVal", "othervalue": "OtherVal"}[e[1] + e[2]]
    if k == "other": return "OtherRaw"
    if k == "if": return "(If %s %s %s %s %s)" % (CMP[e[1]], coq(e[2]), coq(e[3]), coq(e[4]), coq(e[5]))
    if k == "bin": return "(Bin %s %s %s)" % (BOP[e[1]], coq(e[2]), coq(e[3]))
    if k == "un": return "(Un %s %s)" % (UOP[e[1]], coq(e[2]))
    raise ParseError("cannot emit %r" % (e,))


IMPL = re.compile(r"^impl(?:<[^{]*?>)?\s+([A-Za-z]+)(?:<([^>{]*(?:<[^>]*>)?)>)?\s+for\s+Datum<([A-Za-z0-9]+)>\s*\{", re.M)


def impls(src):
    out = []
    for m in IMPL.finditer(src):
        trait, rhs, selfty = m.group(1), (m.group(2) or "Self").strip(), m.group(3)
        i = m.end(); depth = 1
        while depth:
            depth += {"{": 1, "}": -1}.get(src[i], 0); i += 1
        block = src[m.end():i - 1]
        fm = re.search(r"fn\s+\w+\s*\(([^)]*)\)[^{]*\{", block)
        if not fm:
            raise ParseError("no fn in impl %s for Datum<%s>" % (trait, selfty))
        j = fm.end(); depth = 1
        while depth:
            depth += {"{": 1, "}": -1}.get(block[j], 0); j += 1
        body = block[fm.end():j - 1]
        unary = trait in ("Not", "Neg")
        if unary: rhs = ""
        out.append((trait, selfty, rhs, body, src.count("\n", 0, m.start()) + 1))
    return out


def main(repo, outdir):
    src = open(os.path.join(repo, "src/datum.rs")).read()
    HELPERS.clear()
    for m in re.finditer(r"^(?:pub(?:\([a-z]+\))?\s+)?(?:const\s+)?fn\s+([a-z_][a-z0-9_]*)\s*\(([^)]*)\)\s*->\s*Time\s*\{", src, re.M):
        params = [q.split(":")[0].strip() for q in m.group(2).split(",") if q.strip()]
        if not all(q.split(":")[1].strip() == "Time" for q in m.group(2).split(",") if q.strip()): continue
        i = m.end(); depth = 1
        while depth:
            depth += {"{": 1, "}": -1}.get(src[i], 0); i += 1
        try:
            pp = P(tokenize(src[m.end():i - 1]))
            body = pp.expr()
            if pp.peek() is not None: continue
        except ParseError:
            continue
        HELPERS[m.group(1)] = (params, body)
    rows = []
    for trait, selfty, rhs, body, line in impls(src):
        try:
            t, v = parse_body(body, trait.endswith("Assign"))
            rows.append((trait, selfty, rhs, coq(t), coq(v), line))
        except ParseError as ex:
            raise ParseError("src/datum.rs:%d impl %s<%s> for Datum<%s>: %s" % (line, trait, rhs, selfty, ex))
    n_impl_lines = len(re.findall(r"^impl\b[^\n]*\bfor\s+Datum<", src, re.M))
    if n_impl_lines != len(rows):
        raise ParseError("src/datum.rs has %d impl blocks for Datum<..> but %d were translated" % (n_impl_lines, len(rows)))
    os.makedirs(outdir, exist_ok=True)
    with open(os.path.join(outdir, "GenDatumOps.v"), "w") as f:
        f.write("(* GENERATED from src/datum.rs by tools/gen_datum.py *)\nFrom Coq Require Import List String.\nFrom RRTK Require Import Model.DatumExpr.\nImport ListNotations.\nLocal Open Scope string_scope.\n")
        f.write("(* (trait, type parameter of the Datum, right operand type, time of the result, value of the result) *)\n")
        f.write("Definition datum_impls : list dimpl := [\n")
        f.write(";\n".join('  (* src/datum.rs:%d *) mk_dimpl "%s" "%s" "%s" %s %s' % (ln, tr, st, rh, t, v) for tr, st, rh, t, v, ln in rows))
        f.write("\n].\n")
    return rows


if __name__ == "__main__":
    for r in main(sys.argv[1], sys.argv[2]): print(r)
