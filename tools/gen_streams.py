#!/usr/bin/env python3
"""Translator: bodies of the stream `get` / `update` functions of src/streams/*.rs, src/streams.rs (and the helper
functions they call in src/lib.rs) -> GenStreams.v, one MiniRust term (Model/MiniRust.v) per function.

coq/gen_theorems/C05Streams.v etc. prove, for every state and every input, that evaluating the translated body equals the
hand-written model function.  Regenerated from the repository on every check."""
import os, sys
import rustmini
from rustmini import ParseError

FILES = ["src/lib.rs", "src/datum.rs", "src/devices.rs", "src/streams.rs", "src/streams/control.rs", "src/streams/math.rs", "src/streams/converters.rs",
         "src/streams/flow.rs", "src/streams/logic.rs", "src/motion_profile.rs", "src/devices/wrappers.rs", "src/state.rs"]

# (type key, fn, Coq name)
TARGETS = [
    ("PIDControllerStream", "update", "g_pid_update"),
    ("PIDControllerStream", "get", "g_pid_get"),
    ("CommandPID", "update", "g_cpid_update"),
    ("CommandPID", "get", "g_cpid_get"),
    ("CommandPID", "impl_set", "g_cpid_impl_set"),
    ("EWMAStream", "update", "g_ewma_update"),
    ("EWMAStream<Quantity>", "update", "g_ewma_q_update"),
    ("MovingAverageStream", "update", "g_ma_update"),
    ("MovingAverageStream<Quantity>", "update", "g_ma_q_update"),
    ("DerivativeStream", "update", "g_deriv_update"),
    ("IntegralStream", "update", "g_integ_update"),
    ("Sum2", "get", "g_sum2_get"),
    ("Product2", "get", "g_prod2_get"),
    ("DifferenceStream", "get", "g_diff_get"),
    ("QuotientStream", "get", "g_quot_get"),
    ("ExponentStream", "get", "g_expo_get"),
    ("NoneToError", "get", "g_none_to_error_get"),
    ("NoneToValue", "get", "g_none_to_value_get"),
    ("AccelerationToState", "update", "g_a2s_update"),
    ("AccelerationToState", "get", "g_a2s_get"),
    ("VelocityToState", "update", "g_v2s_update"),
    ("VelocityToState", "get", "g_v2s_get"),
    ("PositionToState", "update", "g_p2s_update"),
    ("PositionToState", "get", "g_p2s_get"),
    ("FloatToQuantity", "update", "g_f2q_update"),
    ("FloatToQuantity", "get", "g_f2q_get"),
    ("QuantityToFloat", "update", "g_q2f_update"),
    ("QuantityToFloat", "get", "g_q2f_get"),
    ("IfStream", "get", "g_if_get"),
    ("IfElseStream", "get", "g_ifelse_get"),
    ("FreezeStream", "update", "g_freeze_update"),
    ("FreezeStream", "get", "g_freeze_get"),
    ("AndStream", "get", "g_and_get"),
    ("OrStream", "get", "g_or_get"),
    ("NotStream", "get", "g_not_get"),
    ("Latest", "get", "g_latest_get"),
    ("SumStream", "get", "g_sum_get"),
    # src/lib.rs: settable bookkeeping (on ConstantGetter, whose impl_set stores the value), history adapter, small getters
    ("ConstantGetter", "update", "g_cg_update"),
    ("ConstantGetter", "get", "g_cg_get"),
    ("trait:Settable@ConstantGetter", "set", "g_cg_set"),
    ("trait:Settable@ConstantGetter", "follow", "g_cg_follow"),
    ("trait:Settable@ConstantGetter", "stop_following", "g_cg_stop_following"),
    ("trait:Settable@ConstantGetter", "get_last_request", "g_cg_get_last_request"),
    ("GetterFromHistory", "new_start_at_zero", "g_gfh_new_start_at_zero"),
    ("GetterFromHistory", "new_custom_start", "g_gfh_new_custom_start"),
    ("GetterFromHistory", "set_delta", "g_gfh_set_delta"),
    ("GetterFromHistory", "set_time", "g_gfh_set_time"),
    ("GetterFromHistory", "get", "g_gfh_get"),
    ("TimeGetterFromGetter", "get", "g_tgfg_get"),
    ("NoneGetter", "get", "g_none_getter_get"),
    # src/lib.rs: what a terminal reads (own and partner's last requests)
    ("Terminal#State", "get", "g_term_state_get"),
    ("Terminal#Command", "get", "g_term_cmd_get"),
    ("Terminal#TerminalData", "get", "g_term_data_get"),
    # src/devices.rs: the update of the two-terminal devices and of the differential (terminal reads / writes inlined)
    ("Invert", "update", "g_invert_update"),
    ("GearTrain", "update", "g_gear_update"),
    ("Differential", "update", "g_diff_update"),
    ("Axle", "update", "g_axle_update"),
    ("Axle", "new", "g_axle_new"),
    ("GearTrain", "new", "g_gear_new"), ("GearTrain", "with_ratio", "g_gear_with_ratio"), ("GearTrain", "with_ratio_raw", "g_gear_with_ratio_raw"),
    ("Invert", "new", "g_invert_new"), ("Differential", "new", "g_diff_new"), ("Differential", "with_distrust", "g_diff_with_distrust"),
    # src/motion_profile.rs: the if-chains over the phase boundaries and the History impl (the three numeric accessors inlined)
    ("MotionProfile", "get_piece", "g_mp_get_piece"),
    ("MotionProfile", "get_mode", "g_mp_get_mode"),
    ("MotionProfile", "get", "g_mp_history_get"),
    ("MotionProfile", "get_acceleration", "g_mp_get_acceleration"),
    ("MotionProfile", "get_velocity", "g_mp_get_velocity"),
    ("MotionProfile", "get_position", "g_mp_get_position"),
    # src/devices/wrappers.rs: the wrapped object is external (its calls are logged, its answers are inputs)
    ("ActuatorWrapper", "update", "g_actuator_update"),
    ("GetterStateDeviceWrapper", "update", "g_encoder_update"),
    ("PIDWrapper", "update", "g_pidw_update"),
    ("ProductStream", "get", "g_prod_get"),
    ("Expirer", "get", "g_expirer_get"),
    # constructors (the initial state of the model) and the getters that return the cached value
    ("PIDControllerStream", "new", "g_pid_new"), ("CommandPID", "new", "g_cpid_new"), ("EWMAStream", "new", "g_ewma_new"),
    ("MovingAverageStream", "new", "g_ma_new"), ("DerivativeStream", "new", "g_deriv_new"), ("IntegralStream", "new", "g_integ_new"),
    ("AccelerationToState", "new", "g_a2s_new"), ("VelocityToState", "new", "g_v2s_new"), ("PositionToState", "new", "g_p2s_new"),
    ("FloatToQuantity", "new", "g_f2q_new"), ("QuantityToFloat", "new", "g_q2f_new"), ("FreezeStream", "new", "g_freeze_new"),
    ("GetterFromHistory", "new_no_delta", "g_gfh_new_no_delta"), ("GetterFromHistory", "new_custom_delta", "g_gfh_new_custom_delta"),
    ("ConstantGetter", "new", "g_cg_new"), ("Terminal", "new_raw", "g_term_new_raw"),
    # small helpers of src/datum.rs and src/lib.rs
    ("Datum", "replace_if_older_than", "g_datum_replace_if_older_than"),
    ("Datum<Command>", "try_from", "g_tdata_to_command"), ("Datum<State>", "try_from", "g_tdata_to_state"),
    ("Time", "get", "g_time_get"),
    ("PositionDerivative#MotionProfilePiece", "try_from", "g_piece_to_pd"),
    ("EWMAStream", "get", "g_ewma_get"), ("EWMAStream<Quantity>", "get", "g_ewma_q_get"),
    ("MovingAverageStream", "get", "g_ma_get"), ("MovingAverageStream<Quantity>", "get", "g_ma_q_get"),
    ("DerivativeStream", "get", "g_deriv_get"), ("IntegralStream", "get", "g_integ_get"),
]

HDR = """(* GENERATED by tools/gen_streams.py from %s - do not edit *)
From Coq Require Import ZArith Bool List String.
From RRTK Require Import Num.Num Model.Values Model.Prog Model.MiniRust.
Import ListNotations.
Local Open Scope string_scope.
Local Open Scope Z_scope.
Section GenStreams.
Context {F : Type} {NF : Num F}.
"""


USED = []          # (Coq name, the translated function's entry, the entries inlined into it): read by tools/inventory.py


def load(repo):
    fns, enums = {}, {}
    for f in FILES:
        src = open(os.path.join(repo, f)).read()
        t = rustmini.tokenize(src)
        rustmini.scan_items(t, 0, len(t), fns, enums)
    return fns, enums


def main(repo, outdir, consts):
    fns, enums = load(repo)
    os.makedirs(outdir, exist_ok=True)
    out = [HDR % ", ".join(FILES)]
    info = []
    del USED[:]
    for key, fn, name in TARGETS:
        self_key = key
        if "@" in key:            # a trait's default method, run on a given implementor
            key, self_key = key.split("@")
        dispatch = None
        if "#" in key:            # one of several impls of the same trait for one type, selected by a trait argument
            key, dispatch = key.split("#")
            self_key = key
        lst = fns.get((key, fn))
        if lst and dispatch:
            lst = [x for x in lst if dispatch in x.get("targs", [])]
        if not lst:
            raise ParseError("function %s::%s not found in the source" % (key, fn))
        if len(lst) > 1 and not all(x["toks"] == lst[0]["toks"] for x in lst):
            raise ParseError("function %s::%s is defined %d times with different bodies" % (key, fn, len(lst)))
        f = lst[0]
        try:
            ast = rustmini.parse_fn(f["toks"])
            em = rustmini.Emitter(fns, enums, consts, self_key)
            em.dispatch = dispatch
            em.reads_as_inputs = key in ("Invert", "GearTrain", "Differential", "Axle", "ActuatorWrapper", "GetterStateDeviceWrapper")
            if key == "ActuatorWrapper":
                em.ext_fields = {"inner": "TerminalData"}; em.default_read_kind = "TerminalData"
            if key == "GetterStateDeviceWrapper":
                em.ext_fields = {"inner": "State"}
            if key == "MovingAverageStream":
                em.t_default = "(ELit (VF fzero))"        # the generic impl at T = f32 (f32::default() = 0.0)
            if key.startswith("MovingAverageStream"):
                em.vec_index = True
            if key == "Axle" and fn == "new":
                em.const_generics = {"N": "(EVar \"N\")"}
            if key == "GearTrain" and fn == "new":
                em.const_generics = {"N": "(ELen (EVar \"teeth\"))"}; em.vec_index = True
            if key == "PIDWrapper":
                # every object behind a Reference is external here: they alias each other (set up in `new`), which the
                # tree-shaped state of the embedding cannot express; what the body does to them, in which order, is what is proved
                em.reads_as_inputs = True
                em.ext_fields = {"inner": "F32", "time": "Time", "state": "State", "command": "Command", "pid": "F32"}
                em.default_read_kind = "TerminalData"
            em.array_input = em.find_array_input(ast)
            term = em.expr(ast)
        except ParseError as ex:
            raise ParseError("%s::%s: %s" % (key, fn, ex))
        out.append("Definition %s (c : cfg) : @mexpr F :=\n  %s.\n" % (name, term))
        info.append((key, fn, name, sorted(em.inputs), f["params"]))
        USED.append((name, f, list(em.used)))
    out.append("End GenStreams.\n")
    p = os.path.join(outdir, "GenStreams.v")
    txt = "\n".join(out)
    if not os.path.exists(p) or open(p).read() != txt:
        open(p, "w").write(txt)
    return info


if __name__ == "__main__":
    import gen_constants
    repo = sys.argv[1] if len(sys.argv) > 1 else "/repo"
    outdir = sys.argv[2] if len(sys.argv) > 2 else "/verif/build/gen"
    items, _ = gen_constants.main(repo, outdir)
    for r in main(repo, outdir, {it[0]: (int(it[1]), int(it[2])) for it in items}):
        print(r)
