#!/usr/bin/env python3
"""Translator: the to_dyn! macro definitions of src/reference.rs -> GenToDyn.v
   (cfg under which each definition is selected inside rrtk, the variants its arms list, whether any
    #[cfg] attribute occurs INSIDE the body (it would be evaluated in the calling crate), whether every path
    in the body goes through $crate)."""
import os, re, sys

def main(repo, outdir):
    src = open(os.path.join(repo, "src/reference.rs")).read()
    defs = []
    for m in re.finditer(r"((?:#\[[^\]]*\]\s*)*)macro_rules!\s*to_dyn\s*\{", src):
        attrs = m.group(1)
        start = m.end(); depth = 1; i = start
        while depth and i < len(src):
            if src[i] == "{": depth += 1
            elif src[i] == "}": depth -= 1
            i += 1
        body = src[start:i]
        cfgm = re.search(r"#\[cfg\((.*?)\)\]\s*(?:#\[macro_export\])?\s*$", attrs.strip(), re.S)
        cfg = re.sub(r"\s+", " ", cfgm.group(1)) if cfgm else ""
        arms = re.findall(r"ReferenceUnsafe::([A-Za-z]+)\s*\(", body)
        inner_cfg = "#[cfg" in body
        bare = re.findall(r"(?<![\w:$])(?:reference::|Reference::|alloc::|std::)", re.sub(r"\$crate::[\w:]+", "", body))
        defs.append((cfg, arms, inner_cfg, len(bare) == 0))
    os.makedirs(outdir, exist_ok=True)
    with open(os.path.join(outdir, "GenToDyn.v"), "w") as f:
        f.write("(* GENERATED from src/reference.rs by tools/gen_todyn.py *)\nFrom Coq Require Import List String Bool.\nImport ListNotations.\nLocal Open Scope string_scope.\n")
        f.write("(* (cfg selecting the definition inside rrtk, variants listed, #[cfg] inside the body, all paths through $crate) *)\n")
        f.write("Definition to_dyn_defs : list (string * list string * bool * bool) := [\n")
        f.write(";\n".join('  ("%s", [%s], %s, %s)' % (c.replace('"', "'"), "; ".join('"%s"' % a for a in arms), str(ic).lower(), str(cp).lower()) for c, arms, ic, cp in defs))
        f.write("\n].\n")
    return defs

if __name__ == "__main__":
    for d in main(sys.argv[1], sys.argv[2]): print(d)
