#!/usr/bin/env python3
"""Translator: the to_dyn! macro definitions of src/reference.rs -> GenToDyn.v
   (cfg under which each definition is selected inside rrtk, the variants its arms list, whether any
    #[cfg] attribute occurs INSIDE the body (it would be evaluated in the calling crate), whether every path
    in the body goes through $crate)."""
import os, re, sys

def main(repo, outdir):
    src = open(os.path.join(repo, "src/reference.rs")).read()
    defs = []
    for m in re.finditer(r"((?:#\[[^\]]*\]\s*)*)macro_rules!\s*to_dyn\s*\{", src):
        attrs = m.group(1)
        start = m.end(); depth = 1; i = start
        while depth and i < len(src):
            if src[i] == "{": depth += 1
            elif src[i] == "}": depth -= 1
            i += 1
        body = src[start:i]
        cfgm = re.search(r"#\[cfg\((.*?)\)\]\s*(?:#\[macro_export\])?\s*$", attrs.strip(), re.S)
        cfg = re.sub(r"\s+", " ", cfgm.group(1)) if cfgm else ""
        arms = re.findall(r"ReferenceUnsafe::([A-Za-z]+)\s*\(", body)
        inner_cfg = "#[cfg" in body
        bare = re.findall(r"(?<![\w:$])(?:reference::|Reference::|alloc::|std::)", re.sub(r"\$crate::[\w:]+", "", body))
        defs.append((cfg, arms, inner_cfg, len(bare) == 0))
    # the arms of `impl Clone for ReferenceUnsafe`: (variant matched, variant built, how the payload is duplicated)
    cm = re.search(r"impl<[^>]*>\s*Clone\s+for\s+ReferenceUnsafe<[^>]*>\s*\{(.*?)\n\}", src, re.S)
    clone_arms = []
    if cm:
        for a in re.finditer(r"Self::(\w+)\((\w+)\)\s*=>\s*Self::(\w+)\((.*?)\),\s*\n", cm.group(1)):
            vin, var, vout, expr = a.group(1), a.group(2), a.group(3), a.group(4).strip()
            if expr == "*" + var: how = "copy"
            elif re.fullmatch(r"Rc::clone\(&?%s\)" % var, expr): how = "Rc::clone"
            elif re.fullmatch(r"Arc::clone\(&?%s\)" % var, expr): how = "Arc::clone"
            else: how = "other: " + expr.replace('"', "'")
            clone_arms.append((vin, vout, how))
    em = re.search(r"pub enum ReferenceUnsafe<[^>]*>\s*\{(.*?)\n\}", src, re.S)
    variants = re.findall(r"^\s*(\w+)\(", re.sub(r"///[^\n]*", "", em.group(1)), re.M) if em else []
    os.makedirs(outdir, exist_ok=True)
    with open(os.path.join(outdir, "GenToDyn.v"), "w") as f:
        f.write("(* GENERATED from src/reference.rs by tools/gen_todyn.py *)\nFrom Coq Require Import List String Bool.\nImport ListNotations.\nLocal Open Scope string_scope.\n")
        f.write("(* (cfg selecting the definition inside rrtk, variants listed, #[cfg] inside the body, all paths through $crate) *)\n")
        f.write("Definition to_dyn_defs : list (string * list string * bool * bool) := [\n")
        f.write(";\n".join('  ("%s", [%s], %s, %s)' % (c.replace('"', "'"), "; ".join('"%s"' % a for a in arms), str(ic).lower(), str(cp).lower()) for c, arms, ic, cp in defs))
        f.write("\n].\n")
        f.write("(* impl Clone for ReferenceUnsafe: (variant matched, variant built, how the payload is duplicated) *)\n")
        f.write("Definition clone_arms : list (string * string * string) := [%s].\n" % "; ".join('("%s", "%s", "%s")' % a for a in clone_arms))
        f.write("Definition reference_variants : list string := [%s].\n" % "; ".join('"%s"' % v for v in variants))
    return defs

if __name__ == "__main__":
    for d in main(sys.argv[1], sys.argv[2]): print(d)
