#!/usr/bin/env python3
"""tools/mk_props.py OUT.v 'header comment' Module[,Module..] name=NewName ...
Writes a Properties file that re-states the given lemmas (statement printed by Coq, so it is pinned in the
Properties file and a later weakening of the lemma breaks `exact`) and closes each by `exact`."""
import subprocess, sys, re, os
COQ = "/verif/coq"
out, header, mods = sys.argv[1], sys.argv[2], sys.argv[3].split(",")
pairs = [a.lstrip("!").split("=") for a in sys.argv[4:]]
explicit = set(a.lstrip("!").split("=")[0] for a in sys.argv[4:] if a.startswith("!"))   # statements printed with all implicit arguments
imports = "From Coq Require Import ZArith Bool List Arith Reals Lia.\nFrom RRTK Require Import Num.Num Num.RR Num.B32 Num.Laws Model.Values Model.Prog Model.Combinators Model.Streams Model.Assembly Model.MotionProfile Model.World Model.Devices %s.\nImport ListNotations.\nLocal Open Scope Z_scope.\n" % " ".join("Proofs." + m for m in mods)
script = imports + "Set Printing Width 110.\nSet Printing Depth 100000.\n" + "".join(("Set Printing Implicit.\nCheck @%s.\nUnset Printing Implicit.\n" if a in explicit else "Check @%s.\n") % a for a, _ in pairs)
p = subprocess.run(["coqtop", "-Q", "theories", "RRTK", "-quiet"], input=script, cwd=COQ, capture_output=True, text=True)
txt = p.stdout
body = []
for a, b in pairs:
    m = re.search(r"^@?%s\s*\n?\s*:(.*?)(?=^\S|\Z)" % re.escape(a), txt, re.M | re.S)
    if not m:
        sys.exit("no type printed for %s\n%s\n%s" % (a, txt[-2000:], p.stderr[-2000:]))
    ty = m.group(1).rstrip()
    body.append("Theorem %s :%s.\nProof. exact (@%s). Qed.\n" % (b, ty, a))
with open(out, "w") as f:
    f.write("(* %s *)\n" % header + imports + "\n" + "\n".join(body) + "\n" + "".join("Print Assumptions %s.\n" % b for _, b in pairs))
print("wrote", out, len(pairs))
