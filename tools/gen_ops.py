#!/usr/bin/env python3
"""Translator: the bodies of the value-layer operator / conversion impls and inherent functions of src/dimensions.rs,
src/state.rs, src/command.rs (Time, DimensionlessInteger, Quantity, State, Command) -> GenOps.v, one MiniRust term per
function (Model/MiniRust.v).

coq/gen_theorems/OpsTable.v (written once by `python3 tools/gen_ops.py --theorems`, then committed: the list of expected impls is
pinned there) proves for every operand that evaluating the translated body gives what the operator table of Model/Prog.v
(`apply_op`) gives for that impl's opcode - where a body uses other operators of the crate (`Quantity::from(self) * rhs`), those
are interpreted by the table, so the theorems check every impl against the table one level at a time."""
import os, sys
import rustmini
from rustmini import ParseError

FILES = ["src/lib.rs", "src/dimensions.rs", "src/state.rs", "src/command.rs"]
TY = {  # rust type -> (Coq binder type, val constructor, short name)
    "Time": ("Z", "VT", "T"), "DimensionlessInteger": ("Z", "VD", "D"), "Quantity": ("(@quantity F)", "VQ", "Q"),
    "f32": ("F", "VF", "F"), "State": ("(@state F)", "VS", "S"), "Command": ("(@command F)", "VC", "C"),
    "i64": ("Z", "VI", "I"), "PositionDerivative": ("pd", "VPD", "P"), "Unit": ("unit_", "VU", "U"),
}
BIN = {"Add": 1, "Sub": 2, "Mul": 3, "Div": 4, "AddAssign": 5, "SubAssign": 6, "MulAssign": 7, "DivAssign": 8}
FNAME = {"Add": "add", "Sub": "sub", "Mul": "mul", "Div": "div", "AddAssign": "add_assign", "SubAssign": "sub_assign",
         "MulAssign": "mul_assign", "DivAssign": "div_assign", "Neg": "neg"}
SELF_TYPES = ["Time", "DimensionlessInteger", "Quantity", "State", "Command"]
# conversions: (trait, from, to) -> (opcode, runner)
CONV = {("From", "Time", "Quantity"): (20, "val"), ("From", "DimensionlessInteger", "Quantity"): (20, "val"),
        ("From", "Command", "Quantity"): (20, "val"), ("TryFrom", "Quantity", "Time"): (21, "try"),
        ("TryFrom", "Quantity", "DimensionlessInteger"): (22, "try"), ("From", "Quantity", "f32"): (23, "val"),
        ("From", "Command", "f32"): (23, "val"), ("From", "Time", "i64"): (24, "val"),
        ("From", "DimensionlessInteger", "i64"): (24, "val"), ("From", "i64", "Time"): (25, "val"),
        ("From", "i64", "DimensionlessInteger"): (26, "val"), ("From", "Command", "PositionDerivative"): (28, "val"),
        ("From", "State", "Command"): (30, "val")}
# not translated: the impls of Unit (bodies selected by cfg attributes; the unit algebra stays a primitive of the table, tied by
# C01's exhaustive 49x49 correspondence and the generated constant table), Quantity::abs (cfg inside the argument list),
# TryFrom<Quantity> for Command (exists only with checking on)
# inherent functions: (type, fn) -> (opcode, runner, [argument types after self], has_self)
INH = {("Command", "new"): (31, "val", ["PositionDerivative", "f32"], False),
       ("Command", "get_position"): (61, "val", [], True), ("Command", "get_velocity"): (62, "val", [], True),
       ("Command", "get_acceleration"): (63, "val", [], True),
       ("State", "new"): (35, "val", ["Quantity", "Quantity", "Quantity"], False),
       ("State", "new_raw"): (36, "val", ["f32", "f32", "f32"], False),
       ("State", "get_position"): (57, "val", [], True), ("State", "get_velocity"): (58, "val", [], True),
       ("State", "get_acceleration"): (59, "val", [], True), ("State", "get_value"): (60, "val", ["PositionDerivative"], True),
       ("State", "update"): (50, "self", ["Time"], True),
       ("State", "set_constant_acceleration"): (51, "setter", ["Quantity"], True),
       ("State", "set_constant_velocity"): (52, "setter", ["Quantity"], True),
       ("State", "set_constant_position"): (53, "setter", ["Quantity"], True),
       ("State", "set_constant_acceleration_raw"): (54, "self", ["f32"], True),
       ("State", "set_constant_velocity_raw"): (55, "self", ["f32"], True),
       ("State", "set_constant_position_raw"): (56, "self", ["f32"], True),
       ("Quantity", "new"): (32, "val", ["f32", "Unit"], False), ("Quantity", "dimensionless"): (33, "val", ["f32"], False),
       ("Time", "new"): (25, "val", ["i64"], False), ("DimensionlessInteger", "new"): (26, "val", ["i64"], False)}

# the unit algebra: bodies selected by the dimension-check cfg; translated once per configuration (rustmini.strip_cfg) and
# joined by `if chk c`
UNIT_BIN = ["Add", "Sub", "Mul", "Div", "AddAssign", "SubAssign", "MulAssign", "DivAssign", "Neg"]
UNIT_INH = {("Unit", "new"): (34, "val", ["i8", "i8"], False),
            ("Unit", "eq_assume_true"): (41, "val", ["Unit"], True), ("Unit", "eq_assume_false"): (42, "val", ["Unit"], True),
            ("Unit", "assert_eq_assume_ok"): (43, "unit", ["Unit"], True), ("Unit", "assert_eq_assume_not_ok"): (44, "unit", ["Unit"], True),
            ("Unit", "const_eq"): (40, "val", ["Unit"], True), ("Unit", "const_assert_eq"): (45, "unit", ["Unit"], True)}
TY["i8"] = ("Z", "VI", "I8")


def unit_targets(fns_t, fns_f):
    out = []
    def both(ty, fn, trait, targs):
        r = []
        for fns in (fns_t, fns_f):
            hit = None
            for e in fns.get((ty, fn), []):
                if e["trait"] == trait and (targs is None or e["targs"] == targs):
                    hit = e
            r.append(hit)
        return r
    for tr in UNIT_BIN:
        et, ef = both("Unit", FNAME[tr], tr, None)
        if et is None or ef is None: raise ParseError("impl %s for Unit not found" % tr)
        args = [("self", "Unit")] + ([(et["params"][0], "Unit")] if tr != "Neg" else [])
        out.append({"name": "g_%s_U%s" % (tr, "U" if tr != "Neg" else ""), "entry": et, "entry_f": ef, "self_type": "Unit",
                    "opcode": BIN.get(tr, 9), "args": args, "runner": "self" if tr.endswith("Assign") else "val", "what": "impl %s for Unit" % tr, "dual": True})
    et, ef = both("Unit", "from", "From", ["PositionDerivative"])
    if et is None or ef is None: raise ParseError("impl From<PositionDerivative> for Unit not found")
    out.append({"name": "g_From_P_U", "entry": et, "entry_f": ef, "self_type": "Unit", "opcode": 29, "args": [(et["params"][0], "PositionDerivative")],
                "runner": "val", "what": "impl From<PositionDerivative> for Unit", "dual": True})
    # exists only with checking on (the impl itself carries the cfg attribute)
    et, ef = both("PositionDerivative", "try_from", "TryFrom", ["Unit"])
    if et is None: raise ParseError("impl TryFrom<Unit> for PositionDerivative not found")
    out.append({"name": "g_TryFrom_U_P", "entry": et, "entry_f": ef, "self_type": "PositionDerivative", "opcode": 28, "args": [(et["params"][0], "Unit")],
                "runner": "try", "what": "impl TryFrom<Unit> for PositionDerivative", "dual": True})
    et, ef = both("Command", "try_from", "TryFrom", ["Quantity"])
    if et is None: raise ParseError("impl TryFrom<Quantity> for Command not found")
    out.append({"name": "g_TryFrom_Q_C", "entry": et, "entry_f": ef, "self_type": "Command", "opcode": 27, "args": [(et["params"][0], "Quantity")],
                "runner": "try", "what": "impl TryFrom<Quantity> for Command", "dual": True})
    for (ty, fn), (op, runner, argt, has_self) in UNIT_INH.items():
        et, ef = both(ty, fn, None, None)
        if et is None: raise ParseError("%s::%s not found" % (ty, fn))
        args = ([("self", ty)] if has_self else []) + list(zip(et["params"], argt))
        out.append({"name": "g_U_%s" % fn, "entry": et, "entry_f": ef, "self_type": ty, "opcode": op, "args": args, "runner": runner,
                    "what": "%s::%s" % (ty, fn), "dual": True})
    return out


HDR = """(* GENERATED by tools/gen_ops.py from %s - do not edit *)
From Coq Require Import ZArith Bool List String.
From RRTK Require Import Num.Num Model.Values Model.Prog Model.MiniRust.
Import ListNotations.
Local Open Scope string_scope.
Local Open Scope Z_scope.
Section GenOps.
Context {F : Type} {NF : Num F}.
"""


def load(repo, chk=None):
    """chk = None: the source as it is (attributes ignored); True / False: with the items, statements and struct-literal fields
    that the dimension-check cfg removes in that configuration taken out"""
    fns, enums = {}, {}
    for f in FILES:
        t = rustmini.tokenize(open(os.path.join(repo, f)).read())
        if chk is not None:
            t = rustmini.strip_cfg(t, chk)
        rustmini.scan_items(t, 0, len(t), fns, enums)
    return fns, enums


def targets(fns):
    """-> list of dicts: name, entry, self_type, opcode, runner, args = [(param name, rust type)] with self first when present"""
    out = []
    def find(ty, fn, trait, targs):
        for e in fns.get((ty, fn), []):
            if e["trait"] == trait and (targs is None or e["targs"] == targs):
                return e
        return None
    for st in SELF_TYPES:
        for tr, op in list(BIN.items()) + [("Neg", 9)]:
            for e in fns.get((st, FNAME[tr]), []):
                if e["trait"] != tr: continue
                rhs = (e["targs"][0] if e["targs"] else st) if tr != "Neg" else None
                if rhs == "Self": rhs = st
                if rhs is not None and rhs not in TY: continue
                args = [("self", st)] + ([(e["params"][0], rhs)] if rhs else [])
                nm = "g_%s_%s%s" % (tr, TY[st][2], TY[rhs][2] if rhs else "")
                out.append({"name": nm, "entry": e, "self_type": st, "opcode": op, "args": args,
                            "runner": "self" if tr.endswith("Assign") else "val", "what": "impl %s%s for %s" % (tr, "<%s>" % rhs if rhs and rhs != st else "", st)})
    for (tr, frm, to), (op, runner) in CONV.items():
        fn = "from" if tr == "From" else "try_from"
        e = find(to, fn, tr, [frm])
        if e is None:
            raise ParseError("impl %s<%s> for %s not found" % (tr, frm, to))
        out.append({"name": "g_%s_%s_%s" % (tr, TY[frm][2], TY[to][2]), "entry": e, "self_type": to, "opcode": op,
                    "args": [(e["params"][0], frm)], "runner": runner, "what": "impl %s<%s> for %s" % (tr, frm, to)})
    # ordering of quantities (asserts equal units first)
    e = find("Quantity", "partial_cmp", "PartialOrd", None)
    if e is None: raise ParseError("impl PartialOrd for Quantity not found")
    out.append({"name": "g_PartialOrd_QQ", "entry": e, "self_type": "Quantity", "opcode": 13, "args": [("self", "Quantity"), (e["params"][0], "Quantity")],
                "runner": "val", "what": "impl PartialOrd for Quantity"})
    for (ty, fn), (op, runner, argt, has_self) in INH.items():
        e = find(ty, fn, None, None)
        if e is None:
            raise ParseError("%s::%s not found" % (ty, fn))
        if len(e["params"]) != len(argt):
            raise ParseError("%s::%s: %d parameters, expected %d" % (ty, fn, len(e["params"]), len(argt)))
        args = ([("self", ty)] if has_self else []) + list(zip(e["params"], argt))
        out.append({"name": "g_%s_%s" % (TY[ty][2], fn), "entry": e, "self_type": ty, "opcode": op, "args": args, "runner": runner,
                    "what": "%s::%s" % (ty, fn)})
    return out


def main(repo, outdir, consts):
    fns, enums = load(repo)
    os.makedirs(outdir, exist_ok=True)
    out = [HDR % ", ".join(FILES)]
    tg = targets(fns)
    fns_t, enums_t = load(repo, True)
    fns_f, enums_f = load(repo, False)
    tg += unit_targets(fns_t, fns_f)
    for t in tg:
        try:
            if t.get("dual"):
                terms = []
                for (fx, ex_, e) in ((fns_t, enums_t, t["entry"]), (fns_f, enums_f, t["entry_f"])):
                    if e is None:
                        terms.append('(EVar "%absent")')      # the function does not exist in this configuration: ill-typed
                        continue
                    em = rustmini.Emitter(fx, ex_, consts, t["self_type"])
                    terms.append(em.expr(rustmini.parse_fn(e["toks"])))
                term = "if chk c then\n    %s\n  else\n    %s" % (terms[0], terms[1])
            else:
                ast = rustmini.parse_fn(t["entry"]["toks"])
                em = rustmini.Emitter(fns, enums, consts, t["self_type"])
                term = em.expr(ast)
        except ParseError as ex:
            raise ParseError("%s: %s" % (t["what"], ex))
        out.append("(* %s *)\nDefinition %s (c : cfg) : @mexpr F :=\n  %s.\n" % (t["what"], t["name"], term))
    out.append("End GenOps.\n")
    txt = "\n".join(out)
    p = os.path.join(outdir, "GenOps.v")
    if not os.path.exists(p) or open(p).read() != txt:
        open(p, "w").write(txt)
    return tg


THM_HDR = """(* Theorems over the value-layer impl bodies translated from the source on every run (tools/gen_ops.py -> GenOps.v):
   for every impl / inherent function listed here and every operand, evaluating the translated body gives exactly what the
   operator table of Model/Prog.v gives for that impl's opcode (any carrier, any configuration; panics included).
   The list of impls is pinned by this file (written by `python3 tools/gen_ops.py --theorems`): an impl that disappears from
   the source makes the corresponding definition disappear from GenOps.v and this file fail. *)
From Coq Require Import ZArith List Bool String.
From RRTK Require Import Num.Num Model.Values Model.Prog Model.MiniRust Model.Combinators Model.Streams Proofs.MiniRustEmb.
From Gen Require Import GenOps.
Import ListNotations.
Local Open Scope string_scope.
Local Open Scope Z_scope.

Section OpsTable.
Context {F : Type} {NF : Num F}.
Variable c : cfg.
(* the functions whose bodies are selected by the dimension-check cfg (Proofs/MiniRustEmb.v unit_tac, extended to quantities and to
   the conversion Quantity -> Command) *)
Ltac unit_tac2 c :=
  destruct c as [[] ?]; intros; split_ops; repeat match goal with x : unit_ |- _ => destruct x end;
  repeat match goal with x : @quantity _ |- _ => destruct x as [? []] end;
  unfold run_val, run_self, run_unit, run_try, run_with; cbn;
  repeat (progress unfold uadd, usub, assert_ok, assert_not_ok, eq_assume_true, eq_assume_false, umul, udiv, unew, ueqb, unit_of_pd, pd_of_unit, c_of_q, bind; cbn [chk mm sec qu qv]);
  cbn;
  repeat (match goal with |- context [Z.eqb ?a ?b] => destruct (Z.eqb a b) end; cbn); try reflexivity.
"""


def theorems(tg):
    out = [THM_HDR]
    names = []
    for i, t in enumerate(tg):
        vs = ["x%d" % k for k in range(len(t["args"]))]
        binders = " ".join("(%s : %s)" % (v, TY[ty][0]) for v, (_, ty) in zip(vs, t["args"]))
        env = "; ".join('("%s", MV (%s %s))' % (pn, TY[ty][1], v) for v, (pn, ty) in zip(vs, t["args"]))
        ops = "; ".join("%s %s" % (TY[ty][1], v) for v, (_, ty) in zip(vs, t["args"]))
        thm = "ops_" + t["name"][2:]
        names.append(thm)
        proof = "unit_tac2 c." if t.get("dual") else "ops_tac."
        out.append("(* %s *)\nTheorem %s %s :\n  run_%s c (%s c) [%s] = apply_op c %d [%s].\nProof. %s Qed.\n"
                   % (t["what"], thm, binders, t["runner"], t["name"], env, t["opcode"], ops, proof))
    out.append("End OpsTable.\n")
    out += ["Print Assumptions %s." % n for n in names]
    return "\n".join(out) + "\n"


if __name__ == "__main__":
    import gen_constants
    repo = "/repo"
    outdir = "/verif/build/gen"
    args = [a for a in sys.argv[1:] if not a.startswith("--")]
    if args: repo = args[0]
    if len(args) > 1: outdir = args[1]
    items, _ = gen_constants.main(repo, outdir)
    tg = main(repo, outdir, {it[0]: (int(it[1]), int(it[2])) for it in items})
    print(len(tg), "functions translated")
    if "--theorems" in sys.argv:
        open("/verif/coq/gen_theorems/OpsTable.v", "w").write(theorems(tg))
        print("wrote coq/gen_theorems/OpsTable.v")
