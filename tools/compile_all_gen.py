# Self-validation helper: regenerate the tables and compile every coq/gen_theorems/*.v in parallel; prints one line per file (look for False).
import sys, os, time
sys.path.insert(0, "/verif/tools")
import common
from concurrent.futures import ThreadPoolExecutor
common.gen_sources()
names = [g[:-2] for g in sorted(os.listdir(os.path.join(common.COQ, "gen_theorems"))) if g.endswith(".v")]
if len(sys.argv) > 1: names = sys.argv[1:]
t0=time.time()
common.compile_gen_theorems(names[0])
def one(n):
    t=time.time(); ok,out=common.compile_gen_theorems(n); return n,ok,time.time()-t,out
with ThreadPoolExecutor(max_workers=12) as ex:
    for n,ok,dt,out in ex.map(one,names):
        print(n, ok, "%.0fs" % dt, "" if ok else out[-1500:], flush=True)
print("total %.0fs"%(time.time()-t0))
