#!/usr/bin/env python3
"""Parser for the Rust subset in which rrtk's stream / device bodies are written, and emitter of MiniRust terms
(coq/theories/Model/MiniRust.v).  Used by tools/gen_streams.py.

The parser is a plain recursive descent over tokens; anything it does not know raises ParseError (reported by the check,
never skipped).  The emitter maps
  * the crate's value-level constructors and conversions to opcodes of Model/Prog.v (the operator table tied to the
    crate's impls one by one by C01/C03/C14/C18),
  * `self.<getter>.borrow().get()` to the variable "get:<getter>" (what that getter returns at this moment),
  * control flow, patterns, `?`, `return`, struct literals, assignments to MiniRust's own constructs,
  * calls of other functions of the crate (reset(), evaluate(), AndState::none ...) by inlining their translated bodies.
"""
import re


class ParseError(Exception):
    pass


TOK = re.compile(r"""\s*(?:
    (//[^\n]*|/\*.*?\*/) |
    (\d[\d_]*\.\d[\d_]*(?:_?f32)?|\d[\d_]*(?:_?(?:i64|u16|usize|f32|u8|i8))?) |
    ('[a-z_]+\b(?!')) |
    ([A-Za-z_][A-Za-z0-9_]*) |
    (::|->|=>|<=|>=|==|!=|\+=|-=|\*=|/=|&&|\|\||\.\.|[-+*/<>=(){}\[\],;.&!:|?\#@%^~$]) |
    ("(?:[^"\\]|\\.)*")
)""", re.X | re.S)


def tokenize(s):
    out, i = [], 0
    n = len(s)
    while i < n:
        if s[i:].strip() == "":
            break
        m = TOK.match(s, i)
        if not m:
            raise ParseError("cannot tokenize at: %r" % s[i:i + 40])
        i = m.end()
        if m.group(1): continue
        if m.group(2): out.append(("num", m.group(2)))
        elif m.group(3): out.append(("life", m.group(3)))
        elif m.group(4): out.append(("id", m.group(4)))
        elif m.group(6): out.append(("str", m.group(6)))
        else: out.append(("op", m.group(5)))
    return out


# ----------------------------------------------------------------------------- item scanner
def skip_balanced(t, i, open_, close):
    """t[i] is open_; returns index just after the matching close"""
    depth = 0
    while i < len(t):
        if t[i][1] == open_ and t[i][0] == "op": depth += 1
        elif t[i][1] == close and t[i][0] == "op":
            depth -= 1
            if depth == 0:
                return i + 1
        i += 1
    raise ParseError("unbalanced %s" % open_)


def scan_items(t, i, end, fns, enums, mod=""):
    """collect fn bodies of every impl block between token indices i and end"""
    while i < end:
        k, v = t[i]
        if k == "op" and v == "#":                     # attribute
            i = skip_balanced(t, i + 1, "[", "]")
            continue
        if k == "id" and v == "mod" and t[i + 2][1] == "{":
            j = skip_balanced(t, i + 2, "{", "}")
            scan_items(t, i + 3, j - 1, fns, enums, mod + t[i + 1][1] + "::")
            i = j
            continue
        if k == "id" and v == "struct" and t[i + 1][0] == "id":
            name = t[i + 1][1]
            # attributes in front of the item: does it derive Default?
            b = i - 1
            while b >= 0 and t[b][1] in ("pub",): b -= 1
            while b >= 0 and t[b][1] == "]":
                a = b; d = 0
                while a >= 0:
                    if t[a][1] == "]": d += 1
                    elif t[a][1] == "[":
                        d -= 1
                        if d == 0: break
                    a -= 1
                inside = [q[1] for q in t[a:b]]
                if "derive" in inside and "Default" in inside:
                    enums.setdefault("__derive_default__", set()).add(name)
                b = a - 2 if a >= 1 and t[a - 1][1] == "#" else -1
            j = i + 2; depth = 0
            while not (t[j][1] in ("{", ";", "(") and depth == 0):
                if t[j][1] == "<": depth += 1
                elif t[j][1] == ">": depth -= 1
                j += 1
            if t[j][1] == "{":
                e = skip_balanced(t, j, "{", "}")
                fields = {}
                x = j + 1
                while x < e - 1:
                    if t[x][0] == "op" and t[x][1] == "#":
                        x = skip_balanced(t, x + 1, "[", "]"); continue
                    if t[x][0] == "id" and t[x][1] == "pub":
                        x += 1
                        if t[x][1] == "(": x = skip_balanced(t, x, "(", ")")
                        continue
                    if t[x][0] == "id" and t[x + 1][1] == ":":
                        fname = t[x][1]; y = x + 2; d = 0; ids = []
                        if t[y][1] == "[":
                            # an array type [Elem; N]: recorded as "[<innermost known element type>]"
                            z = skip_balanced(t, y, "[", "]")
                            inner = [q[1] for q in t[y + 1:z - 1] if q[0] == "id" and q[1] not in ("dyn", "mut", "RefCell", "Option", "Reference", "core", "cell", "crate", "mem", "MaybeUninit")]
                            cut = [q for q in inner]
                            semi = [n for n, q in enumerate(t[y + 1:z - 1]) if q[1] == ";"]
                            if semi:
                                cut = [q[1] for q in t[y + 1:y + 1 + semi[-1]] if q[0] == "id" and q[1] not in ("dyn", "mut", "RefCell", "Option", "Reference", "core", "cell", "crate", "mem", "MaybeUninit")]
                            if cut: fields[fname] = "[%s]" % cut[0]
                            y = z
                            while y < e - 1 and t[y][1] != ",": y += 1
                            x = y + 1
                            continue
                        while y < e - 1 and not (t[y][1] == "," and d == 0):
                            if t[y][1] in ("<", "(", "["): d += 1
                            elif t[y][1] in (">", ")", "]"): d -= 1
                            elif t[y][0] == "id" and d == 0: ids.append(t[y][1])
                            elif t[y][0] == "id" and d == 1 and ids and ids[-1] in ("RefCell", "Option", "Reference"): ids.append(t[y][1])
                            y += 1
                        ids = [q for q in ids if q not in ("dyn", "mut", "RefCell", "Option", "Reference", "core", "cell", "streams", "converters", "crate")]
                        if ids: fields[fname] = ids[-1]
                        x = y + 1
                        continue
                    x += 1
                enums.setdefault("__structs__", {})[name] = fields
                i = e
                continue
        if k == "id" and v == "enum":
            name = t[i + 1][1]
            j = i + 2
            while t[j][1] != "{": j += 1
            e = skip_balanced(t, j, "{", "}")
            variants = [t[x][1] for x in range(j + 1, e - 1) if t[x][0] == "id" and t[x - 1][1] in ("{", ",")]
            enums[name] = variants
            i = e
            continue
        if k == "id" and v == "trait":
            name = t[i + 1][1]
            j, depth = i + 2, 0
            while True:
                if t[j][1] == "<": depth += 1
                elif t[j][1] == ">": depth -= 1
                elif t[j][1] == "{" and depth == 0: break
                j += 1
            e = skip_balanced(t, j, "{", "}")
            scan_fns(t, j + 1, e - 1, fns, "trait:" + name, None)
            i = e
            continue
        if k == "id" and v == "impl":
            # header up to the opening brace at angle depth 0
            j, depth = i + 1, 0
            while True:
                if t[j][1] == "<": depth += 1
                elif t[j][1] == ">": depth -= 1
                elif t[j][1] == "{" and depth == 0: break
                j += 1
            hdr = t[i + 1:j]
            e = skip_balanced(t, j, "{", "}")
            # generic parameter names
            params, p = set(), 0
            if hdr and hdr[0][1] == "<":
                d, p = 0, 0
                while True:
                    if hdr[p][1] == "<": d += 1
                    elif hdr[p][1] == ">":
                        d -= 1
                        if d == 0: break
                    elif d == 1 and hdr[p][0] == "id" and hdr[p - 1][1] in ("<", ",") :
                        if hdr[p][1] == "const":
                            params.add(hdr[p + 1][1])
                        else:
                            params.add(hdr[p][1])
                    p += 1
                p += 1
            rest = hdr[p:]
            d, f = 0, None
            for x, (kk, vv) in enumerate(rest):
                if vv == "<": d += 1
                elif vv == ">": d -= 1
                elif vv == "for" and d == 0: f = x
            trait = rest[0][1] if f is not None else None
            targs = []
            if f is not None and f > 1 and rest[1][1] == "<":
                targs = [vv for kk, vv in rest[2:f - 1] if kk == "id"]
            ty = rest[f + 1:] if f is not None else rest
            if ty and ty[0][1] == "&": ty = ty[1:]
            tname = ty[0][1]
            conc = []
            if len(ty) > 1 and ty[1][1] == "<":
                d = 0
                for x in range(1, len(ty)):
                    if ty[x][1] == "<": d += 1
                    elif ty[x][1] == ">": d -= 1
                    elif d == 1 and ty[x][0] == "id" and ty[x - 1][1] in ("<", ",") and ty[x][1] not in params and ty[x + 1][1] in (",", ">"):
                        conc.append(ty[x][1])
            key = tname + ("<" + ",".join(conc) + ">" if conc else "")
            scan_fns(t, j + 1, e - 1, fns, key, trait, targs)
            i = e
            continue
        if k == "op" and v == "{":
            i = skip_balanced(t, i, "{", "}")
            continue
        i += 1


def scan_fns(t, i, end, fns, key, trait, targs=()):
    while i < end:
        k, v = t[i]
        if k == "op" and v == "#":
            i = skip_balanced(t, i + 1, "[", "]")
            continue
        if k == "id" and v == "fn":
            name = t[i + 1][1]
            j = i + 2
            while t[j][1] != "(": j += 1
            pe = skip_balanced(t, j, "(", ")")
            ptoks = t[j + 1:pe - 1]
            # parameter names: identifiers followed by ':' at depth 0
            params, d = [], 0
            for x, (kk, vv) in enumerate(ptoks):
                if vv in ("<", "(", "["): d += 1
                elif vv in (">", ")", "]"): d -= 1
                elif d == 0 and kk == "id" and x + 1 < len(ptoks) and ptoks[x + 1][1] == ":" and vv not in ("mut",):
                    params.append(vv)
            b = pe
            while t[b][1] not in ("{", ";"): b += 1
            if t[b][1] == ";":
                i = b + 1
                continue
            e = skip_balanced(t, b, "{", "}")
            fns.setdefault((key, name), []).append({"trait": trait, "targs": list(targs), "params": params, "toks": t[b:e], "self_mut": any(vv == "mut" for kk, vv in ptoks[:3])})
            i = e
            continue
        if k == "op" and v == "{":
            i = skip_balanced(t, i, "{", "}")
            continue
        i += 1


# ----------------------------------------------------------------------------- expression / statement parser
class P:
    def __init__(self, toks):
        self.t, self.i = toks, 0
    def peek(self, k=0):
        return self.t[self.i + k] if self.i + k < len(self.t) else (None, None)
    def at(self, v, k=0):
        return self.peek(k)[1] == v and self.peek(k)[0] != "str"
    def eat(self, v=None):
        kind, val = self.peek()
        if kind is None:
            raise ParseError("unexpected end of the function body (token %d)" % self.i)
        if v is not None and val != v:
            raise ParseError("expected %r, got %r (token %d: ...%s)" % (v, val, self.i, " ".join(x[1] for x in self.t[max(0, self.i - 6):self.i + 3])))
        self.i += 1
        return kind, val

    # ---- blocks and statements
    def block(self):
        self.eat("{")
        stmts, tail = [], None
        while not self.at("}"):
            if self.at(";"):
                self.eat(";"); continue
            if self.at("#"):
                # an attribute on a statement: only the verification hook's own cfg is understood (its statement is
                # compiled out in every build the properties are about); any other attribute selects code by configuration
                self.eat("#"); self.eat("[")
                toks = []
                depth = 1
                while depth:
                    k, v = self.eat()
                    if v == "[": depth += 1
                    elif v == "]": depth -= 1
                    if depth: toks.append(v)
                if toks != ["cfg", "(", "rrtk_verif", ")"]:
                    raise ParseError("attribute #[%s] on a statement" % " ".join(toks))
                save = (stmts[:], tail)
                # parse and drop the next statement
                if self.at("unsafe") or self.at("{"):
                    if self.at("unsafe"): self.eat("unsafe")
                    self.block()
                else:
                    self.expr()
                    if self.at(";"): self.eat(";")
                continue
            if self.at("let"):
                self.eat("let")
                p = self.pattern()
                tyids = []
                if self.at(":"):
                    self.eat(":"); a0 = self.i; self.skip_type(); tyids = [vv for kk, vv in self.t[a0:self.i] if kk == "id"]
                self.eat("="); e = self.expr(); self.eat(";")
                stmts.append(("let", p, e, tyids))
                continue
            if self.at("for"):
                self.eat("for"); _, x = self.eat(); self.eat("in"); coll = self.expr(nostruct=True)
                if self.at(".."):
                    self.eat(".."); hi = self.expr(nostruct=True); coll = ("range", coll, hi)
                body = self.block()
                stmts.append(("expr", ("for", x, coll, body)))
                continue
            if self.at("while"):
                self.eat("while"); cnd = self.expr(nostruct=True); body = self.block()
                stmts.append(("expr", ("while", cnd, body)))
                continue
            if (self.at("if") or self.at("match") or (self.at("unsafe") and self.at("{", 1))) and self.peek()[0] == "id":
                # a block-like expression statement ends at its closing brace (`if .. {} *self = ..` is two statements)
                e = self.primary(False)
                if self.at("}"):
                    tail = e
                else:
                    if self.at(";"): self.eat(";")
                    stmts.append(("expr", e))
                continue
            e = self.expr()
            if self.at("=") or self.peek()[1] in ("+=", "-=", "*=", "/="):
                op = self.eat()[1]; r = self.expr()
                e = ("assign", e, r) if op == "=" else ("opassign", op[0], e, r)
            if self.at(";"):
                self.eat(";"); stmts.append(("expr", e))
            elif self.at("}"):
                tail = e
            elif e[0] in ("match", "if", "block", "for", "while"):
                stmts.append(("expr", e))
            else:
                raise ParseError("expected ; or } after expression, got %r" % (self.peek(),))
        self.eat("}")
        return ("block", stmts, tail)

    def skip_type(self):
        d = 0
        while True:
            v = self.peek()[1]
            if v in ("<", "(", "["): d += 1
            elif v in (">", ")", "]"): d -= 1
            elif v in ("=", ";", ",") and d == 0: return
            self.eat()

    # ---- patterns
    def pattern(self):
        p = self.pattern1()
        if self.at("|"):
            alts = [p]
            while self.at("|"):
                self.eat("|"); alts.append(self.pattern1())
            return ("por", alts)
        return p
    def pattern1(self):
        if self.at("&"): self.eat("&"); return self.pattern1()
        if self.at("mut"): self.eat("mut"); return self.pattern1()
        if self.at("ref"): self.eat("ref"); return self.pattern1()
        if self.at("_"): self.eat(); return ("pwild",)
        if self.at("("):
            self.eat("(")
            if self.at(")"):
                self.eat(")"); return ("punit",)
            ps = []
            while not self.at(")"):
                ps.append(self.pattern())
                if self.at(","): self.eat(",")
            self.eat(")"); return ("ptuple", ps)
        if self.peek()[0] == "num":
            return ("pint", self.eat()[1])
        if self.at("["):
            self.eat("["); ps = []
            while not self.at("]"):
                ps.append(self.pattern())
                if self.at(","): self.eat(",")
            self.eat("]"); return ("parr", ps)
        k, v = self.eat()
        if k != "id": raise ParseError("pattern: unexpected %r" % v)
        if v in ("true", "false"): return ("pbool", v == "true")
        path = [v]
        while self.at("::"):
            self.eat("::"); path.append(self.eat()[1])
        if self.at("("):
            self.eat("("); ps = []
            while not self.at(")"):
                ps.append(self.pattern())
                if self.at(","): self.eat(",")
            self.eat(")")
            return ("pts", path, ps)
        if len(path) == 1 and (path[0][0].islower() or path[0][0] == "_"):
            return ("pvar", path[0])
        return ("ppath", path)

    # ---- expressions (precedence climbing)
    def expr(self, nostruct=False):
        if self.at("return"):
            self.eat("return")
            if self.at(";") or self.at("}") or self.at(","):
                return ("return", None)
            return ("return", self.expr(nostruct))
        return self.or_(nostruct)
    def or_(self, ns):
        l = self.and_(ns)
        while self.at("||"):
            self.eat(); r = self.and_(ns); l = ("bin", "||", l, r)
        return l
    def and_(self, ns):
        l = self.cmp(ns)
        while self.at("&&"):
            self.eat(); r = self.cmp(ns); l = ("bin", "&&", l, r)
        return l
    def cmp(self, ns):
        l = self.arith(ns)
        if self.peek()[1] in ("<", "<=", ">", ">=", "==", "!=") and self.peek()[0] == "op":
            o = self.eat()[1]; r = self.arith(ns); l = ("bin", o, l, r)
        return l
    def arith(self, ns):
        l = self.term(ns)
        while self.peek()[1] in ("+", "-") and self.peek()[0] == "op":
            o = self.eat()[1]; r = self.term(ns); l = ("bin", o, l, r)
        return l
    def term(self, ns):
        l = self.unary(ns)
        while self.peek()[1] in ("*", "/", "%") and self.peek()[0] == "op":
            o = self.eat()[1]; r = self.unary(ns); l = ("bin", o, l, r)
        return l
    def unary(self, ns):
        if self.at("-"): self.eat(); return ("unary", "-", self.unary(ns))
        if self.at("!"): self.eat(); return ("unary", "!", self.unary(ns))
        if self.at("*"): self.eat(); return ("unary", "*", self.unary(ns))
        if self.at("&"):
            self.eat()
            if self.at("mut"): self.eat()
            return ("unary", "&", self.unary(ns))
        return self.postfix(ns)
    def args(self):
        self.eat("("); a = []
        while not self.at(")"):
            a.append(self.expr())
            if self.at(","): self.eat(",")
        self.eat(")")
        return a
    def postfix(self, ns):
        e = self.postfix0(ns)
        while self.at("as") and self.peek()[0] == "id":
            self.eat("as"); _, ty = self.eat()
            e = ("cast", e, ty)
        return e
    def postfix0(self, ns):
        e = self.primary(ns)
        while True:
            if self.at("."):
                self.eat("."); k, name = self.eat()
                if k == "num":
                    e = ("field", e, name); continue
                if self.at("::"):      # turbofish: the type arguments are skipped (they select nothing the embedding distinguishes)
                    self.eat("::"); self.eat("<"); depth = 1
                    while depth:
                        kk, vv = self.eat()
                        if vv == "<": depth += 1
                        elif vv == ">": depth -= 1
                if self.at("("):
                    e = ("mcall", e, name, self.args())
                else:
                    e = ("field", e, name)
            elif self.at("?"):
                self.eat(); e = ("try", e)
            elif self.at("["):
                self.eat("["); ix = self.expr(); self.eat("]"); e = ("index", e, ix)
            elif self.at("("):
                e = ("call", e, self.args())
            else:
                return e
    def primary(self, ns):
        k, v = self.peek()
        if k == "num":
            self.eat(); return ("num", v)
        if k == "str":
            self.eat(); return ("str", v)
        if v == "(":
            self.eat("(")
            if self.at(")"):
                self.eat(")"); return ("tuple0",)
            e = self.expr()
            if self.at(","):
                es = [e]
                while self.at(","):
                    self.eat(",")
                    if self.at(")"): break
                    es.append(self.expr())
                self.eat(")"); return ("array", es)       # a tuple: matched by tuple patterns the way arrays are
            self.eat(")"); return ("paren", e)
        if v == "[":
            self.eat("["); es = []
            while not self.at("]"):
                es.append(self.expr())
                if self.at(";") and len(es) == 1:
                    self.eat(";"); n = self.expr(); self.eat("]")
                    return ("arrayrep", es[0], n)
                if self.at(","): self.eat(",")
            self.eat("]"); return ("array", es)
        if v in ("unsafe", "const") and self.peek(1)[1] == "{":
            self.eat(v); return self.block()
        if v == "{":
            return self.block()
        if v == "<" and k == "op":
            # <Type as Trait<Args>>::method : the ids between the brackets select the impl
            self.eat("<"); depth = 1; ids = []
            while depth:
                kk, vv = self.eat()
                if vv == "<": depth += 1
                elif vv == ">": depth -= 1
                elif kk == "id": ids.append(vv)
            self.eat("::"); _, name = self.eat()
            return ("ufcs", ids, name)
        if v == "match":
            self.eat(); scrut = self.expr(nostruct=True); self.eat("{"); arms = []
            while not self.at("}"):
                p = self.pattern(); self.eat("=>")
                body = self.expr()
                if body[0] == "block" or self.at(","):
                    if self.at(","): self.eat(",")
                elif (self.at("=") or self.peek()[1] in ("+=", "-=", "*=", "/=")):
                    op = self.eat()[1]; r = self.expr()
                    body = ("assign", body, r) if op == "=" else ("opassign", op[0], body, r)
                    if self.at(","): self.eat(",")
                arms.append((p, body))
            self.eat("}")
            return ("match", scrut, arms)
        if v == "if" and self.peek(1)[1] == "let":
            self.eat("if"); self.eat("let"); p = self.pattern(); self.eat("="); scrut = self.expr(nostruct=True)
            th = self.block(); el = ("tuple0",)
            if self.at("else"):
                self.eat("else"); el = self.primary(ns) if self.at("if") else self.block()
            return ("match", scrut, [(p, th), (("pwild",), el)])
        if v == "if":
            self.eat(); c = self.expr(nostruct=True); th = self.block(); el = None
            if self.at("else"):
                self.eat("else")
                el = self.primary(ns) if self.at("if") else self.block()
            return ("if", c, th, el)
        if k == "id":
            if v in ("true", "false"):
                self.eat(); return ("bool", v == "true")
            path = [self.eat()[1]]
            while self.at("::"):
                self.eat("::")
                if self.at("<"):
                    raise ParseError("generic path")
                path.append(self.eat()[1])
            if self.at("!"):
                self.eat("!"); a = self.args(); return ("macro", path[-1], a)
            if self.at("{") and not ns and path[-1][0].isupper():
                self.eat("{"); fs = []
                while not self.at("}"):
                    _, f = self.eat()
                    if self.at(":"):
                        self.eat(":"); fe = self.expr()
                    else:
                        fe = ("path", [f])
                    fs.append((f, fe))
                    if self.at(","): self.eat(",")
                self.eat("}")
                return ("struct", path, fs)
            return ("path", path)
        raise ParseError("unexpected token %r" % (v,))


def parse_fn(toks):
    p = P(toks)
    b = p.block()
    if p.i != len(toks):
        raise ParseError("trailing tokens after function body")
    return b


# ----------------------------------------------------------------------------- emitter
OPS = {"+": 1, "-": 2, "*": 3, "/": 4}
CMP = {"<": 0, "<=": 1, ">": 2, ">=": 3, "==": 4, "!=": 5}
PD = {"Position": "Position", "Velocity": "Velocity", "Acceleration": "Acceleration"}
CTOR_OPS = {("f32", "from"): 23, ("Quantity", "from"): 20, ("Quantity", "dimensionless"): 33, ("Quantity", "new"): 32,
            ("Datum", "new"): 37, ("State", "new"): 35, ("State", "new_raw"): 36, ("Command", "new"): 31,
            ("Command", "from"): 30, ("Time", "from"): 25, ("i64", "from"): 24, ("PositionDerivative", "from"): 28}
METHOD_OPS = {"get_value": 60, "get_position": 57, "get_velocity": 58, "get_acceleration": 59, "abs": 11}


DIM_P = 'any(feature="dim_check_release",all(debug_assertions,feature="dim_check_debug"))'


def strip_cfg(t, chk):
    """Remove the items / statements / struct-literal fields whose `#[cfg(..)]` attribute is false when dimension checking is
    `chk`, and the attribute itself where it is true.  Only the crate's one dimension-check predicate (and its negation) is
    decided; every other attribute is left in place.  (coq/gen_theorems/C19Features.v proves that this cfg expression is the
    model's `chk` flag.)"""
    out = []
    i = 0
    n = len(t)
    while i < n:
        if t[i][1] == "#" and i + 2 < n and t[i + 1][1] == "[" and t[i + 2][1] == "cfg":
            e = skip_balanced(t, i + 1, "[", "]")
            txt = "".join(q[1] for q in t[i + 4:e - 2])
            if txt == DIM_P: keep = chk
            elif txt == "not(" + DIM_P + ")": keep = not chk
            else:
                out += t[i:e]; i = e; continue
            if keep:
                i = e; continue
            # skip further attributes, then the item / statement / field the attribute applies to
            j = e
            while j < n and t[j][1] == "#" and t[j + 1][1] == "[":
                j = skip_balanced(t, j + 1, "[", "]")
            k = j
            while k < n and t[k][1] in ("pub", "const", "unsafe"): k += 1
            if k < n and t[k][1] in ("fn", "impl", "struct", "enum", "trait", "mod", "use", "type", "static"):
                # an item: up to the end of its body (or its semicolon)
                b = k
                while t[b][1] not in ("{", ";"): b += 1
                j = skip_balanced(t, b, "{", "}") if t[b][1] == "{" else b + 1
            else:
                d = 0
                while j < n:
                    v = t[j][1]
                    if v in ("(", "[", "{"): d += 1
                    elif v in (")", "]", "}"):
                        if d == 0: break
                        d -= 1
                    elif v in (",", ";") and d == 0:
                        j += 1; break
                    j += 1
            i = j
            continue
        out.append(t[i]); i += 1
    return out


def qs(s):
    return '"%s"' % s


class Emitter:
    def __init__(self, fns, enums, consts, self_key):
        self.fns, self.enums, self.consts, self.self_key = fns, enums, consts, self_key
        self.self_type = self_key.split("<")[0] if self_key else None
        self.tmp = 0
        self.depth = 0
        self.inputs = set()
        self.reads_as_inputs = False
        self.const_generics = {}      # const generic parameter -> the expression that gives its value (the length of an array argument)
        self.used = []                # the functions whose bodies were inlined into this translation (for the inventory)
        self.vec_index = False        # `a[i]` indexes a Vec / VecDeque (EAt) rather than a fixed array of MaybeUninit slots (EIndex)
        self.t_default = None         # what `T::default()` is for the instantiation of a generic impl that is being translated
        self.ext_fields = {}          # field of self holding an object of a generic type (an inner getter / settable): field -> payload kind
        self.default_read_kind = None # the payload kind of an un-annotated read of the device's own terminal (wrappers: TerminalData)
        self.kinds = {}               # local variable -> "State" / "Command": which Terminal impl a get / set on it means
        self.expected_kind = None
        self.dispatch = None          # e.g. "State": which of several impls of one trait for the same type is meant
        self.int_vars = set()         # locals initialised with an integer literal: usize counters
        self.array_input = None       # the field iterated by `for _ in &self.<field>`: its length is the const generic N

    def fresh(self, base="t"):
        self.tmp += 1
        return "%%%s%d" % (base, self.tmp)

    def lit_f(self, txt):
        txt = txt.replace("_f32", "").replace("f32", "").replace("_", "")
        if txt == "0.5":
            return "(ELit (VF fhalf))"
        if re.fullmatch(r"\d+\.0+", txt):
            return "(ELit (VF (f_of_Z %d)))" % int(txt.split(".")[0])
        raise ParseError("float literal %s is not an integer or 0.5" % txt)

    def res(self, path):
        """`Self` in a path is the impl's type"""
        if path and path[0] == "Self" and self.self_type:
            return [self.self_type] + list(path[1:])
        return list(path)

    def is_int(self, e):
        """an i64-typed expression: the field of Time / DimensionlessInteger and arithmetic on it"""
        k = e[0]
        if k == "field": return e[2] == "0"
        if k == "paren": return self.is_int(e[1])
        if k == "unary" and e[1] in ("-", "*", "&"): return self.is_int(e[2])
        if k == "bin" and e[1] in OPS: return self.is_int(e[2]) and self.is_int(e[3])
        return False

    def kind_of(self, e):
        """the payload kind (State / Command) of the first local with a known kind in an expression"""
        if isinstance(e, tuple):
            if e and e[0] == "path" and len(e[1]) == 1 and self.kinds.get(e[1][0]) in ("State", "Command", "TerminalData"):
                return self.kinds[e[1][0]]
            if e and e[0] == "call" and e[1][0] == "path" and len(e[1][1]) == 2 and e[1][1][0] in ("State", "Command") and e[1][1][1] in ("default", "new", "new_raw"):
                return e[1][1][0]
            if e and e[0] == "mcall" and e[2] == "get" and not e[3] and e[1][0] == "field" and e[1][1] == ("path", ["self"]) \
                    and e[1][2] in self.ext_fields:
                return self.ext_fields[e[1][2]]
            for y in e:
                r = self.kind_of(y)
                if r: return r
        elif isinstance(e, list):
            for y in e:
                r = self.kind_of(y)
                if r: return r
        return None

    def bind_kinds(self, p, kind):
        if not kind or not isinstance(p, tuple): return
        if p[0] == "pvar": self.kinds[p[1]] = kind
        for y in p[1:]:
            if isinstance(y, list):
                for z in y: self.bind_kinds(z, kind)
            elif isinstance(y, tuple): self.bind_kinds(y, kind)

    def has_self_get(self, e):
        if isinstance(e, tuple):
            if e and e[0] == "mcall" and e[2] == "get" and not e[3] and e[1] == ("path", ["self"]):
                return True
            return any(self.has_self_get(y) for y in e)
        if isinstance(e, list):
            return any(self.has_self_get(y) for y in e)
        return False

    def is_terminal(self, x):
        if x[0] == "field" and x[1] == ("path", ["self"]):
            st = self.enums.get("__structs__", {}).get((self.self_key or "").split("<")[0], {})
            return st.get(x[2]) == "Terminal"
        return x[0] == "path" and len(x[1]) == 1 and self.kinds.get(x[1][0]) == "Terminal"

    def is_usize(self, e):
        k = e[0]
        if k == "num": return "." not in e[1]
        if k == "path": return len(e[1]) == 1 and (e[1][0] in self.int_vars or e[1][0] in self.const_generics)
        if k == "paren": return self.is_usize(e[1])
        if k == "bin" and e[1] in ("+", "-", "%"): return self.is_usize(e[2]) and self.is_usize(e[3])
        if k == "mcall" and e[2] == "len" and not e[3]: return True
        if k == "path" and len(e[1]) == 1 and e[1][0] in self.const_generics: return True
        return False

    def is_exp_field(self, e):
        return e[0] == "field" and e[2] in ("millimeter_exp", "second_exp")

    def find_array_input(self, ast):
        if isinstance(ast, tuple):
            if ast and ast[0] == "for":
                x = ast[2]
                while isinstance(x, tuple) and x[0] in ("unary", "paren"):
                    x = x[2] if x[0] == "unary" else x[1]
                if isinstance(x, tuple) and x[0] == "field" and x[1] == ("path", ["self"]):
                    return x[2]
            for y in ast:
                r = self.find_array_input(y)
                if r: return r
        elif isinstance(ast, list):
            for y in ast:
                r = self.find_array_input(y)
                if r: return r
        return None

    def lst(self, items):
        return "[" + "; ".join(items) + "]"

    # ---- patterns
    def pat(self, p):
        k = p[0]
        if k == "pwild": return "PWild"
        if k == "pvar": return "(PVar %s)" % qs(p[1])
        if k == "punit": return "PUnit"
        if k == "pbool": return "(PBool %s)" % ("true" if p[1] else "false")
        if k == "parr": return "(PArr %s)" % self.lst([self.pat(x) for x in p[1]])
        if k == "ptuple": return "(PArr %s)" % self.lst([self.pat(x) for x in p[1]])
        if k == "pint": return "(PInt %d)" % int(re.sub(r"_?(usize|u16|i64|u8|i8)$", "", p[1]).replace("_", ""))
        if k == "por": return "(POr %s)" % self.lst([self.pat(x) for x in p[1]])
        if k == "pts":
            name = p[1][-1]
            if name in ("Ok", "Err", "Some") and len(p[2]) == 1:
                return "(P%s %s)" % (name, self.pat(p[2][0]))
            rp = self.res(p[1])
            if len(rp) == 2 and rp[0] == "Command" and rp[1] in PD and len(p[2]) == 1:
                return "(PCmd %s %s)" % (PD[rp[1]], self.pat(p[2][0]))
            raise ParseError("tuple-struct pattern %s" % "::".join(p[1]))
        if k == "ppath":
            path = p[1]
            if path == ["None"]: return "PNone"
            if len(path) == 1 and path[0] in self.consts:
                a, b = self.consts[path[0]]
                return "(PUnitC (%d) (%d))" % (a, b)
            if len(path) == 2 and path[0] == "PositionDerivative": return "(PPD %s)" % PD[path[1]]
            if len(path) == 2 and path[0] in self.enums: return "(PVariant %s)" % qs("::".join(path))
            raise ParseError("path pattern %s" % "::".join(path))
        raise ParseError("pattern %r" % (p,))

    # ---- lvalues
    def lval(self, e):
        if e[0] == "path" and len(e[1]) == 1: return "(LVar %s)" % qs(e[1][0])
        if e[0] == "field": return "(LField %s %s)" % (self.lval(e[1]), qs(e[2]))
        if e[0] == "unary" and e[1] in ("*", "&"): return self.lval(e[2])
        if e[0] == "paren": return self.lval(e[1])
        raise ParseError("unsupported assignment target %r" % (e[:2],))

    # ---- inlined calls
    def find_fn(self, name, nargs, hint=None):
        cands = []
        for (key, fname), lst in self.fns.items():
            if fname != name: continue
            for f in lst:
                if len(f["params"]) == nargs:
                    cands.append((key, f))
        if hint:
            h = [c for c in cands if c[0].split("<")[0].lower() == hint.replace("_", "").lower() or c[0] == hint]
            if h: cands = h
        if len(cands) > 1 and self.dispatch:
            d = [c for c in cands if self.dispatch in c[1].get("targs", [])]
            if d: cands = d
        if len(cands) == 1:
            return cands[0]
        # identical token streams are the same function for our purposes
        if cands and all(c[1]["toks"] == cands[0][1]["toks"] for c in cands):
            return cands[0]
        raise ParseError("cannot resolve call of %s/%d (%d candidates%s)" % (name, nargs, len(cands), ", hint " + hint if hint else ""))

    def subst_self(self, ast, repl):
        """replace the identifier `self` by the expression repl (mutating call on a local / on self)"""
        if isinstance(ast, tuple):
            if ast[0] == "path" and ast[1] == ["self"]:
                return repl
            return tuple(self.subst_self(x, repl) for x in ast)
        if isinstance(ast, list):
            return [self.subst_self(x, repl) for x in ast]
        return ast

    def inline_pure(self, recv, key_f, args):
        key, f = key_f
        self.used.append(f)
        if self.depth > 6: raise ParseError("inlining too deep")
        self.depth += 1
        body = parse_fn(f["toks"])
        r = self.fresh("r"); tmps = [self.fresh("a") for _ in args]
        # a trait's default method runs on the implementor: keep the caller's type (and impl selection) for calls on self
        sub = Emitter(self.fns, self.enums, self.consts, self.self_key if key.startswith("trait:") else key)
        sub.dispatch = self.dispatch
        sub.tmp = self.tmp + 100 * self.depth; sub.depth = self.depth
        inner = "(ECatch %s)" % sub.expr(body)
        self.inputs |= sub.inputs
        self.used += sub.used
        for pname, tname in reversed(list(zip(f["params"], tmps))):
            inner = "(ELet (PVar %s) (EVar %s) %s)" % (qs(pname), qs(tname), inner)
        inner = "(ELet (PVar %s) (EVar %s) %s)" % (qs("self"), qs(r), inner)
        for a, tname in reversed(list(zip(args, tmps))):
            inner = "(ELet (PVar %s) %s %s)" % (qs(tname), self.expr(a), inner)
        inner = "(ELet (PVar %s) %s %s)" % (qs(r), self.expr(recv), inner)
        self.depth -= 1
        return inner

    def inline_mut(self, recv, key_f, args):
        """a &mut self method called on self or on a local: the body with `self` replaced by the receiver"""
        key, f = key_f
        self.used.append(f)
        if self.depth > 6: raise ParseError("inlining too deep")
        self.depth += 1
        body = self.subst_self(parse_fn(f["toks"]), recv)
        out = "(ECatch %s)" % self.expr(body)
        # parameters: evaluated in the caller's scope, bound for the callee's body only
        tmps = [self.fresh("a") for _ in args]
        for pname, tname in reversed(list(zip(f["params"], tmps))):
            out = "(ELet (PVar %s) (EVar %s) %s)" % (qs(pname), qs(tname), out)
        for a, tname in reversed(list(zip(args, tmps))):
            out = "(ELet (PVar %s) %s %s)" % (qs(tname), self.expr(a), out)
        self.depth -= 1
        return out

    def subst_ident(self, ast, name, repl):
        if isinstance(ast, tuple):
            if ast[0] == "path" and ast[1] == [name]:
                return repl
            return tuple(self.subst_ident(x, name, repl) for x in ast)
        if isinstance(ast, list):
            return [self.subst_ident(x, name, repl) for x in ast]
        return ast

    def hint_for(self, recv):
        """the type on which a method call is resolved: the declared type of a field of self, self's own type, or a local's name"""
        if recv[0] == "field" and recv[1] == ("path", ["self"]):
            st = self.enums.get("__structs__", {}).get((self.self_key or "").split("<")[0], {})
            return st.get(recv[2])
        if recv == ("path", ["self"]):
            return self.self_key
        if recv[0] == "path" and len(recv[1]) == 1:
            return "Terminal" if self.kinds.get(recv[1][0]) == "Terminal" else recv[1][0]
        return None

    def alias_place(self, e):
        """`let x = recv.f()` where f's body is just `&self.a.b` / `&mut self.a.b`: x is an alias of that place"""
        if e[0] != "mcall" or e[3]:
            return None
        recv, name = e[1], e[2]
        while recv[0] == "mcall" and recv[2] in ("borrow", "borrow_mut") and not recv[3]:
            recv = recv[1]
        try:
            kf = self.find_fn(name, 0, self.hint_for(recv))
        except ParseError:
            if name.endswith("_ref") or name.endswith("_mut"):
                raise           # an accessor returning a reference must be resolved: a copy would lose writes through it
            return None
        body = parse_fn(kf[1]["toks"])
        self.used.append(kf[1])
        if body[1] or body[2] is None or body[2][0] != "unary" or body[2][1] != "&":
            return None
        x = body[2][2]
        y = x
        while y[0] == "field":
            y = y[1]
        if y != ("path", ["self"]):
            return None
        return self.subst_self(x, recv)

    # ---- expressions
    def expr(self, e):
        k = e[0]
        if k == "paren": return self.expr(e[1])
        if k == "num":
            if "." in e[1]: return self.lit_f(e[1])
            return "(ELit (VI %d))" % int(re.sub(r"_?(usize|u16|i64|u8|i8)$", "", e[1]).replace("_", ""))
        if k == "index":
            return "(%s %s %s)" % ("EAt" if self.vec_index else "EIndex", self.expr(e[1]), self.expr(e[2]))
        if k == "arrayrep":
            x = e[1]
            if x[0] == "block" and not x[1] and x[2] is not None: x = x[2]        # [const { MaybeUninit::uninit() }; N]
            if x[0] == "call" and x[1][0] == "path" and x[1][1][-2:] == ["MaybeUninit", "uninit"] and not x[2]:
                n = e[2]
                if n[0] == "path" and len(n[1]) == 1 and n[1][0] in self.const_generics:
                    return "(EArrUninit %s)" % self.const_generics[n[1][0]]
                if n == ("path", ["N"]):
                    if not self.array_input: raise ParseError("const generic N without an iterated array field")
                    self.inputs.add(self.array_input)
                    return "(EArrUninit (ELen (EVar %s)))" % qs("get:" + self.array_input)
                return "(EArrUninit %s)" % self.expr(n)
            raise ParseError("array repeat expression")
        if k == "bool": return "(ELit (VB %s))" % ("true" if e[1] else "false")
        if k == "cast":
            if e[2] == "f32": return "(ECast true %s)" % self.expr(e[1])
            if e[2] == "i64": return "(ECast false %s)" % self.expr(e[1])
            raise ParseError("cast to %s" % e[2])
        if k == "tuple0": return "EUnit"
        if k == "path":
            path = self.res(e[1])
            if path == ["None"]: return "ENone"
            if path == ["Error", "FromNone"]: return "EErrFromNone"
            if len(path) == 2 and path[0] == "PositionDerivative": return "(ELit (VPD %s))" % PD[path[1]]
            if path == ["PhantomData"]: return "EUnit"
            if len(path) == 1 and path[0] in self.const_generics: return self.const_generics[path[0]]
            if len(path) == 2 and path[0] in self.enums: return "(EVariant %s)" % qs("::".join(path))
            if len(path) == 1:
                n = path[0]
                if n in self.consts:
                    a, b = self.consts[n]
                    return "(ELit (VU (unew c (%d) (%d))))" % (a, b)
                return "(EVar %s)" % qs(n)
            raise ParseError("path %s" % "::".join(path))
        if k == "field":
            return "(EField %s %s)" % (self.expr(e[1]), qs(e[2]))
        if k == "unary":
            if e[1] in ("*", "&"): return self.expr(e[2])
            if e[1] == "-" and e[2][0] == "num" and re.fullmatch(r"[0-9_]+(_?(i8|i16|i32|i64|isize))?", e[2][1]):
                return "(ELit (VI (-%d)))" % int(re.sub(r"_?(i8|i16|i32|i64|isize)$", "", e[2][1]).replace("_", ""))
            if e[1] == "-" and self.is_int(e[2]): return "(EInt 9 [%s])" % self.expr(e[2])
            if e[1] == "-": return "(EOp 9 [%s])" % self.expr(e[2])
            if e[1] == "!": return "(EOp 10 [%s])" % self.expr(e[2])
        if k == "bin":
            o = e[1]
            if o in ("+", "-") and self.is_usize(e[2]) and self.is_usize(e[3]):
                return "(EUs %d %s %s)" % (OPS[o], self.expr(e[2]), self.expr(e[3]))
            if o in ("+", "-") and self.is_exp_field(e[2]) and self.is_exp_field(e[3]):
                # i8 exponents of a Unit: unbounded integers in the embedding (wrap-around beyond +-127 is not modelled)
                return "(EUs %d %s %s)" % (1 if o == "+" else 4, self.expr(e[2]), self.expr(e[3]))
            if o == "%" and self.is_usize(e[2]) and self.is_usize(e[3]):
                return "(EUs 3 %s %s)" % (self.expr(e[2]), self.expr(e[3]))
            if o in OPS and self.is_int(e[2]) and self.is_int(e[3]):
                return "(EInt %d [%s; %s])" % (OPS[o], self.expr(e[2]), self.expr(e[3]))
            if o in OPS: return "(EOp %d [%s; %s])" % (OPS[o], self.expr(e[2]), self.expr(e[3]))
            if o in CMP: return "(ECmp %d %s %s)" % (CMP[o], self.expr(e[2]), self.expr(e[3]))
            if o == "&&": return "(EIf %s %s (ELit (VB false)))" % (self.expr(e[2]), self.expr(e[3]))
            if o == "||": return "(EIf %s (ELit (VB true)) %s)" % (self.expr(e[2]), self.expr(e[3]))
        if k == "try": return "(ETry %s)" % self.expr(e[1])
        if k == "array": return "(EArr %s)" % self.lst([self.expr(x) for x in e[1]])
        if k == "struct" and self.res(e[1])[-1] == "Unit":
            fs = dict(e[2])
            if not fs: return "(EOp 34 [(ELit (VI 0)); (ELit (VI 0))])"          # the zero-sized Unit of an unchecked build
            if sorted(fs) != ["millimeter_exp", "second_exp"]: raise ParseError("fields of a Unit literal")
            t1, t2 = self.fresh("f"), self.fresh("f")
            order = [f for f, _ in e[2]]
            inner = "(EOp 34 [(EVar %s); (EVar %s)])" % (qs(t1), qs(t2))
            names = {"millimeter_exp": t1, "second_exp": t2}
            for f in reversed(order):
                inner = "(ELet (PVar %s) %s %s)" % (qs(names[f]), self.expr(fs[f]), inner)
            return inner
        if k == "struct" and self.res(e[1])[-1] in ("Quantity", "State"):
            ty = self.res(e[1])[-1]
            order = ["value", "unit"] if ty == "Quantity" else ["position", "velocity", "acceleration"]
            if sorted(f for f, _ in e[2]) != sorted(order): raise ParseError("fields of a %s literal" % ty)
            tmps = dict((f, self.fresh("f")) for f, _ in e[2])
            inner = "(EOp %d %s)" % (32 if ty == "Quantity" else 36, self.lst(["(EVar %s)" % qs(tmps[f]) for f in order]))
            for f, fe in reversed(e[2]):
                inner = "(ELet (PVar %s) %s %s)" % (qs(tmps[f]), self.expr(fe), inner)
            return inner
        if k == "struct":
            tmps = [(f, self.fresh("f")) for f, _ in e[2]]
            inner = "(ERec %s)" % self.lst(["(%s, EVar %s)" % (qs(f), qs(t)) for f, t in sorted(tmps)])
            for (f, fe), (_, t) in reversed(list(zip(e[2], tmps))):
                inner = "(ELet (PVar %s) %s %s)" % (qs(t), self.expr(fe), inner)
            return inner
        if k == "call":
            fn, args = e[1], e[2]
            if fn[0] == "ufcs" and args:
                # <T as Trait<X>>::f(recv, ..) = recv.f(..) with the impl selected by the ids
                old = self.dispatch
                for w in ("State", "Command", "TerminalData"):
                    if w in fn[1]: self.dispatch = w
                try:
                    return self.expr(("mcall", args[0], fn[2], args[1:]))
                finally:
                    self.dispatch = old
            if fn[0] == "path":
                path = self.res(fn[1])
                if path == ["Time"] and len(args) == 1 and args[0] == ("path", ["i64", "MIN"]):
                    return "(ELit (VT (-9223372036854775808)))"
                if path in (["Time"], ["DimensionlessInteger"]) and len(args) == 1 and args[0][0] != "num":
                    return "(EOp %d [%s])" % (25 if path == ["Time"] else 26, self.expr(args[0]))
                if len(path) == 2 and path[0] == "Command" and path[1] in PD and len(args) == 1:
                    return "(EOp 31 [(ELit (VPD %s)); %s])" % (PD[path[1]], self.expr(args[0]))
                if path in (["Some"], ["Ok"], ["Err"]) and len(args) == 1:
                    return "(E%s %s)" % (path[0], self.expr(args[0]))
                if path == ["powf"] and len(args) == 2:
                    return "(EPow %s %s)" % (self.expr(args[0]), self.expr(args[1]))
                if path == ["Time"] and len(args) == 1 and args[0][0] == "num":
                    return "(ELit (VT %d))" % int(re.sub(r"_?i64", "", args[0][1]))
                if path == ["DimensionlessInteger"] and len(args) == 1 and args[0][0] == "num":
                    return "(ELit (VD %d))" % int(re.sub(r"_?i64", "", args[0][1]))
                if path in (["Vec", "new"], ["VecDeque", "new"]) and not args:
                    return "(EArr [])"
                if path == ["Vec", "with_capacity"] and len(args) == 1:
                    return "(ESeq %s (EArr []))" % self.expr(args[0])
                if path in (["VecDeque", "from"], ["Vec", "from"]) and len(args) == 1:
                    return self.expr(args[0])
                if path == ["T", "default"] and not args and self.t_default:
                    return self.t_default
                if path == ["State", "default"] and not args:
                    if "State" not in self.enums.get("__derive_default__", set()): raise ParseError("State::default(): State does not derive Default")
                    return "(ELit (VS (snew_raw fzero fzero fzero)))"
                if path in (["Time", "default"],) and not args:
                    return "(ELit (VT 0))"
                if path == ["Quantity", "from"] and len(args) == 1:
                    return "(EQFrom %s)" % self.expr(args[0])
                if path == ["Datum", "new"] and len(args) == 2 and args[1][0] == "struct":
                    # a datum whose payload is a struct of the crate (TerminalData): a record with the fields `time`, `value`
                    t1, t2 = self.fresh("f"), self.fresh("f")
                    return "(ELet (PVar %s) %s (ELet (PVar %s) %s (ERec [(\"time\", EVar %s); (\"value\", EVar %s)])))" % (
                        qs(t1), self.expr(args[0]), qs(t2), self.expr(args[1]), qs(t1), qs(t2))
                if path == ["Command", "new"] and len(args) == 2 and args[1][0] == "mcall" and args[1][2] == "into" and not args[1][3]:
                    # Command::new(kind, value: f32): the `.into()` of the second argument is f32::from(Quantity)
                    return "(EOp 31 [%s; (EOp 23 [%s])])" % (self.expr(args[0]), self.expr(args[1][1]))
                if path == ["RefCell", "new"] and len(args) == 1:
                    return self.expr(args[0])
                if len(path) == 2 and path[0] == "Self" and self.self_type:
                    path = [self.self_type, path[1]]
                if len(path) == 2 and tuple(path) not in CTOR_OPS and (path[0], path[1]) in self.fns and len(self.fns[(path[0], path[1])]) == 1 \
                        and not self.fns[(path[0], path[1])][0].get("has_self") and path[0] in ("SettableData", "Terminal", "GearTrain", "Invert", "Differential"):
                    # an associated function of the crate without a receiver (a constructor): its translated body, parameters bound
                    f = self.fns[(path[0], path[1])][0]
                    self.used.append(f)
                    body = parse_fn(f["toks"])
                    sub = Emitter(self.fns, self.enums, self.consts, path[0])
                    sub.tmp = self.tmp + 100 * (self.depth + 1); sub.depth = self.depth + 1
                    inner = "(ECatch %s)" % sub.expr(body)
                    tmps = [self.fresh("a") for _ in args]
                    for pname, tname in reversed(list(zip(f["params"], tmps))):
                        inner = "(ELet (PVar %s) (EVar %s) %s)" % (qs(pname), qs(tname), inner)
                    for a, tname in reversed(list(zip(args, tmps))):
                        inner = "(ELet (PVar %s) %s %s)" % (qs(tname), self.expr(a), inner)
                    return inner
                if len(path) == 2 and tuple(path) in CTOR_OPS:
                    return "(EOp %d %s)" % (CTOR_OPS[tuple(path)], self.lst([self.expr(a) for a in args]))
            raise ParseError("call of %r" % (fn,))
        if k == "mcall":
            recv, name, args = e[1], e[2], e[3]
            if name == "get" and not args and recv[0] == "mcall" and recv[2] == "borrow" and recv[1][0] == "path" \
                    and len(recv[1][1]) == 1 and self.kinds.get(recv[1][1][0]) == "Read":
                return "(EVar %s)" % qs(recv[1][1][0])
            if name == "get" and not args and recv[0] == "mcall" and recv[2] == "borrow" and self.is_terminal(recv[1]):
                # a terminal of the device itself: its Getter<State> / Getter<Command> impl, selected by the annotated type
                if not self.expected_kind and self.default_read_kind:
                    x = recv[1]
                    nm = "get:%s:%s" % (x[2] if x[0] == "field" else x[1][0], self.default_read_kind)
                    self.inputs.add(nm[4:])
                    return "(EVar %s)" % qs(nm)
                if not self.expected_kind: raise ParseError("read of a terminal without a type annotation")
                if self.reads_as_inputs:
                    # device logic and terminal logic are proved separately: what the terminal reads here is an input
                    # (Terminal::get itself is translated and proved in C09Streams)
                    x = recv[1]
                    nm = "get:%s:%s" % (x[2] if x[0] == "field" else x[1][0], self.expected_kind)
                    self.inputs.add(nm[4:])
                    return "(EVar %s)" % qs(nm)
                old = self.dispatch; self.dispatch = self.expected_kind
                try:
                    cands = [(kk, f) for (kk, fname), lst in self.fns.items() if kk == "Terminal" and fname == "get"
                             for f in lst if f["trait"] == "Getter" and self.dispatch in f.get("targs", [])]
                    if len(cands) != 1: raise ParseError("Terminal::get for %s: %d candidates" % (self.dispatch, len(cands)))
                    return self.inline_pure(recv[1], cands[0], [])
                finally:
                    self.dispatch = old
            if name == "get" and not args and recv == ("path", ["self"]) and self.self_type == "Terminal" and self.expected_kind:
                # inside Terminal: one of its own Getter impls, selected as above
                old = self.dispatch; self.dispatch = self.expected_kind
                try:
                    cands = [(kk, f) for (kk, fname), lst in self.fns.items() if kk == "Terminal" and fname == "get"
                             for f in lst if f["trait"] == "Getter" and self.dispatch in f.get("targs", [])]
                    if len(cands) != 1: raise ParseError("Terminal::get for %s: %d candidates" % (self.dispatch, len(cands)))
                    return self.inline_pure(recv, cands[0], [])
                finally:
                    self.dispatch = old
            if name == "set" and len(args) == 1 and recv[0] == "mcall" and recv[2] == "borrow_mut" and self.is_terminal(recv[1]):
                kind = self.kind_of(args[0])
                if not kind: raise ParseError("set on a terminal: cannot tell whether the datum is a State or a Command")
                old = self.dispatch; self.dispatch = kind
                try:
                    kf = self.find_fn("set", 1, "trait:Settable")
                    return self.inline_mut(recv[1], kf, args)
                finally:
                    self.dispatch = old
            if name == "get" and not args and recv[0] == "mcall" and recv[2] == "borrow":
                x = recv[1]
                if x[0] == "field" and x[1] == ("path", ["self"]):
                    self.inputs.add(x[2])
                    return "(EVar %s)" % qs("get:" + x[2])
                return self.expr(x)
            if name == "read" and not args and recv[0] == "mcall" and recv[2] == "cast" and recv[1][0] == "mcall" and recv[1][2] == "as_ptr":
                # slots.as_ptr().cast::<[T; N]>().read(): the whole array of MaybeUninit slots read as initialised
                return "(EAssumeInitAll %s)" % self.expr(recv[1][1])
            if name in ("push_back", "push") and len(args) == 1:
                return "(EPush %s false %s)" % (self.lval(recv), self.expr(args[0]))
            if name == "push_front" and len(args) == 1:
                return "(EPush %s true %s)" % (self.lval(recv), self.expr(args[0]))
            if name in ("pop_front", "pop_back") and not args:
                return "(EPop %s %s)" % (self.lval(recv), "true" if name == "pop_front" else "false")
            if name == "clear" and not args:
                return "(EAssign %s (EArr []))" % self.lval(recv)
            if name == "len" and not args:
                return "(ELen %s)" % self.expr(recv)
            if name == "write" and len(args) == 1 and recv[0] == "index":
                return "(EWriteSlot %s %s %s)" % (self.lval(recv[1]), self.expr(recv[2]), self.expr(args[0]))
            if name == "assume_init" and not args: return "(EAssumeInit %s)" % self.expr(recv)
            if name == "split_at" and len(args) == 1: return "(ESplitAt %s %s)" % (self.expr(recv), self.expr(args[0]))
            if name in ("clone", "to_owned", "borrow", "borrow_mut") and not args: return self.expr(recv)
            if name == "into" and not args: return "(EInto %s)" % self.expr(recv)
            if name in ("unwrap",) and not args: return "(EUnwrap %s)" % self.expr(recv)
            if name == "expect" and len(args) == 1: return "(EUnwrap %s)" % self.expr(recv)
            if name == "is_err" and not args: return "(EIsErr %s)" % self.expr(recv)
            if name == "partial_cmp" and len(args) == 1 and recv[0] == "field" and recv[2] == "value":
                # f32::partial_cmp on the numeric parts of two quantities
                return "(EOp 13 [%s; %s])" % (self.expr(recv), self.expr(args[0]))
            if name == "const_eq" and len(args) == 1:
                return "(EOp 40 [%s; %s])" % (self.expr(recv), self.expr(args[0]))
            if name == "eq_assume_true" and len(args) == 1:
                return "(EOp 41 [%s; %s])" % (self.expr(recv), self.expr(args[0]))
            if name == "eq_assume_false" and len(args) == 1:
                return "(EOp 42 [%s; %s])" % (self.expr(recv), self.expr(args[0]))
            if name == "assert_eq_assume_ok" and len(args) == 1:
                return "(EOp 43 [%s; %s])" % (self.expr(recv), self.expr(args[0]))
            if name == "assert_eq_assume_not_ok" and len(args) == 1:
                return "(EOp 44 [%s; %s])" % (self.expr(recv), self.expr(args[0]))
            if name in ("get_position", "get_velocity", "get_acceleration") and not args and \
                    ((self.hint_for(recv) or "").split("<")[0] == "Command" or self.kind_of(recv) == "Command"):
                # the accessors of Command (opcodes 61..63), not those of State (57..59)
                return "(EOp %d [%s])" % ({"get_position": 61, "get_velocity": 62, "get_acceleration": 63}[name], self.expr(recv))
            if name in METHOD_OPS and not (recv == ("path", ["self"]) and (self.self_type, name) in self.fns):
                return "(EOp %d %s)" % (METHOD_OPS[name], self.lst([self.expr(recv)] + [self.expr(a) for a in args]))
            if name == "get" and len(args) == 1 and recv[0] == "field" and recv[1] == ("path", ["self"]):
                # a History consulted at a time: an external function of the time
                self.inputs.add(recv[2])
                return "(ECallFn (EVar %s) %s)" % (qs("get:" + recv[2]), self.expr(args[0]))
            xr = recv
            while xr[0] == "mcall" and xr[2] in ("borrow", "borrow_mut") and not xr[3]: xr = xr[1]
            if xr[0] == "field" and xr[1] == ("path", ["self"]) and xr[2] in self.ext_fields:
                # a method of an object that is external to this body (a wrapped getter / settable of a generic type, an object
                # shared through a Reference): the call is appended to the call log of self (obj, fn, args, prev) and its answer
                # is the input `ans:<field>.<fn>`
                return self.ext_call(xr[2], name, args)
            # calls of the crate's own functions: inline the translated body (a RefCell borrow is transparent)
            while recv[0] == "mcall" and recv[2] in ("borrow", "borrow_mut") and not recv[3]:
                recv = recv[1]
            hint = None
            if recv[0] == "field" and recv[1] == ("path", ["self"]):
                st = self.enums.get("__structs__", {}).get((self.self_key or "").split("<")[0], {})
                hint = st.get(recv[2])
            elif recv == ("path", ["self"]):
                hint = self.self_key
            elif recv[0] == "path" and len(recv[1]) == 1:
                hint = "Terminal" if self.kinds.get(recv[1][0]) == "Terminal" else recv[1][0]
            kf = self.find_fn(name, len(args), hint)
            if kf[1]["self_mut"]:
                return self.inline_mut(recv, kf, args)
            return self.inline_pure(recv, kf, args)
        if k == "macro":
            if e[1] in ("debug_assert_eq", "assert_eq") and len(e[2]) == 2:
                return "(EAssertEq %s %s)" % (self.expr(e[2][0]), self.expr(e[2][1]))
            if e[1] == "assert" and len(e[2]) == 1:
                return "(EIf %s EUnit (EUnwrap ENone))" % self.expr(e[2][0])
            if e[1] in ("unimplemented", "panic", "unreachable", "todo"):
                return "(EUnwrap ENone)"
            raise ParseError("macro %s!" % e[1])
        if k == "return":
            return "(EReturn %s)" % (self.expr(e[1]) if e[1] is not None else "EUnit")
        if k == "assign" and e[1][0] == "unary" and e[1][1] == "*":
            xr = e[1][2]
            while xr[0] == "mcall" and xr[2] in ("borrow", "borrow_mut") and not xr[3]: xr = xr[1]
            if xr[0] == "field" and xr[1] == ("path", ["self"]) and xr[2] in self.ext_fields:
                # `*self.<shared cell>.borrow_mut() = v`: a write to an object shared through a Reference, logged like a call
                return self.ext_call(xr[2], "=", [e[2]], answer=False)
        if k == "assign":
            return "(EAssign %s %s)" % (self.lval(e[1]), self.expr(e[2]))
        if k == "opassign" and e[1] in ("+", "-") and self.is_usize(e[2]) and self.is_usize(e[3]):
            return "(EAssign %s (EUs %d %s %s))" % (self.lval(e[2]), OPS[e[1]], self.expr(e[2]), self.expr(e[3]))
        if k == "opassign" and self.is_int(e[2]) and self.is_int(e[3]):
            return "(EAssign %s (EInt %d [%s; %s]))" % (self.lval(e[2]), OPS[e[1]], self.expr(e[2]), self.expr(e[3]))
        if k == "opassign":
            return "(EOpAssign %s %d %s)" % (self.lval(e[2]), OPS[e[1]] + 4, self.expr(e[3]))
        if k == "if":
            th = self.expr(e[2])
            el = self.expr(e[3]) if e[3] is not None else "EUnit"
            if e[3] is None:
                th = "(ESeq %s EUnit)" % th
            return "(EIf %s %s %s)" % (self.expr(e[1]), th, el)
        if k == "match":
            sk = self.kind_of(e[1])
            arms = []
            for p, b in e[2]:
                self.bind_kinds(p, sk)
                arms.append("(%s, %s)" % (self.pat(p), self.expr(b)))
            return "(EMatch %s %s)" % (self.expr(e[1]), self.lst(arms))
        if k == "for" and e[2][0] == "range":
            return "(EForRange %s %s %s %s)" % (qs(e[1]), self.expr(e[2][1]), self.expr(e[2][2]), self.expr(e[3]))
        if k == "while":
            # `while cond { ...; X.pop_front(); }`: every iteration removes an element of X, so len(X) + 1 bounds the number of
            # condition evaluations (the evaluator treats running out of fuel as ill-typed, never as a value)
            pops = self.find_pops(e[2])
            if len(pops) != 1: raise ParseError("while loop: cannot find the one collection it shrinks")
            fuel = "(EUs 1 (ELen %s) (ELit (VI 1)))" % self.expr(pops[0])
            return "(EWhile %s %s %s)" % (fuel, self.expr(e[1]), self.expr(e[2]))
        if k == "for" and self.slot_fill(e):
            # `for i in &mut slots { i.write(v); }` over a local array of MaybeUninit slots: every slot is overwritten
            x, coll, v = self.slot_fill(e)
            return "(EForMut %s (LVar %s) (ESeq (EAssign (LVar %s) %s) EUnit))" % (qs(x), qs(coll), qs(x), self.expr(v))
        if k == "for" and self.terminal_array(e[2]):
            # `for i in &self.inputs` over the device's own terminals.  A loop that only reads them (`i.borrow().get()`) runs over
            # what the terminals read (an input array, one entry per terminal); a loop that writes (`i.borrow_mut().set / update`)
            # runs over the terminals themselves and writes them back.
            fld = self.terminal_array(e[2]); x = e[1]
            reads = self.count_calls(e[3], x, ("get",)); writes = self.count_calls(e[3], x, ("set", "update"))
            if reads and writes: raise ParseError("loop over terminals that both reads and writes them")
            oldk = self.kinds.get(x)
            try:
                if writes:
                    self.kinds[x] = "Terminal"
                    return "(EForMut %s (LField (LVar \"self\") %s) %s)" % (qs(x), qs(fld), self.expr(e[3]))
                kind = self.kind_of(e[3])
                if kind not in ("State", "Command"): raise ParseError("loop reading terminals: cannot tell the payload kind")
                self.kinds[x] = "Read"
                nm = "get:%s:%s" % (fld, kind)
                self.inputs.add(nm[4:])
                return "(EFor %s (EVar %s) %s)" % (qs(x), qs(nm), self.expr(e[3]))
            finally:
                if oldk is None: self.kinds.pop(x, None)
                else: self.kinds[x] = oldk
        if k == "for":
            return "(EFor %s %s %s)" % (qs(e[1]), self.for_coll(e[2]), self.expr(e[3]))
        if k == "block":
            return self.block(e[1], e[2])
        raise ParseError("expression form %r" % (k,))

    def ext_call(self, f, name, args, answer=True):
        tmps = [self.fresh("x") for _ in args]
        log = "(EField (EVar \"self\") \"ext_log\")"
        app = "(EAssign (LField (LVar \"self\") \"ext_log\") (ERec [(\"args\", EArr %s); (\"fn\", EVariant %s); (\"obj\", EVariant %s); (\"prev\", %s)]))" % (
            self.lst(["(EVar %s)" % qs(t) for t in tmps]), qs(name), qs(f), log)
        if answer:
            self.inputs.add("ans:%s.%s" % (f, name))
            inner = "(ESeq %s (EVar %s))" % (app, qs("ans:%s.%s" % (f, name)))
        else:
            inner = app
        for a, t in reversed(list(zip(args, tmps))):
            inner = "(ELet (PVar %s) %s %s)" % (qs(t), self.expr(a), inner)
        return inner

    def slot_fill(self, e):
        c = e[2]
        while c[0] in ("unary", "paren"):
            c = c[2] if c[0] == "unary" else c[1]
        b = e[3]
        if c[0] == "path" and len(c[1]) == 1 and b[0] == "block" and len(b[1]) == 1 and b[2] is None and b[1][0][0] == "expr":
            st = b[1][0][1]
            if st[0] == "mcall" and st[1] == ("path", [e[1]]) and st[2] == "write" and len(st[3]) == 1:
                return e[1], c[1][0], st[3][0]
        return None

    def find_pops(self, e):
        out = []
        if isinstance(e, tuple):
            if e and e[0] == "mcall" and e[2] in ("pop_front", "pop_back") and not e[3]:
                if e[1] not in out: out.append(e[1])
            for y in e:
                for r in self.find_pops(y):
                    if r not in out: out.append(r)
        elif isinstance(e, list):
            for y in e:
                for r in self.find_pops(y):
                    if r not in out: out.append(r)
        return out

    def data_array(self, e):
        """`&self.<field>` / a local that holds a Vec / VecDeque of data (not of getters)"""
        x = e
        while x[0] in ("unary", "paren"):
            x = x[2] if x[0] == "unary" else x[1]
        if x[0] == "field" and x[1] == ("path", ["self"]):
            st = self.enums.get("__structs__", {}).get((self.self_key or "").split("<")[0], {})
            return st.get(x[2]) in ("VecDeque", "Vec", "Datum")
        return False

    def terminal_array(self, e):
        """`&self.<field>` where the field is an array of Terminals (reads_as_inputs devices only): the field name"""
        if not self.reads_as_inputs: return None
        x = e
        while x[0] in ("unary", "paren"):
            x = x[2] if x[0] == "unary" else x[1]
        if x[0] == "field" and x[1] == ("path", ["self"]):
            st = self.enums.get("__structs__", {}).get((self.self_key or "").split("<")[0], {})
            if st.get(x[2]) == "[Terminal]": return x[2]
        return None

    def count_calls(self, e, var, names):
        n = 0
        if isinstance(e, tuple):
            if e and e[0] == "mcall" and e[2] in names:
                r = e[1]
                while r[0] == "mcall" and r[2] in ("borrow", "borrow_mut") and not r[3]: r = r[1]
                if r == ("path", [var]): n += 1
            for y in e: n += self.count_calls(y, var, names)
        elif isinstance(e, list):
            for y in e: n += self.count_calls(y, var, names)
        return n

    def for_coll(self, e):
        # `for i in &self.inputs` over an array of getters: the items are what each getter returns
        x = e
        while x[0] in ("unary", "paren"):
            x = x[2] if x[0] == "unary" else x[1]
        if self.data_array(e):
            return self.expr(x)           # a queue of data held by the stream itself
        if x[0] == "field" and x[1] == ("path", ["self"]):
            self.inputs.add(x[2])
            return "(EVar %s)" % qs("get:" + x[2])
        return self.expr(e)

    def block(self, stmts, tail):
        if not stmts:
            return self.expr(tail) if tail is not None else "EUnit"
        s = stmts[0]
        if s[0] == "let" and s[1][0] == "pvar":
            place = self.alias_place(s[2])
            if place is not None:
                return self.block(self.subst_ident(stmts[1:], s[1][1], place), self.subst_ident(tail, s[1][1], place) if tail is not None else None)
        if s[0] == "let" and s[1][0] == "pvar" and s[2][0] == "num" and "." not in s[2][1]:
            self.int_vars.add(s[1][1])
        if s[0] == "let":
            tyids = s[3] if len(s) > 3 else []
            ann = "State" if "State" in tyids else ("Command" if "Command" in tyids else None)
            if ann is None and self.self_type == "Terminal" and s[1][0] == "pvar" and s[1][1] in ("command", "state") \
                    and self.has_self_get(s[2]):
                # `let command = self.get()...` inside Terminal: rustc infers the impl from the use of the variable (it ends up in
                # the field of the same name, whose type is fixed); the translator takes it from the variable's name - a wrong
                # guess cannot make a theorem true, it makes the translated body differ from the model
                ann = s[1][1].capitalize()
            old = self.expected_kind
            self.expected_kind = ann
            rhs = self.expr(s[2])
            self.expected_kind = old
            self.bind_kinds(s[1], ann or self.kind_of(s[2]))
            rest = self.block(stmts[1:], tail)
            return "(ELet %s %s %s)" % (self.pat(s[1]), rhs, rest)
        first = self.expr(s[1])
        rest = self.block(stmts[1:], tail)
        return "(ESeq %s %s)" % (first, rest)
