#!/usr/bin/env python3
"""Assemble /verif/seeded/<id>_m4/ from the sub-agents' output (/tmp/seed4/out), the independent confirmation
(verify.json written by /tmp/seed4/verify.sh in a fresh worktree) and the detection sweep (/tmp/seed4/detect)."""
import json, os, shutil, sys
OUT, DET, DST = "/tmp/seed4/out", "/tmp/seed4/detect", "/verif/seeded"
ids = sys.argv[1:]
for pid in ids:
    src = os.path.join(OUT, pid)
    sid = pid + "_m4"
    d = os.path.join(DST, sid); os.makedirs(d, exist_ok=True)
    shutil.copy(os.path.join(src, "patch.diff"), os.path.join(d, "patch.diff"))
    for f in os.listdir(src):
        if f.startswith("demo"):
            shutil.copy(os.path.join(src, f), os.path.join(d, f))
    am = json.load(open(os.path.join(src, "meta.json")))
    ver = json.load(open(os.path.join(src, "verify.json")))
    det = open(os.path.join(DET, sid + ".txt")).read().strip().splitlines()
    meta = {
        "id": sid, "property": pid,
        "what_changed": am.get("summary"),
        "needs_to_manifest": am.get("needs_to_manifest"),
        "demonstration": {"file": [f for f in os.listdir(d) if f.startswith("demo")],
                          "place_in_repo_as": am.get("demo_path_in_repo"), "features": am.get("demo_features", ""),
                          "command": ver.get("demo_cmd")},
        "author": "sub-agent given only the property text and a scratch git worktree of /repo",
        "what_the_author_ran": am.get("commands_run"),
        "confirmed_here": {
            "how": "fresh scratch worktree of /repo at HEAD (outside /repo and /verif, removed afterwards): demonstration without the change; git apply; demonstration with the change; cargo test --workspace --no-fail-fast --offline; cargo test --offline --features devices; cargo build --no-default-features --features alloc,libm,devices",
            "applies_to_current_tree": bool(ver["applies"]),
            "baseline_suite_passes_with_change": ver["baseline_rc"] == 0,
            "devices_suite_passes_with_change": ver["devices_rc"] == 0,
            "no_std_build_with_change": ver["nostd_build_rc"] == 0,
            "demonstration_fails_with_change": ver["demo_fails_with_change"] != 0,
            "demonstration_passes_without_change": ver["demo_fails_without_change"] == 0,
        },
        "detection": {"command": "bin/try_mutant seeded/%s/patch.diff %s" % (sid, pid),
                      "output_head": det[:4],
                      "detected": any(l.startswith("VIOLATION") for l in det),
                      "concrete_failing_input": any(l.startswith("VIOLATION") and "no-failing-input-found" not in l for l in det)},
    }
    json.dump(meta, open(os.path.join(d, "meta.json"), "w"), indent=1)
    print(sid, meta["detection"]["detected"], meta["detection"]["concrete_failing_input"], all(v for k, v in meta["confirmed_here"].items() if k != "how"))
