"""C17 — a Reference, its clones and its to_dyn conversion all denote one shared object (partial)."""
import itertools, random
from common import *
import probes, gen_todyn

PID = "C17"
VARS = {0: "Ptr", 1: "RcRefCell", 2: "PtrRwLock", 3: "PtrMutex", 4: "ArcRwLock", 5: "ArcMutex"}
LISTED = (0, 1, 2)
COUNTED = (1, 4, 5)


def ref_case(variant, init, ops):
    c = [9, variant, init, len(ops)]
    for o in ops: c += o
    return c


def okb(case, io, mo):
    if io and io[0] in ("crash", "garbled"): return False, "implementation crashed"
    if case[0] == 10:
        return (io == [max(0, case[2]) * max(0, case[3])], "lost update: %s threads x %s increments gave %s" % (case[2], case[3], io))
    variant, val, n = case[1], case[2], case[3]
    handles = [True]; pos = 4; oi = 0; freed = False
    for _ in range(n):
        op = case[pos]
        if oi >= len(io): return False, "output too short"
        if op == 6:
            pos += 1
            if io[oi:oi + 2] != [2, int(freed)]:
                return False, "target reported %s although %d handle(s) are alive" % ("freed" if io[oi + 1] else "alive", sum(handles))
            oi += 2; continue
        k = case[pos + 1]
        live = k < len(handles) and handles[k]
        if op == 4: x = case[pos + 2]; pos += 3
        else: pos += 2
        if not live:
            oi += 1; continue
        if op == 1: handles.append(True); oi += 1
        elif op == 2:
            if io[oi] == 99:
                return (variant not in LISTED, "to_dyn! panicked on variant %s, which the macro lists" % VARS[variant])
            if variant not in LISTED: return False, "to_dyn! on an unlisted variant did not panic"
            handles[k] = False; handles.append(True); oi += 1
        elif op == 3:
            if io[oi:oi + 2] != [1, val]: return False, "read through handle %d gives %s, the last value written through any handle is %d" % (k, io[oi:oi + 2], val)
            oi += 2
        elif op == 4: val = x; oi += 1
        elif op == 5:
            handles[k] = False; oi += 1
            if variant in COUNTED and not any(handles): freed = True
    return True, ""


def run(chk, replay=None):
    gen_sources()
    gen_todyn.main(REPO, gen_dir())
    proof = proof_check(PID, gen_theorems=["C17ToDyn"])
    drv = build_driver(); exe = build_harness("default"); cfg = harness_config(exe)
    if replay:
        r = json.load(open(replay))
        if "case" not in r: print(r.get("what")); return 1
        c = r["case"]
        io, mo = run_sharded(exe, [c])[0], run_sharded(drv, [c])[0]
        print("impl :", io, "\nmodel:", mo, "\noracle:", okb(c, io, mo)); return 0 if io == mo and okb(c, io, mo)[0] else 1
    rng = random.Random(chk.seed)
    big = chk.tier != "quick"
    cases, tags = [], []
    # all six variants x every op word of length <= L over {clone, to_dyn, read, write, drop, freed?} on existing handles
    L = 4 if not big else 5
    for variant in range(6):
        def words(n, nh):
            if n == 0:
                yield []; return
            for op in (1, 2, 3, 4, 5, 6):
                ks = [0] if op == 6 else range(nh)
                for k in ks:
                    o = [6] if op == 6 else ([op, k, rng.randint(-99, 99)] if op == 4 else [op, k])
                    for rest in words(n - 1, nh + (1 if op in (1, 2) else 0)):
                        yield [o] + rest
        for n in range(1, L + 1):
            ws = list(words(n, 1))
            if len(ws) > 2500: ws = rng.sample(ws, 2500)
            for w in ws:
                cases.append(ref_case(variant, rng.randint(-9, 9), w + [[3, 0], [6]])); tags.append("%s/len%d" % (VARS[variant], n))
    for _ in range(1500 if not big else 40000):
        variant = rng.randrange(6); nh = 1; ops = []
        for _ in range(rng.randint(5, 12)):
            op = rng.choices([1, 2, 3, 4, 5, 6], weights=[3, 1.5, 4, 4, 2, 1])[0]
            if op == 2 and variant not in LISTED and rng.random() < 0.8: op = 1
            k = rng.randrange(nh)
            ops.append([6] if op == 6 else ([op, k, rng.randint(-99, 99)] if op == 4 else [op, k]))
            if op in (1, 2): nh += 1
        cases.append(ref_case(variant, rng.randint(-9, 9), ops)); tags.append("%s/random" % VARS[variant])
    # threads (a test, not a proof)
    for variant in (4, 5):
        for t in (2, 3, 8):
            cases.append([10, variant, t, 1000 if not big else 100000]); tags.append("threads/%s" % VARS[variant])
    correspondence(chk, cases, tags, exe, drv, okb=okb, describe=lambda c, o: {"variant": VARS.get(c[1]), "ops": c[4:], "output": o})
    # to_dyn! from crates with different feature names of their own
    pr = probes.c17_caller_probes()
    chk.cov["caller_feature_sets_probed"] = len(pr)
    for name, (ok, out, src) in pr.items():
        chk.cov["evaluations"] += 1
        if ok: chk.cov["traces_validated_against_impl"] += 1
        else:
            chk.violation("to_dyn! fails when called from a crate whose own features are '%s': %s" % (name, out[-300:]),
                          {"probe_source": src, "caller_features": name, "output": out}, True)
    chk.assumptions += ["std's Rc/Arc reference counting and Mutex/RwLock locking are assumed (modelled as a strong count and an exclusive lock word)",
                        "real thread schedules, lock poisoning and memory ordering are not exhibited by the model; the thread run is a test"]
    chk.cov["exhaustive_part"] = "all six variants x every operation word of length <= %d over {clone, to_dyn, read, write, drop, freed?} applied to every existing handle (sampled above 2500 words per length)" % L
    if not proof["ok"] and not any(not v["found"] for v in chk.violations):
        chk.violation("proof obligations of C17 no longer check: " + "; ".join(proof["problems"])[:1500],
                      {"theorem_file": "coq/theories/Properties/C17.v, coq/gen_theorems/C17ToDyn.v", "problems": proof["problems"]}, False)
    return chk.finish(proof,
        rule="operation words over a pool of handles of one Reference (plain and trait-object handles), Drop-flag on the payload to observe freeing; 2..8 threads x 1e3 (quick) / 1e5 (thorough) increments through References built over one shared Arc; three downstream crates calling to_dyn!; distinct = distinct (variant, model output)",
        checker_cmd="make -C coq ; coqc Properties/C17.v ; coqc gen_theorems/C17ToDyn.v over regenerated GenToDyn.v ; cargo build+run of the caller probes",
        trusted=std_trusted() + ["translator tools/gen_todyn.py (regex over the macro definitions)"])
