"""C18 — Time and integer quantities: exact integer arithmetic, faithful float conversion."""
import random
from fractions import Fraction
from common import *

PID = "C18"
E9 = Fraction(10**9)
U1 = Fraction(1, 2**23) + Fraction(1, 2**48)


def strat_i64(rng):
    """i64 values stratified over magnitudes and signs, with neighbours of rounding-sensitive points"""
    r = rng.random()
    if r < 0.12:
        return rng.choice([0, 1, -1, 2, 3, 10**9, -10**9, 10**9 + 1, 10**9 - 1, 2**24, 2**24 + 1, 2**24 - 1, 2**53, 2**53 + 1,
                           2**62, -2**62, 2**62 + 1, I64_MAX, I64_MIN, I64_MAX - 1, I64_MIN + 1, 999999999, 1000000001, 16777217,
                           123456789, 5 * 10**8])
    if r < 0.3:
        k = rng.randint(1, 9 * 10**9)
        return k * 10**9 // rng.choice([1, 10, 1000, 10**6]) * rng.choice([1, -1])
    if r < 0.42:
        # neighbours of the midpoint between two adjacent binary32 values: the conversion must round the i64 once
        # (an i64 -> f64 -> f32 detour rounds n = midpoint +- 1 to the midpoint first, then to even)
        bits = rng.randint(26, 63)
        k = bits - 24
        m = rng.getrandbits(24) | (1 << 23)
        v = (m << k) + (1 << (k - 1)) + rng.choice([-1, 1, -1, 1, 0, -2, 2, -(1 << max(0, k - 30)), (1 << max(0, k - 30))])
        v = min(v, I64_MAX)
        return v if rng.random() < 0.5 else -v
    bits = rng.randint(1, 62)
    v = rng.getrandbits(bits) | (1 << (bits - 1))
    if rng.random() < 0.2:
        v = (1 << bits) + rng.randint(-2, 2)
    return v if rng.random() < 0.5 else -v


def dr_witness(rng):
    """n = midpoint between two adjacent binary32 values +- 1, with |n| >= 2^53: a conversion that goes through f64 rounds it
    to the midpoint first (the 1 is below f64's precision) and then to even; the single rounding the crate documents does not"""
    bits = rng.randint(55, 63)
    k = bits - 24
    m = rng.getrandbits(24) | (1 << 23)
    v = min((m << k) + (1 << (k - 1)) + rng.choice([-1, 1]), I64_MAX)
    return v if rng.random() < 0.5 else -v


def rand_seconds_bits(rng):
    """finite f32 second values below 9e9 by strata"""
    r = rng.random()
    if r < 0.1:
        return rng.choice(SPECIAL_BITS[:6] + [f2b(1.0), f2b(-1.0), f2b(0.5), f2b(1e-9), f2b(8.9e9), f2b(-8.9e9), f2b(9.2e9), f2b(1e10), f2b(-1e10), f2b(3e38)])
    while True:
        b = rand_f32_bits(rng, moderate=False, specials=0)
        f = b2frac(b)
        if f is not None and abs(f) < 9 * 10**9 or rng.random() < 0.02:
            return b


def okb(case, io, mo):
    """error bounds of the property, evaluated in exact rational arithmetic on the implementation's output"""
    e = case[3:]
    if io and io[0] in ("crash", "garbled"):
        return False, "implementation crashed"
    if e[:3] == [100, 20, 1] and e[3:5] == [0, 3]:      # Quantity::from(Time n)
        n = e[5]
        r, _ = dec_val(io)
        if r[0] != "Q" or r[2] != (0, 1):
            return False, "Quantity::from(Time) is not in seconds: %s" % (r,)
        v = b2frac(r[1])
        if v is None:
            return False, "Quantity::from(Time(%d)) is not finite" % n
        x = Fraction(n) / E9
        if abs(v - x) > U1 * abs(x):
            return False, "Quantity::from(Time(%d)) = %s off by more than two f32 roundings" % (n, float(v))
        return True, ""
    if e[:3] == [100, 21, 1] and e[3:5] == [0, 2]:      # Time::try_from(Quantity)
        b, m, s = e[5], e[6], e[7]
        r, _ = dec_val(io)
        if (m, s) != (0, 1):
            return (r == ("None",), "Time::try_from accepted unit (%d,%d)" % (m, s))
        if r[0] != "Some":
            return False, "Time::try_from rejected a quantity in seconds"
        v = b2frac(b)
        if v is not None and abs(v) < 9 * 10**9:
            x = v * E9
            if abs(r[1][1] - x) > Fraction(1, 2**24) * abs(x) + 1:
                return False, "Time::try_from(%s s) = %d, more than one rounding + 1 ns from value*1e9" % (float(v), r[1][1])
        return True, ""
    if e[:3] == [100, 22, 1] and e[3:5] == [0, 2]:
        m, s = e[6], e[7]
        r, _ = dec_val(io)
        if (m, s) != (0, 0):
            return (r == ("None",), "DimensionlessInteger::try_from accepted unit (%d,%d)" % (m, s))
        return (r[0] == "Some", "DimensionlessInteger::try_from rejected a dimensionless quantity")
    if e[:6] == [100, 21, 1, 100, 20, 1] and e[6:8] == [0, 3]:   # round trip
        n = e[8]
        r, _ = dec_val(io)
        if r[0] != "Some":
            return False, "round trip rejected"
        if abs(n) < 9 * 10**18 and abs(r[1][1] - n) > Fraction(abs(n), 2**22) + 1:
            return False, "round trip of Time(%d) gives %d, beyond |t|*2^-22 + 1 ns" % (n, r[1][1])
        return True, ""
    if e[0] == 100 and e[2] == 2 and e[1] in (1, 2, 3, 4, 5, 6, 7, 8) and e[3] == 0 and e[4] in (3, 4) and e[6] == 0 and e[7] in (3, 4):
        # integer op integer
        o = e[1] if e[1] <= 4 else e[1] - 4
        a, b, ta, tb = e[5], e[8], e[4], e[7]
        if (ta, tb) == (3, 3) and o in (3, 4): return True, ""      # Time*Time -> Quantity
        if (ta, tb) == (4, 3) and o == 4: return True, ""
        if io == [98] or mo == [98]: return True, ""              # form does not exist in the crate
        if o == 1: x = a + b
        elif o == 2: x = a - b
        elif o == 3: x = a * b
        else:
            if b == 0:
                return (io == [99], "division by zero did not panic")
            x = abs(a) // abs(b) * (1 if (a >= 0) == (b >= 0) else -1)
        if not (I64_MIN <= x <= I64_MAX):
            return True, ""   # overflow: excluded by the statement
        if io == [99]:
            return False, "exact integer operation panicked without overflow"
        r, _ = dec_val(io)
        return (r[1] == x, "integer arithmetic not exact: got %s expected %d" % (r, x))
    return True, ""


def gen(rng, tier, cfg):
    cases, tags = [], []
    def add(e, tag):
        cases.append(prog_case(cfg, e)); tags.append(tag)
    big = tier != "quick"
    units = [(m, s) for m in range(-3, 4) for s in range(-3, 4)]
    n_conv = 12000 if not big else 400000
    mono = []
    for _ in range(n_conv):
        n = strat_i64(rng)
        add(Op(20, Lit(vT(n))), "q_from_time")
        if rng.random() < 0.5:
            add(Op(21, Op(20, Lit(vT(n)))), "roundtrip")
        if rng.random() < 0.2:
            add(Op(20, Lit(vD(n))), "q_from_dint")
            add(Op(22, Op(20, Lit(vD(n)))), "roundtrip_dint")
    # monotonicity probes: runs of adjacent integers
    for _ in range(300 if not big else 5000):
        n0 = strat_i64(rng)
        for k in range(-3, 4):
            n = max(I64_MIN, min(I64_MAX, n0 + k))
            add(Op(20, Lit(vT(n))), "mono")
    for _ in range(8000 if not big else 300000):
        b = rand_seconds_bits(rng)
        add(Op(21, Lit(vQ(b, 0, 1))), "time_try_from")
        if rng.random() < 0.3:
            add(Op(22, Lit(vQ(rand_f32_bits(rng, moderate=False, specials=0.1, nonfinite=0.05), 0, 0))), "dint_try_from")
    for (m, s) in units:
        for _ in range(4):
            b = rand_f32_bits(rng)
            add(Op(21, Lit(vQ(b, m, s))), "time_try_from_unit")
            add(Op(22, Lit(vQ(b, m, s))), "dint_try_from_unit")
    # integer identities and operators, every form of the tables, incl. overflow edges and division by zero
    def ri():
        r = rng.random()
        if r < 0.2: return rng.choice([0, 1, -1, 2, -2, I64_MAX, I64_MIN, I64_MAX - 1, I64_MIN + 1, 2**31, -2**31, 2**32, 3037000500, -3037000500])
        return strat_i64(rng)
    for _ in range(1500 if not big else 40000):
        a, b = ri(), ri()
        if rng.random() < 0.5:
            a, b = rng.randint(-2**31, 2**31), rng.randint(-2**31, 2**31)
        for o in range(1, 9):
            add(Op(o, Lit(vT(a)), Lit(vT(b))), "TT%d" % o)
            add(Op(o, Lit(vD(a)), Lit(vD(b))), "DD%d" % o)
            if o in (3, 4, 7, 8):
                add(Op(o, Lit(vT(a)), Lit(vD(b))), "TD%d" % o)
        for o in (3, 4):
            add(Op(o, Lit(vD(a)), Lit(vT(b))), "DT%d" % o)
        add(Op(9, Lit(vT(a))), "negT"); add(Op(9, Lit(vD(a))), "negD")
        add(Op(24, Op(25, Lit(vI(a)))), "i64_time_i64"); add(Op(24, Op(26, Lit(vI(a)))), "i64_dint_i64")
        add(Op(12, Lit(vT(a)), Lit(vT(b))), "eqT")
    # mixed operators yielding a Quantity, every unit
    for (m, s) in units:
        for _ in range(3 if not big else 40):
            q = Lit(vQ(rand_f32_bits(rng), m, s)); t = Lit(vT(strat_i64(rng))); d = Lit(vD(strat_i64(rng)))
            for o in range(1, 9):
                add(Op(o, q, t), "QT%d" % o); add(Op(o, q, d), "QD%d" % o)
            for o in range(1, 5):
                add(Op(o, t, q), "TQ%d" % o); add(Op(o, d, q), "DQ%d" % o)
    # every mixed form with an integer operand at a double-rounding witness (units chosen so that + and - do not panic)
    for _ in range(60 if not big else 2000):
        n = dr_witness(rng)
        for (lit, u, nm) in ((vT(n), (0, 1), "T"), (vD(n), (0, 0), "D")):
            for o in range(1, 9):
                q = Lit(vQ(rand_f32_bits(rng), *(u if o in (1, 2, 5, 6) else rng.choice(units))))
                add(Op(o, q, Lit(lit)), "Q%s%d/dr" % (nm, o))
                if o <= 4:
                    add(Op(o, Lit(lit), q), "%sQ%d/dr" % (nm, o))
        add(Op(20, Lit(vT(n))), "q_from_time/dr"); add(Op(20, Lit(vD(n))), "q_from_dint/dr")
        add(Op(3, Lit(vT(n)), Lit(vT(dr_witness(rng)))), "TT3/dr"); add(Op(4, Lit(vT(n)), Lit(vT(dr_witness(rng)))), "TT4/dr")
        add(Op(4, Lit(vD(n)), Lit(vT(dr_witness(rng)))), "DT4/dr")
    # operands that cancel or coincide exactly (results +-0, +-1): the sign of a zero is part of the exact f32 result
    for n_ in [0, 1, -1, 2, -2, 5, 1000000000, -1000000000, 3000000000, 500000000, -250000000, 16777216, 123456789, -987654321, 2147483648, -2147483648]:
        qt = f32_div_bits(f32_of_int_bits(n_), f2b(1e9)); qd = f32_of_int_bits(n_)
        for sgn in (0, 0x80000000):
            for o in range(1, 9):
                add(Op(o, Lit(vQ(qt ^ sgn, 0, 1)), Lit(vT(n_))), "QT%d" % o); add(Op(o, Lit(vQ(qd ^ sgn, 0, 0)), Lit(vD(n_))), "QD%d" % o)
            for o in range(1, 5):
                add(Op(o, Lit(vT(n_)), Lit(vQ(qt ^ sgn, 0, 1))), "TQ%d" % o); add(Op(o, Lit(vD(n_)), Lit(vQ(qd ^ sgn, 0, 0))), "DQ%d" % o)
    return cases, tags


def run(chk, replay=None):
    gens = gen_sources()
    proof = proof_check(PID, gen_theorems=("OpsTable",))
    proof = add_ops_table(proof, gens)
    drv = build_driver()
    exe = build_harness("default")
    cfg = harness_config(exe)
    if replay:
        r = json.load(open(replay)); c = r["case"]
        io, mo = run_sharded(exe, [c])[0], run_sharded(drv, [c])[0]
        print("impl :", io, "\nmodel:", mo, "\noracle:", okb(c, io, mo))
        return 0 if io == mo and okb(c, io, mo)[0] else 1
    rng = random.Random(chk.seed)
    cases, tags = gen(rng, chk.tier, cfg)
    impl, model = correspondence(chk, cases, tags, exe, drv, okb=okb,
                                 describe=lambda c, o: {"program": c[3:], "result": dec_val(o)[0] if o and isinstance(o[0], int) else o})
    # metamorphic check on the implementation itself: every mixed operator that yields a Quantity equals the
    # Quantity operator applied after converting the non-Quantity operands
    conv_cases, conv_idx = [], []
    for i, c in enumerate(cases):
        e = c[3:]
        if e[0] == 100 and e[2] == 2 and 1 <= e[1] <= 8 and e[3] == 0 and e[4] in (2, 3, 4):
            a, p = dec_val(e, 4)
            if e[p] != 0: continue
            b, _ = dec_val(e, p + 1)
            if (a[0], b[0]) not in (("Q", "T"), ("Q", "D"), ("T", "Q"), ("D", "Q"), ("T", "T"), ("D", "T")): continue
            base = e[1] if e[1] <= 4 else e[1] - 4
            if (a[0], b[0]) == ("T", "T") and base in (1, 2): continue
            if (a[0], b[0]) == ("D", "T") and base != 4: continue
            if impl[i] in ([98], [99]) or not impl[i] or impl[i][0] != 2: continue
            conv = lambda v: Lit(vQ(v[1], *v[2])) if v[0] == "Q" else Op(20, Lit(vT(v[1]) if v[0] == "T" else vD(v[1])))
            conv_cases.append(prog_case(cfg, Op(base, conv(a), conv(b)))); conv_idx.append(i)
    conv_out = run_sharded(exe, conv_cases)
    chk.cov["mixed_vs_converted_checked"] = len(conv_cases)
    for j, i in enumerate(conv_idx):
        if conv_out[j] != impl[i]:
            chk.violation("mixed operator differs from the Quantity operator on converted operands: %s vs %s [%s]" % (impl[i], conv_out[j], tags[i]),
                          {"case": cases[i], "converted_case": conv_cases[j], "impl": impl[i], "impl_converted": conv_out[j]}, True)
            break
    # monotonicity of Time -> Quantity on the implementation: sort all conversions seen by n
    pts = {}
    for c, o in zip(cases, impl):
        e = c[3:]
        if e[:3] == [100, 20, 1] and e[3:5] == [0, 3] and o and o[0] == 2:
            pts[e[5]] = b2frac(o[1])
    ks = sorted(pts)
    for a, b in zip(ks, ks[1:]):
        if pts[a] is not None and pts[b] is not None and pts[a] > pts[b]:
            chk.violation("Time -> Quantity is not monotone: %d -> %s but %d -> %s" % (a, float(pts[a]), b, float(pts[b])),
                          {"n1": a, "n2": b, "case": prog_case(cfg, Op(20, Lit(vT(a))))}, True)
            break
    chk.cov["monotone_pairs_checked"] = max(0, len(ks) - 1)
    if not proof["ok"] and not chk.violations:
        chk.violation("proof obligations of C18 no longer check: " + "; ".join(proof["problems"])[:1500],
                      {"theorem_file": "coq/theories/Properties/C18.v", "problems": proof["problems"]}, False)
    return chk.finish(proof,
        rule="i64 values stratified over magnitudes 0..2^63 and signs, neighbours of 2^24, 2^53, k*1e9, extremes, neighbours of binary32 rounding midpoints at every magnitude (double-rounding witnesses); f32 seconds by exponent strata below 9e9 plus out-of-range/saturating values; all 49 units; every operator form of the three tables; distinct = distinct (form, model result)",
        checker_cmd="make -C coq ; coqc Properties/C18.v (and C18B.v when present)",
        trusted=std_trusted())
