"""C06 — motion profile accessors agree with each other at every instant."""
import random
from mp_common import *

PID = "C06"
MODE_OF_PIECE = {1: 2, 2: 1, 3: 2}


def okb(case, io, mo):
    if io and io[0] in ("crash", "garbled"): return False, "implementation crashed"
    ts = case_times(case)
    r = parse_mp_output(io, ts)
    if r is None: return True, ""          # constructor panicked: allowed ("either panics or ...")
    t1, t2, t3 = r["t1"], r["t2"], r["t3"]
    if not (0 <= t1 <= t2 <= t3):
        return False, "constructor returned t1=%d t2=%d t3=%d, not 0 <= t1 <= t2 <= t3" % (t1, t2, t3)
    s1 = case[6:9]
    z = lambda b: (b & 0x7FFFFFFF) == 0
    endk = 2 if not z(s1[2]) else (1 if not z(s1[1]) else 0)
    if r["end"][0] != endk: return False, "end command kind %d, lowest non-zero derivative of the end state is %d" % (r["end"][0], endk)
    prev_rank = -1
    for q in sorted(r["q"], key=lambda q: q["t"]):
        t, pc = q["t"], q["piece"]
        if pc < prev_rank: return False, "piece goes back from %d to %d at t=%d" % (prev_rank, pc, t)
        prev_rank = pc
        want = 0 if t < 0 else (1 if t < t1 else (2 if t < t2 else (3 if t < t3 else 4)))
        if pc != want: return False, "piece %d at t=%d, expected %d (t1=%d t2=%d t3=%d)" % (pc, t, want, t1, t2, t3)
        if (pc == 0) != (t < 0): return False, "before-start piece at t=%d" % t
        if "PANIC" in (q["vel"], q["pos"], q["hist"]):
            continue      # arithmetic overflow at extreme instants: compared by the correspondence only
        if pc == 0:
            if not (q["mode"] is None and q["acc"] is None and q["hist"] is None and q["vel"] is None and q["pos"] is None):
                return False, "t=%d < 0 but some accessor is present" % t
            continue
        mode = MODE_OF_PIECE.get(pc, r["end"][0])
        if q["mode"] != mode: return False, "mode %s at t=%d in piece %d" % (q["mode"], t, pc)
        if q["acc"] is None or q["hist"] is None: return False, "acceleration/history absent at t=%d >= 0" % t
        if pc in (1, 2, 3):
            if q["vel"] is None or q["pos"] is None: return False, "velocity/position absent during the move at t=%d" % t
        else:
            if (q["vel"] is not None) != (endk <= 1) or (q["pos"] is not None) != (endk == 0):
                return False, "after completion (end kind %d) velocity present=%s position present=%s" % (endk, q["vel"] is not None, q["pos"] is not None)
        h = q["hist"]
        if h[0] != t: return False, "history stamped %d at t=%d" % (h[0], t)
        if h[1] != mode: return False, "history command kind %d, mode %d at t=%d" % (h[1], mode, t)
        src = {0: q["pos"], 1: q["vel"], 2: q["acc"]}[mode]
        if src is None or not (h[2] == src[0] or (is_nan_bits(h[2]) and is_nan_bits(src[0]))):
            return False, "history value %08x differs from the matching accessor %s at t=%d" % (h[2], src, t)
        if pc == 4 and (h[1], h[2]) != tuple(r["end"]) and not is_nan_bits(h[2]):
            return False, "after completion the history returns %s, end command is %s" % (h[1:], r["end"])
    return True, ""


def run(chk, replay=None):
    gens = gen_sources()
    proof = proof_check_streams(PID, "C06Streams", extra=("C06Formulas",))
    if gens.get("formulas_error"):
        proof["ok"] = False; proof["problems"].append("translator tools/gen_formulas.py cannot read the current source: " + gens["formulas_error"])
    drv = build_driver(); exe = build_harness("default"); cfg = harness_config(exe)
    if replay:
        r = json.load(open(replay)); c = r["case"]
        io, mo = run_sharded(exe, [c])[0], run_sharded(drv, [c])[0]
        print("impl :", io, "\nmodel:", mo, "\noracle:", okb(c, io, mo)); return 0 if io == mo and okb(c, io, mo)[0] else 1
    rng = random.Random(chk.seed)
    big = chk.tier != "quick"
    cases, tags, metas = build_cases(rng, cfg, exe, 2000 if not big else 60000, 4 if not big else 8)
    correspondence(chk, cases, tags, exe, drv, okb=okb,
        describe=lambda c, o: {"start": c[3:6], "end": c[6:9], "max_vel": c[9:12], "max_acc": c[12:15], "times": case_times(c)[:12], "output_head": o[:30]})
    chk.cov["query_times_per_profile"] = "t in {-1,0,1, t_i-1,t_i,t_i+1 for the three boundaries, i64 MIN/MAX and neighbours, negative, random in each piece, beyond t3}"
    chk.notes.append("t1..t3 are private: the harness reads them through Debug; the oracle re-derives the expected piece at every query time from them, so a boundary handled differently by one accessor shows as a failing instant")
    if not proof["ok"] and not chk.violations:
        chk.violation("proof obligations of C06 no longer check: " + "; ".join(proof["problems"])[:1500], {"theorem_file": "coq/theories/Properties/C06*.v", "problems": proof["problems"]}, False)
    return chk.finish(proof,
        rule="profiles: positions +-1e4, velocities within (and exactly at) the limit, limits log-uniform 1e-2..1e3; classes valid/reversed/zero-displacement/rejected/non-zero end velocity/non-zero end acceleration/tight; all six accessors at each query time; distinct = distinct (class, model output)",
        checker_cmd="make -C coq ; coqc Properties/C06.v C06B.v", trusted=std_trusted())
