"""C11 — CommandPID integrates its PID output 0, 1 or 2 times, by command kind."""
import itertools, random
from streams_common import *

PID = "C11"
NEED = {0: 1, 1: 2, 2: 3}


def cmd_eq(a, b):
    """Command PartialEq: same kind and IEEE-equal payload"""
    if a[0] != b[0]: return False
    if is_nan_bits(a[1]) or is_nan_bits(b[1]): return False
    return a[1] == b[1] or ((a[1] | b[1]) & 0x7FFFFFFF) == 0


def parse(case):
    cmd = (case[4], case[5]); ks = case[6:15]
    n = case[15]; pos = 16; evs = []
    for _ in range(n):
        tag = case[pos]; pos += 1
        if tag == 0:
            if case[pos] == 9:
                fol = None; pos += 1
            else:
                fol, pos = dec_out_py(case, pos, 2)
            inp, pos = dec_out_py(case, pos, 3)
            evs.append(("upd", fol, inp))
        else:
            evs.append(("set", (case[pos], case[pos + 1]))); pos += 2
    return cmd, ks, evs


def walk(cmd, evs):
    """reference bookkeeping: (current command, samples since restart, cached error, last request) after each event"""
    cur, n, err, last = cmd, 0, None, None
    res = []
    for ev in evs:
        early = False
        if ev[0] == "set":
            c2 = ev[1]; last = c2
            if not cmd_eq(c2, cur): cur, n, err = c2, 0, None
        else:
            fol, inp = ev[1], ev[2]
            if fol is not None and fol[0] == "E":
                early = True
            else:
                if fol is not None and fol[0] == "S":
                    c2 = (fol[2][0], fol[2][1]); last = c2
                    if not cmd_eq(c2, cur): cur, n, err = c2, 0, None
                if inp[0] == "N": n, err = 0, None
                elif inp[0] == "E": n, err = 0, inp[1]
                else: n, err = n + 1, None
        res.append((cur, n, err, last, early))
    return res


def okb(case, io, mo):
    if io and io[0] in ("crash", "garbled"): return False, "implementation crashed"
    cmd, ks, evs = parse(case)
    outs = split_outputs(2, io)
    ref = walk(cmd, evs)
    for i, (ev, o, (cur, n, err, last, early)) in enumerate(zip(evs, outs, ref)):
        if o == "PANIC": return True, ""
        u, g, same, lr = o
        if not same: return False, "get() twice differs after event %d" % i
        if lr != last and not (lr is not None and last is not None and lr[0] == last[0] and is_nan_bits(lr[1]) and is_nan_bits(last[1])):
            return False, "last request %s after event %d, expected %s" % (lr, i, last)
        if err is not None:
            if g != ("E", err): return False, "event %d: input error %d must be reported until the next present sample, got %s" % (i, err, g)
            continue
        if g[0] == "E": return False, "event %d: stale error %s" % (i, g)
        want_present = n >= NEED[cur[0]]
        if want_present != (g[0] == "S"):
            return False, "event %d: command kind %d with %d sample(s) since the last (re)start: output %s" % (i, cur[0], n, g[0])
        if ev[0] == "upd" and not early and ev[2][0] == "S" and g[0] == "S" and g[1] != ev[2][1]:
            return False, "event %d: output not stamped with the sample's time" % i
    return True, ""


def run(chk, replay=None):
    if replay: return replay_case(replay)
    proof = proof_check_streams(PID, "C11Streams", extra=("CtorStreams",))
    drv = build_driver(); exe = build_harness("default"); cfg = harness_config(exe)
    rng = random.Random(chk.seed)
    big = chk.tier != "quick"
    cases, tags, metas = [], [], []
    def rstate(): return [moderate_bits(rng) for _ in range(3)]
    def build(kind, letters, times):
        cmd = [kind, moderate_bits(rng)]
        ks = [moderate_bits(rng) for _ in range(9)]
        if rng.random() < 0.2: ks = [f2b(x) for x in (1.0, 0.01, 0.1)] * 3
        cur = list(cmd); evs = []; samples = []
        for L, t in zip(letters, times):
            if L == "s": evs.append([0, 9] + oSome(t, rstate()))
            elif L == "n": evs.append([0, 9] + oNone())
            elif L == "e": evs.append([0, 9] + oErr(rng.choice([1, 2])))
            elif L == "=": evs.append([1] + cur)
            elif L == "k":
                cur = [(cur[0] + rng.choice([1, 2])) % 3, moderate_bits(rng)]; evs.append([1] + cur)
            elif L == "v":
                cur = [cur[0], moderate_bits(rng)]; evs.append([1] + cur)
            elif L == "F":      # followed getter yields a (possibly different) command, then a sample
                if rng.random() < 0.5: cur = [rng.randrange(3), moderate_bits(rng)]
                evs.append([0] + oSome(t - 1, cur) + oSome(t, rstate()))
            elif L == "f": evs.append([0] + oNone() + oSome(t, rstate()))
            elif L == "x": evs.append([0] + oErr(2) + oSome(t, rstate()))
        c = [4, cfg["chk"], cfg["std"], 2] + cmd + ks + [len(evs)]
        for e in evs: c += e
        return c, (cmd, ks, evs)
    maxlen = 4 if not big else 5
    for kind in range(3):
        for n in range(1, maxlen + 1):
            for letters in itertools.product("sne=kv", repeat=n):
                c, m = build(kind, letters, gen_times(rng, n))
                cases.append(c); tags.append("kind%d/exhaustive" % kind); metas.append(m)
    for _ in range(1500 if not big else 60000):
        n = rng.randint(3, 48)
        letters = rng.choices("sne=kvFfx", weights=[12, 1, 1, 1, 0.7, 0.7, 1.5, 0.5, 0.5], k=n)
        c, m = build(rng.randrange(3), letters, gen_times(rng, n))
        cases.append(c); tags.append("random"); metas.append(m)
    impl, model = correspondence(chk, cases, tags, exe, drv, okb=okb,
        describe=lambda c, o: {"command": c[4:6], "kvalues": c[6:15], "events": c[15:], "per_event(update,get,last_request,same)": o})
    # metamorphic: after a restart the outputs equal those of a fresh controller with the current command fed only the
    # samples since the restart
    fr, ref = [], []
    mism = [i for i in range(len(cases)) if impl[i] != model[i]]
    order = mism + [i for i in rng.sample(range(len(cases)), min(len(cases), 1500 if not big else 20000)) if i not in set(mism)]
    for i in order[:3000 if not big else 30000]:
        cmd, ks, evs = parse(cases[i])
        w = walk(cmd, evs)
        outs = split_outputs(2, impl[i])
        if "PANIC" in outs: continue
        # find the start of the last run of samples
        j = len(evs) - 1
        if j < 0 or w[j][1] == 0 or w[j][4]: continue
        k = j
        run = []
        while k >= 0 and len(run) < w[j][1]:
            ev = evs[k]
            if ev[0] == "upd" and not w[k][4] and ev[2][0] == "S": run.append(ev[2])
            k -= 1
        run.reverse()
        cur = w[j][0]
        c2 = [4, cfg["chk"], cfg["std"], 2] + list(cur) + list(ks) + [len(run)]
        for s_ in run: c2 += [0, 9] + oSome(s_[1], s_[2])
        fr.append(c2); ref.append((i, outs[j][1]))
    fo = run_sharded(exe, fr)
    for (i, want), c2, o2 in zip(ref, fr, fo):
        got = split_outputs(2, o2)
        if got and got[-1] != "PANIC" and got[-1][1] != want:
            chk.violation("after a restart the output differs from a fresh controller fed the samples since the restart: %s vs %s" % (want, got[-1][1]),
                          {"case": cases[i], "fresh_case": c2, "impl": impl[i], "impl_fresh": o2}, True); break
    chk.cov["restart_equals_fresh_checked"] = len(fr)
    chk.cov["exhaustive"] = True
    chk.cov["exhaustive_part"] = "all event words of length <= %d over {sample, absent, error, set-same, set-other-kind, set-other-value} for each of the three command kinds; words with followed-getter events are sampled" % maxlen
    return finish_std(chk, proof, PID,
        "one case = one CommandPID driven by an event word; after each event: update()/set() result, get(), last request, second get(); gains and values of moderate magnitude; distinct = distinct (kind, model trace)")
