"""C05 — stateful streams: no stale errors, reset erases history, get is pure."""
import itertools, random
from streams_common import *

PID = "C05"
STREAM_IDS = (1, 3, 4, 5, 6, 7, 8, 9, 10, 11, 12, 13)     # + 2 (CommandPID, in C11) and 14 (freeze) below


def freeze_okb(evs, outs):
    held = ("N",)
    for i, ((cond, inp), o) in enumerate(zip(evs, outs)):
        if o == "PANIC": return True, ""
        u, g, same, _ = o
        if cond[0] == "E": exp = cond
        elif cond[0] == "N": exp = ("N",)
        elif cond[2][0] == 0: exp = inp
        else: exp = held
        if g != exp:
            return False, "freeze: after update %d (condition %s, input %s) get() = %s, expected %s" % (i, cond, inp, g, exp)
        if not same: return False, "freeze: get() twice differs"
        held = exp
    return True, ""


def okb(case, io, mo):
    if io and io[0] in ("crash", "garbled"):
        return False, "implementation crashed"
    s = case[3]
    if s == 14:
        n = case[4]; pos = 5; evs = []
        for _ in range(n):
            c, pos = dec_out_py(case, pos, 1); i, pos = dec_out_py(case, pos, 1); evs.append((c, i))
        return freeze_okb(evs, split_outputs(14, io))
    if s == 2:
        return True, ""
    pos = 4 + {1: 4, 3: 1, 4: 1, 5: 1, 6: 1, 12: 2}.get(s, 0)
    if s in (3, 4): pos += 1 + 3 * case[pos]
    n = case[pos]; pos += 1
    evs = []
    for _ in range(n):
        e, pos2 = dec_out_py(case, pos, IN_W[s])
        evs.append(case[pos:pos2]); pos = pos2
    return generic_okb(s, evs, split_outputs(s, io))


def run(chk, replay=None):
    if replay: return replay_case(replay)
    proof = proof_check_streams(PID, "C05Streams", extra=("C12MA", "C12MAQ", "CtorStreams"))
    drv = build_driver(); exe = build_harness("default"); cfg = harness_config(exe)
    rng = random.Random(chk.seed)
    big = chk.tier != "quick"
    b = Builder(cfg, exe)
    maxlen = 5 if not big else 7
    for s in STREAM_IDS:
        for word in all_words(maxlen):
            n = len(word)
            u = unit_for(rng, s)
            evs = events_from_word(rng, word, gen_times(rng, n, "inc"), payload_gen(rng, s, u))
            b.add(s, params_for(rng, s), evs, "%s/exhaustive" % STREAMS[s])
        for _ in range(250 if not big else 6000):
            n = rng.randint(6, 48)
            u = unit_for(rng, s, wrong=0.03)
            evs = events_from_word(rng, random_word(rng, n, (6, 2, 1, 1)), gen_times(rng, n, "inc"), payload_gen(rng, s, u))
            b.add(s, params_for(rng, s), evs, "%s/random" % STREAMS[s])
    cases, tags, metas = b.build()
    CA = [("cE", oErr(1)), ("cN", oNone()), ("cT", None), ("cF", None)]
    IA = [("iE", oErr(2)), ("iN", oNone()), ("iS", None)]
    fl = 3 if not big else 4
    for n in range(1, fl + 1):
        for word in itertools.product(*([range(4), range(3)] * n)):
            ts = gen_times(rng, n)
            evs = []
            for k in range(n):
                cn, inn = word[2 * k], word[2 * k + 1]
                cond = CA[cn][1] if CA[cn][1] is not None else oSome(ts[k], [1 if CA[cn][0] == "cT" else 0])
                inp = IA[inn][1] if IA[inn][1] is not None else oSome(ts[k], [moderate_bits(rng)])
                evs.append(cond + inp)
            cases.append(strm_case(cfg, 14, [], evs)); tags.append("FreezeStream/exhaustive"); metas.append((14, [], evs, None))
    impl, model = correspondence(chk, cases, tags, exe, drv, okb=okb,
        describe=lambda c, o: {"stream": STREAMS.get(c[3]), "case_tail": c[4:], "per_event(update,get,same)": o})
    mism = set(tuple(c) for c, i, m in zip(cases, impl, model) if i != m)
    metamorphic(chk, list(zip(cases, impl, metas)), exe, cfg, rng, limit=(6000 if not big else 60000), mismatch=mism)
    chk.cov["exhaustive"] = True
    chk.cov["exhaustive_part"] = "all event words of length <= %d over {present, absent, Err1, Err2} for 12 stream types (CommandPID words are in C11); freeze: all (condition, input) words of length <= %d over {Err, absent, true, false} x {Err, absent, present}; random words up to length 48 are sampled" % (maxlen, fl)
    chk.notes.append("freeze reading: an absent or errored condition overwrites the held value (DESIGN.md C05)")
    return finish_std(chk, proof, PID,
        "one case = one stream instance driven by an event word (strictly increasing timestamps), after each event: update() result, get(), second get(); metamorphic: reset-equals-fresh (a second fresh instance on the suffix) and deletion of an absent event; distinct = distinct (stream, model trace)")
