"""C10 — integral, derivative and to-state streams equal trapezoid sums and differences."""
import random
from streams_common import *

PID = "C10"
GRID = [(m, s) for m in range(-3, 4) for s in range(-3, 4)]
E2 = Fraction(1, 2**22)


def exact_check(s, evs, outs):
    """exact-rational recurrences over the run since the last reset, compared with tolerance"""
    run = []   # (t, x)
    V = []     # second-level series for to-state (velocity for a2s), with abs bounds
    unit_in = None
    Iacc = None; Iabs = Fraction(0)
    for i, (e, o) in enumerate(zip(evs, outs)):
        if o == "PANIC": return True, ""
        u, g, same, _ = o
        reset = (e[0] == 1) or (e[0] == 0 and s in (7, 8))
        if reset:
            run, V, Iacc, Iabs = [], [], None, Fraction(0)
            continue
        if e[0] == 0:
            continue
        t, xb, um, us = e[1], e[2], e[3], e[4]
        x = b2frac(xb)
        if x is None: return True, ""
        if run and t <= run[-1][0]: return True, ""         # outside the quantifier
        if unit_in is not None and unit_in != (um, us): return True, ""
        unit_in = (um, us)
        run.append((t, x))
        n = len(run)
        need = {7: 2, 8: 2, 9: 3, 10: 2, 11: 3}[s]
        if n < need:
            if g[0] == "S": return False, "%s: present output after only %d sample(s)" % (STREAMS[s], n)
            continue
        if g[0] != "S": return False, "%s: absent output after %d samples" % (STREAMS[s], n)
        if g[1] != t: return False, "%s: output stamped %d, newest sample is %d" % (STREAMS[s], g[1], t)
        dts = [Fraction(run[k][0] - run[k - 1][0], 10**9) for k in range(1, n)]
        xs = [r[1] for r in run]
        def trap(series, dts_):
            tot = Fraction(0); ab = Fraction(0); outl = [None]
            for k in range(1, len(series)):
                a = dts_[k - 1] * (series[k - 1] + series[k]) / 2
                tot += a; ab += abs(dts_[k - 1]) * (abs(series[k - 1]) + abs(series[k])) / 2
                outl.append((tot, ab))
            return outl
        if s == 7:
            val, ab = trap(xs, dts)[-1]
            got = b2frac(g[2][0])
            if got is not None and abs(got - val) > (n + 8) * E2 * ab + Fraction(1, 2**120):
                return False, "integral %s differs from the trapezoid sum %s" % (float(got), float(val))
            if (g[2][1], g[2][2]) != (um, us + 1): return False, "integral unit %s for input unit %s" % (g[2][1:], (um, us))
        elif s == 8:
            val = (xs[-1] - xs[-2]) / dts[-1]
            got = b2frac(g[2][0])
            if got is not None and abs(got - val) > 8 * E2 * (abs(xs[-1]) + abs(xs[-2])) / dts[-1] + Fraction(1, 2**120):
                return False, "derivative %s differs from the difference quotient %s" % (float(got), float(val))
            if (g[2][1], g[2][2]) != (um, us - 1): return False, "derivative unit %s for input unit %s" % (g[2][1:], (um, us))
        else:
            gp, gv, ga = [b2frac(b) for b in g[2]]
            if None in (gp, gv, ga): continue
            if s == 9:
                vs = trap(xs, dts)            # velocity series from index 1
                vser = [Fraction(0)] + [v[0] for v in vs[1:]]
                vab = vs[-1][1]
                # position integrates the velocity series from the second sample on
                ptot = Fraction(0); pab = Fraction(0)
                for k in range(2, n):
                    ptot += dts[k - 1] * (vser[k - 1] + vser[k]) / 2
                    pab += dts[k - 1] * (vs[k - 1][1] + vs[k][1]) / 2
                if ga != xs[-1]: return False, "acceleration-to-state does not report the newest acceleration"
                if abs(gv - vser[-1]) > (n + 8) * E2 * vab + Fraction(1, 2**120): return False, "velocity %s vs trapezoid sum %s" % (float(gv), float(vser[-1]))
                if abs(gp - ptot) > (2 * n + 16) * E2 * pab + Fraction(1, 2**120): return False, "position %s vs double trapezoid sum %s" % (float(gp), float(ptot))
            elif s == 10:
                ps = trap(xs, dts)[-1]
                acc = (xs[-1] - xs[-2]) / dts[-1]
                if gv != xs[-1]: return False, "velocity-to-state does not report the newest velocity"
                if abs(gp - ps[0]) > (n + 8) * E2 * ps[1] + Fraction(1, 2**120): return False, "position %s vs trapezoid sum %s" % (float(gp), float(ps[0]))
                if abs(ga - acc) > 8 * E2 * (abs(xs[-1]) + abs(xs[-2])) / dts[-1] + Fraction(1, 2**120): return False, "acceleration %s vs difference quotient %s" % (float(ga), float(acc))
            else:
                v1 = (xs[-1] - xs[-2]) / dts[-1]; v0 = (xs[-2] - xs[-3]) / dts[-2]
                acc = (v1 - v0) / dts[-1]
                if gp != xs[-1]: return False, "position-to-state does not report the newest position"
                if abs(gv - v1) > 8 * E2 * (abs(xs[-1]) + abs(xs[-2])) / dts[-1] + Fraction(1, 2**120): return False, "velocity %s vs difference quotient %s" % (float(gv), float(v1))
                cond = (abs(xs[-1]) + abs(xs[-2])) / dts[-1] + (abs(xs[-2]) + abs(xs[-3])) / dts[-2]
                if abs(ga - acc) > 32 * E2 * cond / dts[-1] + Fraction(1, 2**120): return False, "acceleration %s vs second difference %s" % (float(ga), float(acc))
    return True, ""


def okb(case, io, mo):
    if io and io[0] in ("crash", "garbled"): return False, "implementation crashed"
    s = case[3]
    pos = 4
    n = case[pos]; pos += 1
    evs = []
    for _ in range(n):
        e, pos2 = dec_out_py(case, pos, 3); evs.append(case[pos:pos2]); pos = pos2
    outs = split_outputs(s, io)
    ok, why = generic_okb(s, evs, outs)
    if not ok: return ok, why
    # wrongly dimensioned input must panic (to-state, checking on), and nothing else may
    if s in TOSTATE_UNIT:
        for i, e in enumerate(evs):
            if e[0] == 2 and (e[3], e[4]) != TOSTATE_UNIT[s]:
                if not (len(outs) == i + 1 and outs[i] == "PANIC"):
                    return False, "%s accepted a sample with unit (%d,%d)" % (STREAMS[s], e[3], e[4])
                return True, ""
        if "PANIC" in outs and all(abs(e[1]) < 2**62 for e in evs if e[0] == 2):
            return False, "%s panicked on correctly dimensioned input" % STREAMS[s]
    return exact_check(s, evs, outs)


def run(chk, replay=None):
    if replay: return replay_case(replay)
    proof = proof_check_streams(PID, "C10Streams", extra=("CtorStreams",))
    drv = build_driver(); exe = build_harness("default"); cfg = harness_config(exe)
    rng = random.Random(chk.seed)
    big = chk.tier != "quick"
    b = Builder(cfg, exe)
    for s in (7, 8):
        for u in GRID:                       # every input unit of the 7x7 grid, short histories
            for _ in range(6 if not big else 60):
                n = rng.randint(2, 6)
                evs = events_from_word(rng, random_word(rng, n, (8, 1, 0.5, 0.5)), gen_times(rng, n), payload_gen(rng, s, u))
                b.add(s, [], evs, "%s/unit-grid" % STREAMS[s])
    for s in (7, 8, 9, 10, 11):
        for _ in range(700 if not big else 30000):
            n = rng.randint(1, 64) if rng.random() < 0.6 else rng.randint(1, 8)
            u = unit_for(rng, s, wrong=0.05)
            mode = rng.choices(["present", "mixed"], weights=[1, 2])[0]
            word = "S" * n if mode == "present" else random_word(rng, n, (8, 1, 0.5, 0.5))
            evs = events_from_word(rng, word, gen_times(rng, n, "inc" if rng.random() < 0.9 else "bad"), payload_gen(rng, s, u))
            b.add(s, [], evs, "%s/%s" % (STREAMS[s], mode), mode)
    cases, tags, metas = b.build()
    impl, model = correspondence(chk, cases, tags, exe, drv, okb=okb,
        describe=lambda c, o: {"stream": STREAMS.get(c[3]), "events": c[4:], "per_event(update,get,same)": o})
    # shift invariance on the implementation
    sh, ref = [], []
    for c, io, (s, p, evs, meta) in zip(cases, impl, metas):
        if len(sh) >= (800 if not big else 10000): break
        d = rng.choice([1, -1, 10**9, -10**12, 123456789, 10**15])
        if all(I64_MIN <= e[1] + d <= I64_MAX for e in evs if e[0] == 2):
            sh.append(strm_case(cfg, s, p, [e if e[0] != 2 else [2, e[1] + d] + e[2:] for e in evs])); ref.append((c, io, d, s))
    so = run_sharded(exe, sh)
    for (c, io, d, s), o in zip(ref, so):
        a, bb = split_outputs(s, io), split_outputs(s, o)
        ok = len(a) == len(bb) and all(x == y or (x != "PANIC" and y != "PANIC" and x[0] == y[0] and x[1][0] == y[1][0] == "S" and x[1][1] + d == y[1][1] and x[1][2] == y[1][2]) for x, y in zip(a, bb))
        if not ok:
            chk.violation("%s: shifting all timestamps by %d changes the outputs" % (STREAMS[s], d), {"case": c, "shift": d, "impl": io, "impl_shifted": o}, True); break
    chk.cov["shift_histories_checked"] = len(sh)
    chk.cov["exhaustive_part"] = "every input unit of the 7x7 grid for the integral and derivative streams (short histories); histories are sampled"
    chk.notes.append("rounding: the recurrences are proved for every carrier; closeness of the binary32 values to the exact trapezoid sums / quotients is measured by the exact-rational oracle (tolerance (n+8)*2^-22 * sum of |terms|), not proved")
    return finish_std(chk, proof, PID,
        "histories of 1..64 events, intervals 1 us..10 h, 5% wrongly dimensioned to-state inputs, 10% with non-increasing timestamps (correspondence only); distinct = distinct (stream/mode, model trace)")
