"""C16 — no safe use of the API reads uninitialised memory, goes out of bounds or dangles (second sentence partial)."""
import itertools, random, re
from common import *
from world_gen import *
import probes

PID = "C16"


def okb(case, io, mo):
    if io and io[0] in ("crash", "garbled"): return False, "implementation crashed (possible read of unwritten memory)"
    if case[0] == 8:
        n, i = case[1], case[2]
        if i >= n and io != [99]: return False, "Axle::<%d>::get_terminal(%d) returned a reference instead of panicking: index out of range" % (n, i)
        if i < n and io != [0]: return False, "Axle::<%d>::get_terminal(%d) did not return one of the axle's own terminals" % (n, i)
        return True, ""
    if case[0] == 3 and case[3] in (1, 2):
        # with the scratch arrays poisoned (0x7F bytes) a read of an unwritten slot shows as a huge value/timestamp
        n = case[5]; pos = 6; ins = []
        for _ in range(n):
            o, pos = dec_out_py(case, pos, 1); ins.append(o)
        r, _ = dec_out_py(io, 0, 1)
        errs = [i for i in ins if i[0] == "E"]; pres = [i for i in ins if i[0] == "S"]
        if errs: return (r == errs[0], "error input not returned")
        if not pres: return (r == ("N",), "all inputs absent but result %s" % (r,))
        if r[0] != "S": return False, "present inputs but result %s" % (r,)
        if r[1] != max(p[1] for p in pres): return False, "result time %d depends on a slot that was never written (newest input time %d)" % (r[1], max(p[1] for p in pres))
        tot = sum(b2frac(p[2][0]) for p in pres) if case[3] == 1 else None
        got = b2frac(r[2][0])
        if tot is not None and got is not None and abs(got - tot) > Fraction(1, 2**18) * sum(abs(b2frac(p[2][0])) for p in pres) + Fraction(1, 2**100):
            return False, "sum %s depends on unwritten memory (inputs sum to %s)" % (float(got), float(tot))
        if got is None and all(abs(b2frac(p[2][0])) < 10**6 for p in pres): return False, "non-finite result from finite inputs: unwritten slot read"
        return True, ""
    return True, ""


def run(chk, replay=None):
    gens = gen_sources()
    proof = proof_check_streams(PID, "C16Slots", extra=("C16Signatures", "C09Streams", "C08Devices"))
    drv = build_driver(); exe = build_harness("devices"); cfg = harness_config(exe)
    if replay:
        r = json.load(open(replay))
        if "case" not in r: print(r.get("what")); return 1
        c = r["case"]
        io, mo = run_sharded(exe, [c])[0], run_sharded(drv, [c])[0]
        print("impl :", io[:80], "\nmodel:", mo[:80], "\noracle:", okb(c, io, mo)); return 0 if io == mo and okb(c, io, mo)[0] else 1
    if not cfg["hook"]:
        chk.violation("harness was not built with --cfg rrtk_verif: the scratch arrays are not poisoned", {"config": cfg}, False)
    rng = random.Random(chk.seed)
    big = chk.tier != "quick"
    cases, tags = [], []
    hdr = lambda comb, n: [3, cfg["chk"], cfg["std"], comb, 0, n]
    # (1) all arities 1..8 x all 2^N absent/present patterns of the n-ary sum and product, scratch arrays poisoned
    for comb in (1, 2):
        for n in range(1, 9):
            for pat in itertools.product([0, 1], repeat=n):
                c = hdr(comb, n)
                for k, p in enumerate(pat):
                    c += oSome(100 + k, [f2b(float(rng.randint(1, 9)))]) if p else oNone()
                cases.append(c); tags.append("%s/%d" % ("sum" if comb == 1 else "product", n))
            for _ in range(20):      # with errors in between
                c = hdr(comb, n)
                for k in range(n):
                    c += rng.choice([oSome(100 + k, [f2b(float(rng.randint(1, 9)))]), oNone(), oErr(1)])
                cases.append(c); tags.append("%s-err/%d" % ("sum" if comb == 1 else "product", n))
    # (2) terminal state read: all four own/partner presence combinations (connected and not)
    for own, par, conn in itertools.product([0, 1], repeat=3):
        ops = ([[1, 0, 1]] if conn else []) + ([[3, 0, 5] + rstate(rng)] if own else []) + ([[3, 1, 7] + rstate(rng)] if par else []) + [[7]]
        cases.append(world_case(cfg, 2, [], ops)); tags.append("terminal-read")
    # (3) axle constructor sizes 0..8: construct, feed, update, read everything; safe indexing
    for n in range(0, 9):
        ops = [[3, i, 10 + i] + rstate(rng) for i in range(n) if rng.random() < 0.7] + [[7], [5, 0], [7]]
        cases.append(world_case(cfg, 0, [[3, n]], ops)); tags.append("axle-new/%d" % n)
        for i in range(0, n + 3):
            cases.append([8, n, i]); tags.append("axle-index")
    correspondence(chk, cases, tags, exe, drv, okb=okb, describe=lambda c, o: {"case": c[:40], "output": o[:40]})
    # the same cases, panicking ones included, on an optimised build without debug assertions: none of them involves integer
    # overflow, so the release build must behave exactly like the model (an out-of-range index must still panic, not read memory)
    exe_r = build_harness("std_chk_rel")
    rel = run_sharded(exe_r, cases); mod = run_sharded(drv, cases)
    for c, t, ro, mo in zip(cases, tags, rel, mod):
        if ro != mo:
            what = "release build: out-of-range or unchecked access instead of a panic" if mo == [99] else "release build differs from the model"
            chk.violation("%s [%s]: %s vs model %s" % (what, t, ro[:12], mo[:12]), {"case": c, "tag": t, "impl_release": ro, "model": mo,
                          "release_config": CONFIGS["std_chk_rel"][0] + " --release"}, True)
            break
    chk.cov["release_build_cases_compared_with_model"] = len(cases)
    chk.cov["exhaustive"] = True
    chk.cov["exhaustive_part"] = "arities 1..8 x all 2^N absent/present patterns of SumStream and ProductStream with the MaybeUninit arrays poisoned by the rrtk_verif hook; the four own/partner presence combinations of a terminal (x connected or not); axle sizes 0..8 with every index 0..N+2"
    # (4) lifetimes: signature tables and compile probes (report, not proof)
    ps = probes.c16_probes(gens["accessors"], gens["ctors"])
    res, log, pdir = probes.build_probes("c16", ps)
    chk.cov["compile_probes"] = len(res)
    for name in sorted(ps):
        src, exp = ps[name]
        if src is None:
            chk.violation("accessor %s returns a terminal reference but the probe generator has no template for its type" % name, {"probe": name}, False); continue
        compiled = res.get(name)
        chk.cov["evaluations"] += 1
        if exp == "reject" and compiled:
            m = re.match(r"dangle_([A-Za-z]+)_(.+)", name)
            if m:
                chk.violation("safe program keeps the reference returned by %s::%s after the device is dropped and rustc accepts it" % (m.group(1), m.group(2)),
                              {"probe_source": os.path.join(pdir, "src", "bin", name + ".rs"), "how": "cargo build --bin %s in %s" % (name, pdir)}, True,
                              key="dangling-accessor:%s::%s" % (m.group(1), m.group(2)))
            else:
                chk.violation("a raw-pointer constructor is callable from safe code: %s compiles" % name,
                              {"probe_source": os.path.join(pdir, "src", "bin", name + ".rs")}, True)
        elif exp == "reject" and not compiled:
            if name.startswith("safe_ctor") and not re.search(re.escape(name) + r"\.rs[^\n]*E0133", log):
                chk.notes.append("probe %s was rejected for a reason other than E0133; inconclusive" % name)
            chk.cov["traces_validated_against_impl"] += 1
    if big:
        # Miri on one dangling probe: supporting evidence only
        p = sh("timeout 900 cargo +nightly miri run --offline --bin dangle_Invert_get_terminal_1", cwd=pdir, check=False, timeout=1000)
        chk.cov["miri_reports_undefined_behaviour"] = bool(re.search(r"Undefined Behavior|dangling|use-after-free|has been freed", p.stdout))
    chk.assumptions += ["second sentence (lifetimes over all safe programs) is not decided: signature tables + compile probes + Miri report, they do not prove",
                        "the abstract region model in Properties/C16.v is a model of the borrow rule, not of rustc"]
    if not proof["ok"] and not any(not v["found"] for v in chk.violations):
        chk.violation("proof obligations of C16 no longer check: " + "; ".join(proof["problems"])[:1500],
                      {"theorem_file": "coq/theories/Properties/C16.v, coq/gen_theorems/C16Signatures.v", "problems": proof["problems"]}, False)
    return chk.finish(proof,
        rule="slot-level coverage as in exhaustive_part (values small integers so that a poisoned slot is unmistakable); one compile probe per terminal accessor and per raw-pointer constructor generated from the signature tables; distinct = distinct (family, model output)",
        checker_cmd="make -C coq ; coqc Properties/C16.v ; coqc gen_theorems/C16Signatures.v over regenerated GenAccessors.v ; cargo build of the probes",
        trusted=std_trusted() + ["translator tools/gen_accessors.py (regex over impl blocks)", "rustc as the oracle for the compile probes; Miri (thorough tier) as supporting evidence"])
