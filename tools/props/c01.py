"""C01 — dimensional analysis: exponents compose additively, mismatches panic."""
import random
from common import *

PID = "C01"
BIN = {1: "+", 2: "-", 3: "*", 4: "/", 5: "+=", 6: "-=", 7: "*=", 8: "/="}
GRID = [(m, s) for m in range(-3, 4) for s in range(-3, 4)]


def py_denote(name):
    """independent re-implementation of the name grammar, used only to exhibit a failing constant"""
    inv = per = False
    last = None
    m = s = 0
    for t in name.split("_"):
        sg = -1 if (inv or per) else 1
        if t == "INVERSE": inv = True
        elif t == "PER": per = True; last = None
        elif t == "DIMENSIONLESS": last = None
        elif t == "MILLIMETER": m += sg; last = "m"
        elif t == "SECOND": s += sg; last = "s"
        elif t in ("SQUARED", "CUBED"):
            k = sg * (1 if t == "SQUARED" else 2)
            if last == "m": m += k
            elif last == "s": s += k
            else: return None
            last = None
        else:
            return None
    return (m, s)


def fop(o, a, b):
    x, y = b2f(a), b2f(b)
    try:
        if o == 1: r = x + y
        elif o == 2: r = x - y
        elif o == 3: r = x * y
        else:
            if y == 0:
                if x == 0 or x != x: return 0x7FC00000
                import math
                neg = (math.copysign(1, x) < 0) != (math.copysign(1, y) < 0)
                return 0xFF800000 if neg else 0x7F800000
            r = x / y
    except OverflowError:
        return None
    try:
        rb = f2b(r)
    except OverflowError:
        return None
    return 0x7FC00000 if r != r else rb


def okb(case, io, mo):
    """Property oracle on the implementation's output for single-operator Quantity/Unit cases."""
    e = case[3:]
    if e[0] != 100 or e[2] != 2:
        return True, ""
    o = e[1]
    args = e[3:]
    # two literals
    if args[0] != 0: return True, ""
    a, p = dec_val(args, 1)
    if args[p] != 0: return True, ""
    b, p = dec_val(args, p + 1)
    if io and io[0] in ("crash", "garbled"):
        return False, "implementation crashed"
    if a[0] == "Q" and b[0] == "Q":
        ua, ub = a[2], b[2]
        base = o - 4 if 5 <= o <= 8 else o
        if o in (1, 2, 5, 6, 13):
            if ua != ub:
                return (io == [99], "units %s %s differ but no panic" % (ua, ub))
            if io == [99]:
                return False, "equal units %s but the operation panicked" % (ua,)
            if o == 13:
                return True, ""
            exp_u = ua
        elif o in (3, 4, 7, 8):
            if io == [99]:
                return False, "multiplication/division panicked"
            exp_u = (ua[0] + ub[0], ua[1] + ub[1]) if base == 3 else (ua[0] - ub[0], ua[1] - ub[1])
        else:
            return True, ""
        r, _ = dec_val(io)
        if r[0] != "Q":
            return False, "result is not a quantity"
        if r[2] != exp_u:
            return False, "result unit %s, expected %s for %s %s %s" % (r[2], exp_u, ua, BIN.get(o, o), ub)
        ev = fop(base, a[1], b[1])
        if ev is not None and r[1] != ev:
            return False, "numeric part %08x is not the f32 result %08x of the raw operator" % (r[1], ev)
        return True, ""
    if 1 <= o <= 8 and {a[0], b[0]} in ({"Q", "T"}, {"Q", "D"}):
        # mixed forms: the Time / integer operand converts to seconds / a dimensionless number, then the Quantity rule applies
        if io in ([98], [97]) or mo in ([98], [97]):
            return True, ""
        def conv(v):
            if v[0] == "Q": return v[1], v[2]
            n = frac_to_f32_bits(v[1])
            return (fop(4, n, f2b(1e9)), (0, 1)) if v[0] == "T" else (n, (0, 0))
        (va, ua), (vb, ub) = conv(a), conv(b)
        base = o - 4 if o >= 5 else o
        if base in (1, 2):
            if ua != ub:
                return (io == [99], "mixed operands with units %s %s differ but no panic" % (ua, ub))
            exp_u = ua
        else:
            exp_u = (ua[0] + ub[0], ua[1] + ub[1]) if base == 3 else (ua[0] - ub[0], ua[1] - ub[1])
        if io == [99]:
            return False, "mixed operation panicked on units %s %s" % (ua, ub)
        r, _ = dec_val(io)
        if r[0] != "Q":
            return True, ""
        if r[2] != exp_u:
            return False, "mixed form: result unit %s, expected %s" % (r[2], exp_u)
        ev = fop(base, va, vb)
        if ev is not None and va is not None and vb is not None and r[1] != ev and not (is_nan_bits(r[1]) and is_nan_bits(ev)):
            return False, "mixed form: numeric part %08x is not the f32 result %08x of the raw operator on the converted operands" % (r[1], ev)
        return True, ""
    if a[0] == "U" and b[0] == "U" and 1 <= o <= 8:
        ua, ub = a[1], b[1]
        base = o - 4 if o >= 5 else o
        if base in (1, 2):
            if ua != ub:
                return (io == [99], "bare units %s %s differ but no panic" % (ua, ub))
            exp_u = ua
        else:
            exp_u = (ua[0] + ub[0], ua[1] + ub[1]) if base == 3 else (ua[0] - ub[0], ua[1] - ub[1])
        if io == [99]:
            return False, "unit operation panicked on %s %s %s" % (ua, BIN[o], ub)
        r, _ = dec_val(io)
        return (r == ("U", exp_u), "bare unit result %s, expected %s" % (r, exp_u))
    return True, ""


def describe(case, out):
    return {"program": case[3:], "result": dec_val(out)[0] if out and isinstance(out[0], int) else out}


def gen(rng, tier, cfg, consts):
    cases, tags = [], []
    def add(e, tag):
        cases.append(prog_case(cfg, e)); tags.append(tag)
    rb = lambda: rand_f32_bits(rng, moderate=(rng.random() < 0.6), specials=0.1)
    units = [(m, s) for _, m, s in consts]
    # (1) exhaustive: all ordered pairs of named constants x every binary operator form on quantities and bare units
    for ua in units:
        for ub in units:
            for o in (1, 2, 3, 4, 5, 6, 7, 8, 12, 13):
                add(Op(o, Lit(vQ(rb(), *ua)), Lit(vQ(rb(), *ub))), "QQ" + str(o))
            for o in (1, 2, 3, 4, 5, 6, 7, 8, 12, 40, 41, 42, 43, 44, 45):
                add(Op(o, Lit(vU(*ua)), Lit(vU(*ub))), "UU" + str(o))
    # (2) unary forms and conversions on every named constant
    for u in units:
        for o in (9, 11, 21, 22, 23, 27):
            add(Op(o, Lit(vQ(rb(), *u))), "Q1_" + str(o))
        for o in (9, 28):
            add(Op(o, Lit(vU(*u))), "U1_" + str(o))
    for k in range(3):
        add(Op(29, Lit(vPD(k))), "pd_unit")
        add(Op(28, Op(29, Lit(vPD(k)))), "pd_roundtrip")
        add(Op(20, Lit(vC(k, rb()))), "q_from_command")
        add(Op(27, Op(20, Lit(vC(k, rb())))), "command_roundtrip")
    for k in range(5):
        add(Op(29, Lit(vPiece(k))), "piece_unit")
        add(Op(28, Lit(vPiece(k))), "piece_pd")
    # (3) mixed operands with Time and DimensionlessInteger, every form of the three tables, every unit
    def ri():
        r = rng.random()
        if r < 0.15: return rng.choice([0, 1, -1, 2, 1000000000, -1000000000, 16777217, 2**53 + 1, 123456789012])
        if r < 0.35:
            # midpoint between adjacent binary32 values +- 1 at |n| >= 2^53 (a detour through f64 rounds twice)
            k = rng.randint(31, 39); m = rng.getrandbits(24) | (1 << 23)
            v = min((m << k) + (1 << (k - 1)) + rng.choice([-1, 1]), (1 << 63) - 1)
            return v if rng.random() < 0.5 else -v
        return rng.randint(-10**rng.randint(1, 12), 10**rng.randint(1, 12))
    for u in units:
        for o in range(1, 9):
            add(Op(o, Lit(vQ(rb(), *u)), Lit(vT(ri()))), "QT" + str(o))
            add(Op(o, Lit(vQ(rb(), *u)), Lit(vD(ri()))), "QD" + str(o))
        for o in range(1, 5):
            add(Op(o, Lit(vT(ri())), Lit(vQ(rb(), *u))), "TQ" + str(o))
            add(Op(o, Lit(vD(ri())), Lit(vQ(rb(), *u))), "DQ" + str(o))
    # operands that cancel or coincide exactly: the Quantity holds exactly the value the Time / integer converts to
    # (results +-0, 1, -1: the sign of a zero result is part of "the plain f32 result")
    for n_ in [0, 1, -1, 2, -2, 5, 1000000000, -1000000000, 3000000000, 500000000, -250000000, 16777216, 123456789, -987654321]:
        qt = f32_div_bits(f32_of_int_bits(n_), f2b(1e9)); qd = f32_of_int_bits(n_)
        for sgn in (0, 0x80000000):
            for o in range(1, 9):
                add(Op(o, Lit(vQ(qt ^ sgn, 0, 1)), Lit(vT(n_))), "QT%d/cancel" % o)
                add(Op(o, Lit(vQ(qd ^ sgn, 0, 0)), Lit(vD(n_))), "QD%d/cancel" % o)
            for o in range(1, 5):
                add(Op(o, Lit(vT(n_)), Lit(vQ(qt ^ sgn, 0, 1))), "TQ%d/cancel" % o)
                add(Op(o, Lit(vD(n_)), Lit(vQ(qd ^ sgn, 0, 0))), "DQ%d/cancel" % o)
    for _ in range(60):
        for o in range(1, 9):
            add(Op(o, Lit(vT(ri())), Lit(vT(ri()))), "TT" + str(o))
            add(Op(o, Lit(vD(ri())), Lit(vD(ri()))), "DD" + str(o))
            add(Op(o, Lit(vT(ri())), Lit(vD(ri()))), "TD" + str(o))
        for o in (3, 4):
            add(Op(o, Lit(vD(ri())), Lit(vT(ri()))), "DT" + str(o))
    # (4) random exponents up to |60|
    n = 4000 if tier == "quick" else 150000
    for _ in range(n):
        same = rng.random() < 0.4
        ua = (rng.randint(-60, 60), rng.randint(-60, 60))
        ub = ua if same else (rng.randint(-60, 60), rng.randint(-60, 60))
        if rng.random() < 0.1:
            ub = (ua[0], ua[1] + rng.choice([-1, 1])) if rng.random() < 0.5 else (ua[0] + rng.choice([-1, 1]), ua[1])
        o = rng.choice([1, 2, 3, 4, 5, 6, 7, 8, 12, 13])
        if rng.random() < 0.5:
            add(Op(o, Lit(vQ(rb(), *ua)), Lit(vQ(rb(), *ub))), "rndQQ" + str(o))
        else:
            add(Op(o if o < 12 else 43, Lit(vU(*ua)), Lit(vU(*ub))), "rndUU")
    return cases, tags


def run(chk, replay=None):
    gens = gen_sources()
    consts = [(n, int(m), int(s)) for n, m, s in gens["constants"]]
    proof = proof_check(PID, gen_theorems=["C01Constants", "OpsTable"])
    proof = add_ops_table(proof, gen_sources())
    drv = build_driver()
    exe = build_harness("default")
    cfg = harness_config(exe)
    if replay:
        r = json.load(open(replay))
        c = r["case"]
        io, mo = run_sharded(exe, [c])[0], run_sharded(drv, [c])[0]
        print("impl :", io, "\nmodel:", mo, "\noracle:", okb(c, io, mo))
        return 0 if io == mo and okb(c, io, mo)[0] else 1
    rng = random.Random(chk.seed)
    # --- constants: the compiled constant of each name vs the translated table vs what the name states
    probe = run_sharded(exe, [[2, i] for i in range(len(consts))])
    for i, (n, m, s) in enumerate(consts):
        chk.cov["evaluations"] += 1
        named = py_denote(n)
        if probe[i] != [5, m, s]:
            chk.violation("compiled constant %s has exponents %s, the source table says (%d,%d)" % (n, probe[i], m, s),
                          {"constant": n, "impl": probe[i], "table": [m, s]}, True)
        elif named != (m, s):
            chk.violation("constant %s has exponents (%d,%d) but its name states %s" % (n, m, s, named),
                          {"constant": n, "exponents": [m, s], "name_states": named}, True)
        else:
            chk.cov["traces_validated_against_impl"] += 1
    if gens["n_pub_const"] != len(consts):
        chk.violation("constants.rs has %d `pub const` items but the translator understood %d" % (gens["n_pub_const"], len(consts)),
                      {"theorem": "C01_constants_cover_grid"}, False)
    if sorted((m, s) for _, m, s in consts) != sorted(GRID):
        missing = sorted(set(GRID) - set((m, s) for _, m, s in consts))
        chk.violation("named constants do not cover the 7x7 grid exactly; missing %s" % (missing[:5],),
                      {"missing": missing, "count": len(consts)}, True)
    cases, tags = gen(rng, chk.tier, cfg, consts)
    correspondence(chk, cases, tags, exe, drv, okb=okb, describe=describe)
    chk.cov["exhaustive"] = True
    chk.cov["exhaustive_part"] = "all 49x49 ordered pairs of named constants x {+,-,*,/,+=,-=,*=,/=,==,partial_cmp} on quantities and x 15 forms on bare units; all 49 units x mixed forms with Time/DimensionlessInteger; random exponents are sampled"
    if not proof["ok"] and not chk.violations:
        chk.violation("proof obligations of C01 no longer check: " + "; ".join(proof["problems"])[:1500],
                      {"theorem_file": "coq/theories/Properties/C01.v, coq/gen_theorems/C01Constants.v", "problems": proof["problems"]}, False)
    return chk.finish(proof,
        rule="case = one operator applied to literal operands; exhaustive over unit pairs/operator forms as listed in exhaustive_part, values random f32 bit patterns (60% moderate magnitudes, 10% specials incl. +-0, subnormals, max); distinct = distinct (operator form, model result); non-trivial = not an ill-typed/undecodable case",
        checker_cmd="make -C coq (coqc 8.16.1) ; coqc Properties/C01.v ; coqc gen_theorems/C01Constants.v over regenerated GenConstants.v",
        trusted=std_trusted() + ["translator tools/gen_constants.py (one regex over constants.rs; checked: number of `pub const` items = number translated)"])
