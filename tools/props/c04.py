"""C04 — PIDControllerStream output equals the textbook discrete PID of its input history."""
import random
from fractions import Fraction
from common import *
from common import proof_check_streams
from streams_gen import *

PID = "C04"
EPS2 = Fraction(1, 2**23)


def gen_hist(rng, n, mode):
    if mode == "present":
        word = "S" * n
    elif mode == "mixed":
        word = random_word(rng, n, (8, 1, 0.5, 0.5))
    else:
        word = random_word(rng, n, (6, 1, 1, 1))
    style = "bad" if mode == "malformed" else "inc"
    return word, gen_times(rng, n, style)


def pid_cases(cfg, params, evs_f32):
    """the same history for the controller (stream 1) and the example's stream assembly (stream 15, Quantity mm input)"""
    c1 = strm_case(cfg, 1, params, evs_f32)
    evs_q = [e if e[0] != 2 else [2, e[1], e[2], 1, 0] for e in evs_f32]
    c15 = strm_case(cfg, 15, params, evs_q)
    return c1, c15


def parse_case(case):
    sp, kp, ki, kd = case[4:8]
    n = case[8]
    evs, pos = [], 9
    for _ in range(n):
        o, pos = dec_out_py(case, pos, 1)
        evs.append(o)
    return (sp, kp, ki, kd), evs


def textbook(params, evs):
    """exact-rational PID of the history: list of (expected value or None, tolerance) per event"""
    sp, kp, ki, kd = [b2frac(x) for x in params]
    out = []
    run = []           # (t, e) since last reset
    I = Fraction(0); S_abs = Fraction(0)
    for ev in evs:
        if ev[0] != "S" or None in (sp, kp, ki, kd):
            run, I, S_abs = [], Fraction(0), Fraction(0)
            out.append(None); continue
        x = b2frac(ev[2][0])
        if x is None:
            run, I, S_abs = [], Fraction(0), Fraction(0); out.append(None); continue
        t = ev[1]; e = sp - x
        D = Fraction(0); dterm = Fraction(0)
        if run:
            tp, ep = run[-1]
            dt = Fraction(t - tp, 10**9)
            if dt <= 0:
                # outside the property's quantifier (timestamps strictly increasing): no textbook claim from here on
                out += [None] * (len(evs) - len(out)); return out
            a = dt * (ep + e) / 2
            I += a; S_abs += abs(dt) * (abs(ep) + abs(e)) / 2
            D = (e - ep) / dt
            dterm = (abs(e) + abs(ep) + abs(sp) * 2) / dt
        run.append((t, e))
        val = kp * e + ki * I + kd * D
        n = len(run)
        tol = EPS2 * ((n + 8) * (abs(kp) * (abs(e) + abs(sp)) + abs(ki) * S_abs) + 8 * abs(kd) * dterm) + Fraction(1, 2**120)
        out.append((val, tol))
    return out


def okb(case, io, mo):
    if io and io[0] in ("crash", "garbled"):
        return False, "implementation crashed"
    if case[3] != 1:
        return True, ""
    params, evs = parse_case(case)
    outs = split_outputs(1, io)
    tb = textbook(params, evs)
    for i, (ev, o) in enumerate(zip(evs, outs)):
        if o == "PANIC":
            return True, ""
        u, g, same, _ = o
        if not same:
            return False, "get() twice gave different results after event %d" % i
        if ev[0] == "N":
            if g != ("N",) or u != ("ok",): return False, "event %d absent: output %s, update %s" % (i, g, u)
        elif ev[0] == "E":
            if g != ("E", ev[1]) or u != ("err", ev[1]): return False, "event %d error %d: output %s, update %s" % (i, ev[1], g, u)
        else:
            if g[0] != "S" or g[1] != ev[1]:
                return False, "event %d present at %d: output %s is not stamped with the input's time" % (i, ev[1], g)
            if tb[i] is not None:
                got = b2frac(g[2][0])
                if got is not None:
                    val, tol = tb[i]
                    if abs(got - val) > tol:
                        return False, "event %d: output %s differs from the textbook PID %s by more than the rounding tolerance" % (i, float(got), float(val))
    return True, ""


def scale_bits(b, k):
    f = b2frac(b)
    if f is None: return None
    r = frac_to_f32_bits(f * Fraction(2) ** k)
    if b2frac(r) != f * Fraction(2) ** k: return None     # not exact (overflow/underflow)
    return r


def run(chk, replay=None):
    proof = proof_check_streams(PID, "C04Streams", extra=("CtorStreams",))
    drv = build_driver()
    exe = build_harness("default")
    cfg = harness_config(exe)
    if replay:
        r = json.load(open(replay)); c = r["case"]
        io, mo = run_sharded(exe, [c])[0], run_sharded(drv, [c])[0]
        print("impl :", io, "\nmodel:", mo, "\noracle:", okb(c, io, mo))
        return 0 if io == mo and okb(c, io, mo)[0] else 1
    rng = random.Random(chk.seed)
    big = chk.tier != "quick"
    n_hist = 1500 if not big else 40000
    cases, tags, meta = [], [], []
    for h in range(n_hist):
        mode = rng.choices(["present", "mixed", "malformed"], weights=[3, 5, 1])[0]
        n = rng.randint(1, 64) if rng.random() < 0.7 else rng.randint(1, 8)
        word, times = gen_hist(rng, n, mode)
        params = [moderate_bits(rng) for _ in range(4)]
        if rng.random() < 0.1: params[rng.randrange(1, 4)] = 0
        evs = events_from_word(rng, word, times, lambda: [moderate_bits(rng)])
        c1, c15 = pid_cases(cfg, params, evs)
        cases += [c1, c15]; tags += ["pid/" + mode, "assembly/" + mode]; meta += [(mode, params, evs)] * 2
    impl, model = correspondence(chk, cases, tags, exe, drv, okb=okb,
        describe=lambda c, o: {"stream": "PIDControllerStream" if c[3] == 1 else "examples/pid.rs StreamPID", "params(sp,kp,ki,kd)": c[4:8], "events": c[8:], "per_event(update,get,same)": o})
    _nv0 = len(chk.violations)
    # --- metamorphic checks on the implementation
    # (a) controller vs the crate's own stream assembly, at every update that saw a present input: numerically equal
    # (+-0 identified).  Known finding (proved as C04_assembly_all_events_R / C04_assembly_gap_rule): the example's update()
    # returns early on an absent or errored input, so its derivative stream is neither updated nor reset and the first
    # present sample after a gap differentiates against the sample before the gap; the controller restarts (D = 0).
    n_asm = 0; n_gap = 0
    for i in range(0, len(cases), 2):
        mode, _, evs = meta[i]
        if mode == "malformed": continue
        a, b = split_outputs(1, impl[i]), split_outputs(1, impl[i + 1])
        seen_present = False
        for j, (x, y) in enumerate(zip(a, b)):
            if x == "PANIC" or y == "PANIC": break
            if evs[j][0] != 2: continue
            after_gap = j > 0 and evs[j - 1][0] != 2 and seen_present
            seen_present = True
            n_asm += 1
            gx, gy = x[1], y[1]
            eq = gx == gy or (gx[0] == gy[0] == "S" and gx[1] == gy[1] and ((gx[2][0] | gy[2][0]) & 0x7FFFFFFF) == 0) \
                 or (gx[0] == gy[0] == "S" and gx[1] == gy[1] and is_nan_bits(gx[2][0]) and is_nan_bits(gy[2][0]))
            if not eq:
                if after_gap: n_gap += 1
                chk.violation("controller and stream assembly disagree at present sample %d: %s vs %s" % (j, gx, gy),
                              {"case": cases[i], "assembly_case": cases[i + 1], "impl": impl[i], "impl_assembly": impl[i + 1]}, True,
                              key="example-assembly-gap-derivative" if after_gap else None)
                if not after_gap: break
        if len(chk.violations) > _nv0: break
    chk.cov["assembly_disagreements_after_gap(known finding)"] = n_gap
    chk.cov["assembly_outputs_compared"] = n_asm
    # (b) shift invariance and (c) power-of-two scaling, on the implementation
    sh_cases, sh_ref, sc_cases, sc_ref = [], [], [], []
    for i in range(0, len(cases), 2):
        if len(sh_cases) > (600 if not big else 8000): break
        mode, params, evs = meta[i]
        if mode == "malformed": continue
        d = rng.choice([1, -1, 10**9, -10**12, 123456789, 10**15])
        if all(I64_MIN <= e[1] + d <= I64_MAX for e in evs if e[0] == 2):
            ev2 = [e if e[0] != 2 else [2, e[1] + d] + e[2:] for e in evs]
            sh_cases.append(strm_case(cfg, 1, params, ev2)); sh_ref.append((i, d))
        k = rng.randint(-8, 8)
        p2 = [scale_bits(params[0], k)] + params[1:]
        ev3 = [e if e[0] != 2 else [2, e[1], scale_bits(e[2], k)] for e in evs]
        if None not in p2 and all(e[0] != 2 or e[2] is not None for e in ev3):
            sc_cases.append(strm_case(cfg, 1, p2, ev3)); sc_ref.append((i, k))
    sh_out = run_sharded(exe, sh_cases); sc_out = run_sharded(exe, sc_cases)
    for (i, d), o in zip(sh_ref, sh_out):
        a, b = split_outputs(1, impl[i]), split_outputs(1, o)
        ok = len(a) == len(b) and all(x == y or (x != "PANIC" and y != "PANIC" and x[0] == y[0] and x[1][0] == y[1][0] and (x[1][0] != "S" or (x[1][1] + d == y[1][1] and x[1][2] == y[1][2]))) for x, y in zip(a, b))
        if not ok:
            chk.violation("shifting all timestamps by %d changes the outputs" % d, {"case": cases[i], "shift": d, "impl": impl[i], "impl_shifted": o}, True); break
    n_sc = 0
    for (i, k), o in zip(sc_ref, sc_out):
        a, b = split_outputs(1, impl[i]), split_outputs(1, o)
        for x, y in zip(a, b):
            if x == "PANIC" or y == "PANIC": break
            if x[1][0] == "S" and y[1][0] == "S":
                fx, fy = b2frac(x[1][2][0]), b2frac(y[1][2][0])
                # exact unless some intermediate over/underflowed: accept only when both are normal numbers
                if fx is None or fy is None or fx == 0 or abs(fx) < Fraction(1, 2**100) or abs(fx) > 2**100: continue
                n_sc += 1
                if fy != fx * Fraction(2) ** k:
                    chk.violation("scaling setpoint and inputs by 2^%d does not scale the output exactly: %s vs %s" % (k, float(fx), float(fy)),
                                  {"case": cases[i], "k": k, "impl": impl[i], "impl_scaled": o}, True); break
        if len(chk.violations) > _nv0: break
    chk.cov["shift_histories_checked"] = len(sh_cases); chk.cov["pow2_scaled_outputs_checked"] = n_sc
    chk.notes.append("power-of-two scaling on binary32 is measured on the implementation (exact absent overflow/underflow); proved as linearity on the real-number instance (C04_linear_R)")
    chk.notes.append("agreement with the stream assembly: the example's StreamPID is compiled from the current source into the harness and compared at every update that saw a present input (numerically equal, +-0 identified); its Gallina transcription (Model/Assembly.v) is tied to it bit-exactly on all histories; equality of the two models is proved for every present-only history on the reals and on any carrier with 0+x=x (C04A.v), and the difference after a gap is characterised exactly (C04_assembly_all_events_R)")
    if not proof["ok"] and not chk.violations:
        chk.violation("proof obligations of C04 no longer check: " + "; ".join(proof["problems"])[:1500],
                      {"theorem_file": "coq/theories/Properties/C04.v", "problems": proof["problems"]}, False)
    return chk.finish(proof,
        rule="histories of 1..64 events: all-present / mixed present:absent:error 8:1:1 / malformed (repeated or decreasing timestamps); intervals log-uniform 1 us..10 h, start times incl. negative and >1e16 ns; gains, setpoint, samples of moderate magnitude (1e-3..1e4, 4% specials); each history drives the controller and the example's stream assembly; distinct = distinct (stream/mode, model trace)",
        checker_cmd="make -C coq ; coqc Properties/C04.v", trusted=std_trusted())
