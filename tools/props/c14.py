"""C14 — State kinematics and State/Command/Quantity conversions."""
import random
from fractions import Fraction
from common import *

PID = "C14"
UNITS = [(m, s) for m in range(-3, 4) for s in range(-3, 4)]
EPS = Fraction(1, 2**24)


def zeroish(rng):
    return rng.choice([0x00000000, 0x80000000, 0x00000001, 0x80000001, 0x00800000, f2b(1e-8), f2b(-1e-8), f2b(1e-30), 0x007FFFFF])


def rstate(rng, zeros=0.3):
    def comp():
        return zeroish(rng) if rng.random() < zeros else rand_f32_bits(rng)
    return vS(comp(), comp(), comp())


def is_zero(b):
    return (b & 0x7FFFFFFF) == 0


def okb(case, io, mo):
    e = case[3:]
    if io and io[0] in ("crash", "garbled"):
        return False, "implementation crashed"
    if e[0] != 100: return True, ""
    o, n = e[1], e[2]
    if n == 2 and o in (51, 52, 53) and e[3:5] == [0, 8] and e[8:10] == [0, 2]:
        st = tuple(e[5:8]); qb, m, s = e[10], e[11], e[12]
        want = {53: (1, 0), 52: (1, -1), 51: (1, -2)}[o]
        r, _ = dec_val(io)
        if r[0] != "Pair": return False, "setter did not return"
        ns, okf = r[1], r[2][1]
        if (m, s) != want:
            if okf or (ns[1], ns[2], ns[3]) != st:
                return False, "setter with wrong unit (%d,%d) returned ok=%d and state %s (was %s)" % (m, s, okf, ns[1:], st)
            return True, ""
        exp = {53: (qb, 0, 0), 52: (st[0], qb, 0), 51: (st[0], st[1], qb)}[o]
        got = (ns[1], ns[2], ns[3])
        same = all(g == x or (is_zero(g) and is_zero(x)) for g, x in zip(got, exp))
        return (bool(okf) and same, "setter result %s, expected %s" % (got, exp))
    if n == 1 and o == 30 and e[3:5] == [0, 8]:
        p, v, a = e[5:8]
        r, _ = dec_val(io)
        nanb = lambda b: is_nan_bits(b)
        if not is_zero(a):   # NaN != 0 too
            exp = ("C", 2, a)
        elif not is_zero(v):
            exp = ("C", 1, v)
        else:
            exp = ("C", 0, p)
        if r[0] == "C" and r[1] == exp[1] and (r[2] == exp[2] or (nanb(r[2]) and nanb(exp[2]))):
            return True, ""
        return False, "Command::from(State) = %s, lowest non-zero derivative is %s" % (r, exp)
    if n == 2 and o in (1, 2, 5, 6) and e[3:5] == [0, 9] and e[7:9] == [0, 9]:
        k1, k2 = e[5], e[9]
        if k1 != k2:
            return (io == [99], "adding/subtracting commands of different kinds did not panic")
        if io == [99]: return False, "same-kind command arithmetic panicked"
        r, _ = dec_val(io)
        return (r[0] == "C" and r[1] == k1, "command arithmetic changed the kind")
    if n == 2 and o == 50 and e[3:5] == [0, 8] and e[8:10] == [0, 3]:
        p, v, a = [b2frac(x) for x in e[5:8]]
        dt = e[10]
        r, _ = dec_val(io)
        if r[0] != "S": return False, "State::update did not return a state"
        if r[3] != e[7]: return False, "State::update changed the acceleration"
        if None in (p, v, a): return True, ""
        got = [b2frac(r[1]), b2frac(r[2])]
        if None in got: return True, ""        # overflow to infinity: out of 'moderate magnitude'
        d = Fraction(dt, 10**9)
        ev = v + a * d
        ep = p + v * d + a * d * d / 2
        scale = abs(p) + abs(v * d) + abs(a * d * d) + Fraction(1, 2**120)
        # standard model of binary32 arithmetic: fl(x op y) = (x op y)(1 + delta) + eta with |delta| <= 2^-24 and, when the
        # result is subnormal, |eta| <= 2^-150.  An underflow error in a*dt or v*dt is carried, multiplied by |dt|, into the
        # later products, so the absolute slack is a few min-subnormals times (1 + |dt| + dt^2).  (Found by the thorough tier:
        # p = 2^-149, a = 2^-149, dt = 57545 s gives a relative error of 5e-6 in p' although every operation is correctly rounded.)
        eta = Fraction(1, 2**149)
        if abs(got[1] - ev) > 8 * EPS * (abs(v) + abs(a * d) + Fraction(1, 2**120)) + 4 * eta * (1 + abs(d)):
            return False, "v' = %s, closed form %s" % (float(got[1]), float(ev))
        if abs(got[0] - ep) > 16 * EPS * scale + 8 * eta * (1 + abs(d) + d * d):
            return False, "p' = %s, closed form %s" % (float(got[0]), float(ep))
        return True, ""
    return True, ""


def gen(rng, tier, cfg):
    cases, tags = [], []
    def add(e, tag):
        cases.append(prog_case(cfg, e)); tags.append(tag)
    big = tier != "quick"
    rb = lambda: rand_f32_bits(rng)
    # kinematics
    for _ in range(4000 if not big else 150000):
        r = rng.random()
        if r < 0.1: dt = rng.choice([0, 1, -1])
        elif r < 0.2: dt = rng.randint(-10**14, 10**14)
        else: dt = int(10 ** rng.uniform(3, 14)) * rng.choice([1, -1])
        add(Op(50, Lit(rstate(rng, 0.1)), Lit(vT(dt))), "update")
    # setters: all 49 units x 3 setters (exhaustive), raw setters
    for (m, s) in UNITS:
        for o in (51, 52, 53):
            for _ in range(2 if not big else 30):
                add(Op(o, Lit(rstate(rng, 0.05)), Lit(vQ(rb(), m, s))), "setter%d" % o)
    for _ in range(200):
        for o in (54, 55, 56):
            add(Op(o, Lit(rstate(rng)), Lit(vF(rb()))), "rawsetter")
        for k in range(3):
            add(Op(60, Lit(rstate(rng)), Lit(vPD(k))), "get_value")
        for o in (57, 58, 59):
            add(Op(o, Lit(rstate(rng))), "getter")
    # State::new with right / wrong units in each position
    good = [(1, 0), (1, -1), (1, -2)]
    for _ in range(300 if not big else 5000):
        us = list(good)
        if rng.random() < 0.6:
            us[rng.randrange(3)] = rng.choice(UNITS)
        add(Op(35, *[Lit(vQ(rb(), *u)) for u in us]), "state_new")
    # Command::from(State): zeros, negative zeros, tiny non-zero values, NaN
    for _ in range(3000 if not big else 60000):
        add(Op(30, Lit(rstate(rng, 0.55))), "command_from_state")
    for pat in range(27):
        comps = []
        for i in range(3):
            k = (pat // 3**i) % 3
            comps.append([0x00000000, 0x80000000, f2b(1e-8)][k])
        add(Op(30, Lit(vS(*comps))), "command_from_state_zero_patterns")
    # command accessors and round trips
    for _ in range(400 if not big else 8000):
        for k in range(3):
            cl = Lit(vC(k, rb() if rng.random() < 0.8 else zeroish(rng)))
            for o in (61, 62, 63, 20, 23, 28, 9):
                add(Op(o, cl), "cmd_acc%d" % o)
            add(Op(27, Op(20, cl)), "cmd_q_cmd")
            add(Op(31, Op(28, cl), Op(23, cl)), "cmd_new_kind_val")
            add(Op(12, cl, Op(31, Op(28, cl), Op(23, cl))), "cmd_roundtrip_eq")
    # arithmetic
    for _ in range(600 if not big else 20000):
        s1, s2 = Lit(rstate(rng, 0.1)), Lit(rstate(rng, 0.1))
        f = Lit(vF(rb()))
        for o in (1, 2, 5, 6): add(Op(o, s1, s2), "SS%d" % o)
        for o in (3, 4, 7, 8): add(Op(o, s1, f), "SF%d" % o)
        add(Op(9, s1), "negS"); add(Op(12, s1, s2), "eqS"); add(Op(12, s1, s1), "eqS_self")
        k1, k2 = rng.randrange(3), rng.randrange(3)
        c1, c2 = Lit(vC(k1, rb())), Lit(vC(k2, rb()))
        for o in (1, 2, 5, 6): add(Op(o, c1, c2), "CC%d" % o)
        for o in (3, 4, 7, 8): add(Op(o, c1, f), "CF%d" % o)
        add(Op(12, c1, c2), "eqC")
    for k1 in range(3):
        for k2 in range(3):
            for o in (1, 2, 5, 6):
                add(Op(o, Lit(vC(k1, rb())), Lit(vC(k2, rb()))), "CC_kinds")
    return cases, tags


def run(chk, replay=None):
    gens = gen_sources()
    proof = proof_check(PID, gen_theorems=("C06Formulas", "OpsTable"))
    proof = add_ops_table(proof, gen_sources())
    if gens.get("formulas_error"):
        proof["ok"] = False; proof["problems"].append("translator tools/gen_formulas.py cannot read the current source: " + gens["formulas_error"])
    drv = build_driver()
    exe = build_harness("default")
    cfg = harness_config(exe)
    if replay:
        r = json.load(open(replay)); c = r["case"]
        io, mo = run_sharded(exe, [c])[0], run_sharded(drv, [c])[0]
        print("impl :", io, "\nmodel:", mo, "\noracle:", okb(c, io, mo))
        return 0 if io == mo and okb(c, io, mo)[0] else 1
    rng = random.Random(chk.seed)
    cases, tags = gen(rng, chk.tier, cfg)
    correspondence(chk, cases, tags, exe, drv, okb=okb,
                   describe=lambda c, o: {"program": c[3:], "result": dec_val(o)[0] if o and isinstance(o[0], int) else o})
    chk.cov["exhaustive_part"] = "all 49 grid units x the three Quantity setters; all 9 kind pairs x command +,-,+=,-=; all 27 {+0,-0,tiny} patterns for Command::from(State)"
    chk.notes.append("float closed form (v' , p') is proved on the real-number instance (C14_update_closed_form); on binary32 it is measured by the oracle with tolerance 8/16 ulp of the magnitudes; the binary32 zero-dt identity is C14B when present")
    if not proof["ok"] and not chk.violations:
        chk.violation("proof obligations of C14 no longer check: " + "; ".join(proof["problems"])[:1500],
                      {"theorem_file": "coq/theories/Properties/C14.v", "problems": proof["problems"]}, False)
    return chk.finish(proof,
        rule="random finite state triples (10-55% zero/negative-zero/tiny components by stratum), dt log-uniform within +-1e5 s plus 0, +-1 ns; all grid units as setter arguments; all kind pairs; distinct = distinct (form, model result)",
        checker_cmd="make -C coq ; coqc Properties/C14.v", trusted=std_trusted())
