"""C19 — feature configuration changes only whether units are checked, never the numbers."""
import random
from common import *
from streams_gen import *
from streams_common import Builder, params_for, payload_gen, unit_for
from mp_gen import *
from world_gen import *
import c02, gen_features

PID = "C19"
QUICK_CFGS = ["default", "std_nochk_rel", "libm_nochk_rel", "micromath_nochk_rel"]
ALL_CFGS = ["default", "std_chk_rel", "std_nochk_rel", "libm_chk_rel", "libm_nochk_rel", "micromath_chk_rel", "micromath_nochk_rel"]


# ---- random well-dimensioned programs over the value API (typed generation) ----
def gen_q(rng, u, d):
    rb = lambda: rand_f32_bits(rng, specials=0.03)
    if d == 0 or rng.random() < 0.25: return Lit(vQ(rb(), *u))
    r = rng.randrange(12)
    if r == 0: return Op(1, gen_q(rng, u, d - 1), gen_q(rng, u, d - 1))
    if r == 1: return Op(2, gen_q(rng, u, d - 1), gen_q(rng, u, d - 1))
    if r == 2:
        u1 = (rng.randint(-2, 2), rng.randint(-2, 2))
        return Op(3, gen_q(rng, u1, d - 1), gen_q(rng, (u[0] - u1[0], u[1] - u1[1]), d - 1))
    if r == 3:
        u1 = (rng.randint(-2, 2), rng.randint(-2, 2))
        return Op(4, gen_q(rng, (u[0] + u1[0], u[1] + u1[1]), d - 1), gen_q(rng, u1, d - 1))
    if r == 4: return Op(9, gen_q(rng, u, d - 1))
    if r == 5: return Op(11, gen_q(rng, u, d - 1))
    if r == 6: return Op(3, gen_q(rng, (u[0], u[1] - 1), d - 1), Lit(vT(rng.randint(-10**12, 10**12))))
    if r == 7: return Op(4, gen_q(rng, (u[0], u[1] + 1), d - 1), Lit(vT(rng.choice([1, -1]) * rng.randint(1, 10**12))))
    if r == 8: return Op(3, gen_q(rng, u, d - 1), Lit(vD(rng.randint(-10**6, 10**6))))
    if r == 9 and u == (0, 1): return Op(20, Lit(vT(rng.randint(-10**15, 10**15))))
    if r == 10 and u in ((1, 0), (1, -1), (1, -2)):
        return Op({(1, 0): 57, (1, -1): 58, (1, -2): 59}[u], gen_s(rng, d - 1))
    if r == 11 and u in ((1, 0), (1, -1), (1, -2)):
        return Op(20, Lit(vC({(1, 0): 0, (1, -1): 1, (1, -2): 2}[u], rb())))
    return Lit(vQ(rb(), *u))

def gen_s(rng, d):
    rb = lambda: rand_f32_bits(rng, specials=0.03)
    if d == 0 or rng.random() < 0.3: return Lit(vS(rb(), rb(), rb()))
    r = rng.randrange(6)
    if r == 0: return Op(35, gen_q(rng, (1, 0), d - 1), gen_q(rng, (1, -1), d - 1), gen_q(rng, (1, -2), d - 1))
    if r == 1: return Op(50, gen_s(rng, d - 1), Lit(vT(rng.randint(-10**12, 10**12))))
    if r == 2: return Op(rng.choice([1, 2]), gen_s(rng, d - 1), gen_s(rng, d - 1))
    if r == 3: return Op(rng.choice([3, 4]), gen_s(rng, d - 1), Lit(vF(rb())))
    if r == 4: return Op(9, gen_s(rng, d - 1))
    return Lit(vS(rb(), rb(), rb()))

def gen_top(rng):
    r = rng.randrange(10)
    u = (rng.randint(-3, 3), rng.randint(-3, 3))
    if r < 4: return gen_q(rng, u, 3), "quantity"
    if r < 6: return gen_s(rng, 3), "state"
    if r == 6: return Op(30, gen_s(rng, 2)), "command"
    if r == 7: return Op(13, gen_q(rng, u, 2), gen_q(rng, u, 2)), "partial_cmp"
    if r == 8:
        st = rng.choice([(53, (1, 0)), (52, (1, -1)), (51, (1, -2))])
        return Op(st[0], gen_s(rng, 1), gen_q(rng, st[1], 2)), "setter"
    if rng.random() < 0.5: return Op(21, gen_q(rng, (0, 1), 2)), "try_from"
    return Op(22, gen_q(rng, (0, 0), 2)), "try_from"

def gen_ill(rng):
    """ill-dimensioned quantity programs: under an unchecked build nothing may panic or be rejected"""
    rb = lambda: rand_f32_bits(rng)
    ua = (rng.randint(-3, 3), rng.randint(-3, 3)); ub = (ua[0] + rng.choice([-1, 1]), ua[1])
    r = rng.randrange(6)
    a, b = Lit(vQ(rb(), *ua)), Lit(vQ(rb(), *ub))
    if r == 0: return Op(rng.choice([1, 2, 5, 6]), a, b), "ill/addsub"
    if r == 1: return Op(13, a, b), "ill/partial_cmp"
    if r == 2: return Op(rng.choice([21, 22]), a), "ill/try_from"
    if r == 3: return Op(rng.choice([51, 52, 53]), Lit(vS(rb(), rb(), rb())), a), "ill/setter"
    if r == 4: return Op(35, a, b, Lit(vQ(rb(), *ua))), "ill/state_new"
    return Op(rng.choice([1, 2]), Lit(vU(*ua)), Lit(vU(*ub))), "ill/unit"


def erase(v):
    """drop unit exponents from a decoded wire value, and canonicalise -0.0"""
    t = v[0]
    if t == "Q": return ("Q", v[1])
    if t == "U": return ("U",)
    if t in ("Some",): return ("Some", erase(v[1]))
    if t == "Dat": return ("Dat", v[1], erase(v[2]))
    if t == "Pair": return ("Pair", erase(v[1]), erase(v[2]))
    return v


def workload(seed, cfg, exe, big):
    """the same seeded workload rendered for one configuration"""
    rng = random.Random(seed)
    cases, tags = [], []
    for _ in range(2500 if not big else 40000):
        e, t = gen_top(rng)
        cases.append(prog_case(cfg, e)); tags.append("prog/" + t)
    for _ in range(600 if not big else 8000):
        e, t = gen_ill(rng)
        cases.append(prog_case(cfg, e)); tags.append(t)
    b = Builder(cfg, exe)
    for s in (1, 3, 4, 5, 6, 7, 8, 9, 10, 11, 13):
        for _ in range(40 if not big else 1500):
            n = rng.randint(2, 24)
            u = unit_for(rng, s)
            evs = events_from_word(rng, random_word(rng, n, (8, 1, 0.5, 0.5)), gen_times(rng, n, "inc"), payload_gen(rng, s, u))
            b.add(s, params_for(rng, s), evs, "stream/" + STREAMS[s])
    # EWMA with smoothing 1.0 / 0.0 and repeated or decreasing timestamps (power function at base 0 and 1, exponent <= 0)
    for _ in range(60 if not big else 2000):
        n = rng.randint(2, 12)
        evs = events_from_word(rng, "S" * n, gen_times(rng, n, rng.choice(["nondec", "bad"])), lambda: [moderate_bits(rng)])
        b.add(3, [f2b(rng.choice([1.0, 1.0, 0.0, 0.5]))], evs, "stream/EWMAStream<f32>")
    # EWMA with long update gaps of a whole number of seconds (the exponent of the power function is then a large whole number)
    for _ in range(40 if not big else 1500):
        n = rng.randint(2, 8)
        t0 = rng.randint(0, 10**9); ts = [t0]
        for _i in range(n - 1):
            ts.append(ts[-1] + rng.choice([1, 10, 100, 1000, rng.randint(2, 5000)]) * 10**9)
        evs = events_from_word(rng, "S" * n, ts, lambda: [moderate_bits(rng)])
        b.add(3, [f2b(rng.choice([0.001, 0.01, 0.0001, 0.05, rng.random() * 0.01]))], evs, "stream/EWMAStream<f32>")
    sc, st, _ = b.build()
    cases += sc; tags += st
    powq = c02.make_pow_query(exe, cfg)
    pp = []
    for _ in range(400 if not big else 8000):
        bb = rng.choice([f2b(x) for x in (0.0, 1.0, 0.5, 0.9, 0.1, 2.0, 10.0, 0.25, 0.99)] + [f2b(rng.random()), f2b(rng.uniform(0, 50))])
        ee = rng.choice([f2b(x) for x in (0.0, 1.0, 2.0, 0.5, -1.0, 3.0, 1e-3, 0.02, -0.5, 1e-6, -2.0)] + [f2b(rng.uniform(-4, 8))])
        pp.append((bb, ee))
    # whole-number and large exponents on bases near 1 (results stay finite): an integer-power shortcut, a saturating cast of the
    # exponent or a reduced-precision path for long update gaps shows here and nowhere among the small exponents above
    for _ in range(200 if not big else 4000):
        bb = f2b(rng.choice([0.999, 1.001, 0.9999, 1.0001, 0.97, 1.03, 0.5, 2.0, 0.9, 1.0 - rng.random() * 1e-2, 1.0 + rng.random() * 1e-2]))
        ee = f2b(rng.choice([10.0, 64.0, 100.0, 1000.0, 4096.0, -100.0, -1000.0, 65536.0, 1e6, -1e6, 2147483648.0, 16777216.0,
                             float(rng.randint(5, 5000)), -float(rng.randint(5, 5000)), rng.uniform(-3000, 3000)]))
        pp.append((bb, ee))
    tbl = powq(pp)
    for (bb, ee) in pp:
        cases.append([3, cfg["chk"], cfg["std"], 7, 0, 2, 1, bb, ee, tbl[(bb, ee)]] + oSome(5, [bb]) + oSome(7, [ee])); tags.append("pow/ExponentStream")
    profs = [gen_profile(rng) for _ in range(150 if not big else 5000)]
    for (s0, s1, vb, ab, k) in profs:
        ts = sorted(set([0, 1, -1] + [rng.randint(0, 10**11) for _ in range(6)]))
        cases.append(mp_case(cfg, s0, s1, vb, ab, ts)); tags.append("mp/" + k)
    if cfg.get("devices"):
        for _ in range(250 if not big else 8000):
            kind = rng.choice([1, 2, 3, 4])
            enc, n = dev_spec(rng, kind)
            ops = [[1, i, n + i] for i in range(n) if rng.random() < 0.8]
            t = rng.randint(0, 10**9)
            for _ in range(rng.randint(1, 4)):
                t += rng.randint(1, 10**9)
                if n:
                    ops.append([3, rng.randrange(2 * n), t] + rstate(rng))
                    if rng.random() < 0.6: ops.append([4, rng.randrange(2 * n), t, rng.randrange(3), rand_f32_bits(rng)])
                ops += [[5, 0], [7]]
            cases.append(world_case(cfg, n, [enc], ops)); tags.append("device/%d" % kind)
    return cases, tags


def okb_for(cfg):
    def okb(case, io, mo):
        if io and io[0] in ("crash", "garbled"): return False, "implementation crashed"
        if case[0] == 1 and not cfg["chk"]:
            # with dimension checking compiled out no unit mismatch ever panics or is rejected
            e = case[3:]
            if e[0] == 100 and e[1] in (1, 2, 5, 6, 13, 35, 43) and io == [99]:
                return False, "unit mismatch panicked although dimension checking is compiled out"
            if e[0] == 100 and e[1] in (21, 22) and io == [12]:
                return False, "TryFrom<Quantity> rejected a quantity although dimension checking is compiled out"
            if e[0] == 100 and e[1] in (51, 52, 53) and io and io[0] == 16 and io[-1] == 0:
                return False, "a State setter rejected its argument although dimension checking is compiled out"
        return True, ""
    return okb


def run(chk, replay=None):
    feats = gen_features.main(REPO, gen_dir())
    proof = proof_check(PID, gen_theorems=["C19Features"])
    drv = build_driver()
    big = chk.tier != "quick"
    cfgs = QUICK_CFGS if not big else ALL_CFGS
    if replay:
        r = json.load(open(replay)); c = r["case"]
        exe = build_harness(r.get("config", "default"))
        io, mo = run_sharded(exe, [c])[0], run_sharded(drv, [c])[0]
        print("impl :", io[:60], "\nmodel:", mo[:60]); return 0 if io == mo else 1
    results = {}
    for name in cfgs:
        exe = build_harness(name)
        cfg = harness_config(exe)
        cases, tags = workload(chk.seed, cfg, exe, big)
        n0 = len(chk.violations)
        impl, model = correspondence(chk, cases, [name + ":" + t for t in tags], exe, drv, rel=False, okb=okb_for(cfg),
                                     describe=lambda c, o: {"case_head": c[:30], "output_head": o[:30]})
        for v in chk.violations[n0:]:
            try:
                r = json.load(open(v["replay"])); r["config"] = name; json.dump(r, open(v["replay"], "w"), indent=1, default=str)
            except Exception: pass
        results[name] = (cfg, cases, tags, impl)
    # cross-configuration: equal numeric results (units erased), identical time stamps; powf-dependent values within 4 ulps
    base = cfgs[0]
    n_cross = 0
    for name in cfgs[1:]:
        (c0, cases0, tags0, impl0), (c1, cases1, tags1, impl1) = results[base], results[name]
        for k, (t, a, b) in enumerate(zip(tags0, impl0, impl1)):
            if t.startswith("ill/") or a == [99] or b == [99]: continue
            if t.startswith("prog/"):
                if a == [98] or b == [98]: continue
                n_cross += 1
                va, vb = erase(dec_val(a)[0]), erase(dec_val(b)[0])
                if va != vb and not (c0["std"] != c1["std"] and "abs" in t):
                    # the two abs bodies differ in the sign of zero only
                    if not same_mod_zero(va, vb):
                        chk.violation("program gives different numbers under %s and %s: %s vs %s" % (base, name, va, vb),
                                      {"case": cases0[k], "case_other": cases1[k], "config": base, "config_other": name}, True); break
            elif t.startswith("device/") or t.startswith("mp/") or t in ("stream/PIDControllerStream", "stream/MovingAverageStream<f32>", "stream/QuantityToFloat"):
                if t.startswith("mp/"):
                    continue          # units are interleaved in the output; compared per configuration against the model
                n_cross += 1
                if a != b and not same_list_mod_zero(a, b):
                    chk.violation("%s gives different outputs under %s and %s" % (t, base, name),
                                  {"case": cases0[k], "case_other": cases1[k], "config": base, "config_other": name, "impl": a[:60], "impl_other": b[:60]}, True); break
            elif t in ("stream/EWMAStream<f32>", "pow/ExponentStream"):
                n_cross += 1
                def close(x, y):
                    if x == y: return True
                    if not (isinstance(x, int) and isinstance(y, int)) or not (0 <= x <= 0xFFFFFFFF and 0 <= y <= 0xFFFFFFFF): return False
                    if not is_finite_bits(x) or not is_finite_bits(y): return False
                    # a few ulps of the power function, amplified at most by the EWMA's running combination
                    if t.startswith("pow"):
                        # the power function alone: last ulps, or both results in the subnormal range
                        return abs(ulp_index(x) - ulp_index(y)) <= 8 or (abs(b2f(x)) < 2e-38 and abs(b2f(y)) < 2e-38)
                    return abs(ulp_index(x) - ulp_index(y)) <= 64 or abs(b2f(x) - b2f(y)) <= 1e-5 * max(1.0, abs(b2f(x)))
                if len(a) != len(b) or not all(close(x, y) for x, y in zip(a, b)):
                    chk.violation("%s differs between %s and %s beyond the power function's last ulps: %s vs %s" % (t, base, name, a[:8], b[:8]),
                                  {"case": cases0[k], "case_other": cases1[k], "impl": a[:60], "impl_other": b[:60], "config": base, "config_other": name}, True,
                                  key="micromath-powf" if "micromath" in name else None)
                    if "micromath" not in name: break
    chk.cov["cross_configuration_comparisons"] = n_cross
    chk.cov["configurations"] = cfgs
    chk.assumptions += ["powf: oracle per build (std / libm / micromath values are read from that build)",
                        "debug-vs-release integer overflow behaviour is not covered (workload does not overflow)"]
    chk.notes.append("the cross-configuration claim follows from the per-configuration correspondence with one model parameterised by (chk, std); the deep-embedding erasure theorem over whole programs is not proved (partial); proved: the unchecked configuration never rejects, the two abs bodies agree numerically, the cfg predicate and feature graph")
    if not proof["ok"] and not any(not v["found"] for v in chk.violations):
        chk.violation("proof obligations of C19 no longer check: " + "; ".join(proof["problems"])[:1500],
                      {"theorem_file": "coq/theories/Properties/C19.v, coq/gen_theorems/C19Features.v", "problems": proof["problems"]}, False)
    return chk.finish(proof,
        rule="one seeded workload (random well-dimensioned typed programs of depth <= 3 over quantities/states/commands/Time, ill-dimensioned quantity programs, every stateful stream, motion profiles, devices) rendered for each configuration and compared bit-exactly with the model under the matching (chk, std) and that build's pow table; then compared across configurations; distinct = distinct (configuration:family, model output)",
        checker_cmd="make -C coq ; coqc Properties/C19.v ; coqc gen_theorems/C19Features.v ; %d harness builds" % len(cfgs),
        trusted=std_trusted() + ["translator tools/gen_features.py (Cargo.toml [features] and the cfg expressions in src/)"])


def ulp_index(x):
    if not isinstance(x, int) or x < 0 or x > 0xFFFFFFFF: return x
    return x if x < 0x80000000 else -(x - 0x80000000)

def same_mod_zero(a, b):
    if type(a) != type(b): return False
    if isinstance(a, tuple):
        return len(a) == len(b) and all(same_mod_zero(x, y) for x, y in zip(a, b))
    if isinstance(a, int):
        return a == b or ((a | b) & 0x7FFFFFFF) == 0
    return a == b

def same_list_mod_zero(a, b):
    return len(a) == len(b) and all(x == y or (isinstance(x, int) and isinstance(y, int) and ((x | y) & 0x7FFFFFFF) == 0 and (x | y) <= 0xFFFFFFFF) for x, y in zip(a, b))
