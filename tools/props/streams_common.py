"""Shared check driver for the stateful-stream properties C05, C10, C11, C12."""
import random
from fractions import Fraction
from common import *
from streams_gen import *
import c02

EPS = Fraction(1, 2**24)
RESETS = {1: "N12", 2: "N", 3: "12", 4: "12", 5: "12", 6: "12", 7: "N12", 8: "N12", 9: "12", 10: "12", 11: "12", 12: "SN12", 13: "SN12"}
IGNORE_ABSENT = (3, 4, 5, 6, 9, 10, 11)


def payload_gen(rng, stream, unit):
    if IN_W[stream] == 1:
        return lambda: [moderate_bits(rng)]
    return lambda: [moderate_bits(rng)] + list(unit)


def params_for(rng, stream):
    if stream == 1: return [moderate_bits(rng) for _ in range(4)]
    if stream in (3, 4): return [rng.choice([f2b(x) for x in (0.0, 1.0, 0.5, 0.1, 0.9, 0.25, 0.01)] + [f2b(rng.random())])]
    if stream in (5, 6): return [rng.choice([1, 10**3, 10**6, 10**9, 3 * 10**9, 10**11, 36 * 10**11, int(10 ** rng.uniform(0, 13))])]
    if stream == 12: return [rng.randint(-3, 3), rng.randint(-3, 3)]
    return []


def unit_for(rng, stream, wrong=0.0):
    if stream in TOSTATE_UNIT:
        return TOSTATE_UNIT[stream] if rng.random() >= wrong else (rng.randint(-3, 3), rng.randint(-3, 3))
    return (rng.randint(-3, 3), rng.randint(-3, 3))


class Builder:
    """builds kind-4 cases; EWMA cases get their pow table from the implementation (oracle) in one batch"""
    def __init__(self, cfg, exe):
        self.cfg, self.exe = cfg, exe
        self.pending = []     # (stream, params, evs, tag, meta)
        self.powq = c02.make_pow_query(exe, cfg)
    def add(self, stream, params, evs, tag, meta=None):
        self.pending.append((stream, list(params), evs, tag, meta))
    def build(self):
        pairs = {}
        for i, (s, p, evs, _, _) in enumerate(self.pending):
            if s in (3, 4):
                pairs[i] = ewma_pow_pairs(p[0], evs)
        tbl = self.powq([x for v in pairs.values() for x in v]) if pairs else {}
        cases, tags, metas = [], [], []
        for i, (s, p, evs, tag, meta) in enumerate(self.pending):
            pp = p + powtbl(tbl, pairs[i]) if s in (3, 4) else p
            cases.append(strm_case(self.cfg, s, pp, evs)); tags.append(tag); metas.append((s, p, evs, meta))
        self.pending = []
        return cases, tags, metas


def is_reset(stream, e):
    return {0: "N", 1: "1", 2: "S"}[e[0]] in RESETS[stream]


def ev_cat(e):
    return {0: "N", 1: "E", 2: "S"}[e[0]]


def generic_okb(stream, evs, outs):
    """freshness of errors, get purity, update result; on the implementation's per-event outputs"""
    for i, (e, o) in enumerate(zip(evs, outs)):
        if o == "PANIC":
            return True, ""
        u, g, same, _ = o
        if not same:
            return False, "get() twice gave different results after event %d" % i
        if g[0] == "E" and not (e[0] == 1 and e[1] == g[1]):
            return False, "%s: get() returns Err(%s) after event %d, but the input did not return that error at that update" % (STREAMS[stream], g[1], i)
        if u[0] == "err" and not (e[0] == 1 and e[1] == u[1]):
            return False, "%s: update() returned Err(%s) at event %d without that input error" % (STREAMS[stream], u[1], i)
    return True, ""


def outs_equal_from(a, b):
    """two per-event output lists equal (PANIC-aware)"""
    return a == b


def metamorphic(chk, stream_cases, exe, cfg, rng, limit, mismatch=None):
    """reset-equals-fresh and absent-deletion, on the implementation.  stream_cases: list of (case, impl_out, (stream, params, evs, meta))"""
    b = Builder(cfg, exe)
    refs = []
    # cases on which model and implementation disagree first (that is where a failing input is likely), then a
    # shuffle of the rest so that every stream type is sampled
    stream_cases = list(stream_cases)
    rng.shuffle(stream_cases)
    if mismatch is not None:
        stream_cases.sort(key=lambda x: 0 if tuple(x[0]) in mismatch else 1)
    for case, io, (s, p, evs, meta) in stream_cases:
        if len(refs) >= limit: break
        if s in (2, 14, 15): continue
        outs = split_outputs(s, io)
        # reset positions
        nout = len(outs) - (1 if "PANIC" in outs else 0)
        rpos = [i for i, e in enumerate(evs) if is_reset(s, e) and 0 < i < nout]
        for i in (rpos if len(evs) <= 8 else ([rng.choice(rpos)] if rpos else [])):
            b.add(s, p, evs[i:], "fresh", None); refs.append(("reset", case, outs[i:], i))
        if s in IGNORE_ABSENT:
            apos = [i for i, e in enumerate(evs) if e[0] == 0 and i < len(evs) - 1 and i < nout]
            for i in (apos if len(evs) <= 8 else ([rng.choice(apos)] if apos else [])):
                b.add(s, p, evs[:i] + evs[i + 1:], "deleted", None); refs.append(("delete", case, outs[:i] + outs[i + 1:], i))
    cases, _, metas = b.build()
    res = run_sharded(exe, cases)
    n = 0
    for (kind, orig, want, pos), c2, o2, (s, _, _, _) in zip(refs, cases, res, metas):
        got = split_outputs(s, o2)
        n += 1
        if kind == "reset":
            ok = got == want
        else:
            # outputs on the continuation after the deleted event must be unchanged
            ok = got[pos:] == want[pos:]
        if not ok:
            what = ("after the reset event at position %d the outputs differ from those of a newly constructed stream fed only the events from the reset on" % pos) if kind == "reset" \
                else ("deleting the absent event at position %d changes later outputs" % pos)
            chk.violation("%s: %s" % (STREAMS[s], what), {"case": orig, "second_case": c2, "expected_tail": str(want)[:600], "got": str(got)[:600]}, True)
            break
    chk.cov["metamorphic_" + "reset_or_delete_checked"] = chk.cov.get("metamorphic_reset_or_delete_checked", 0) + n


def finish_std(chk, proof, pid, rule):
    if not proof["ok"] and not chk.violations:
        chk.violation("proof obligations of %s no longer check: " % pid + "; ".join(proof["problems"])[:1500],
                      {"theorem_file": "coq/theories/Properties/%s.v" % pid, "problems": proof["problems"]}, False)
    return chk.finish(proof, rule=rule, checker_cmd="make -C coq ; coqc Properties/%s.v" % pid,
                      trusted=std_trusted() + ["powf oracle: values read from the implementation's own build through ExponentStream"])


def replay_case(replay, okb=None):
    drv = build_driver(); exe = build_harness("default")
    r = json.load(open(replay)); c = r["case"]
    io, mo = run_sharded(exe, [c])[0], run_sharded(drv, [c])[0]
    print("impl :", io, "\nmodel:", mo)
    return 0 if io == mo else 1
