"""C07 — motion profile is a valid trapezoid: continuous, within limits, reaches the goal."""
import random
from mp_common import *

PID = "C07"
EPS = Fraction(1, 2**24)
K_TOL = 32           # tolerance = K_TOL * 2^-24 * scale (scale from the magnitudes involved); calibrated, see DESIGN.md
NS = Fraction(1, 10**9)


def fr(b):
    return b2frac(b)


def analyse(case, io):
    """returns (ok, why, worst_ratio). All comparisons in exact rational arithmetic on the implementation's outputs."""
    ts = case_times(case)
    r = parse_mp_output(io, ts)
    s0, s1, vb, ab = case_inputs(case)
    p0, v0, a0 = [fr(x) for x in s0]; p1, v1, a1 = [fr(x) for x in s1]
    vmax, amax = fr(vb), fr(ab)
    if None in (p0, v0, p1, v1, vmax, amax): return True, "", 0
    vmax, amax = abs(vmax), abs(amax)
    sign = -1 if p1 < p0 else 1
    if r is None:
        # acceptance: a comfortable move with speeds inside the limit must be accepted
        if amax > 0 and vmax > 0 and abs(v0) <= vmax * (1 - Fraction(1, 10**5)) and abs(v1) <= vmax * (1 - Fraction(1, 10**5)):
            need = (2 * vmax * vmax - v0 * v0 - v1 * v1) / (2 * amax)
            if abs(p1 - p0) >= need * Fraction(101, 100) + Fraction(1, 100) * max(abs(p0), abs(p1), 1) * Fraction(1, 1000):
                return False, "a move whose displacement comfortably exceeds its acceleration plus deceleration distance was rejected", 0
        return True, "", 0
    t1, t2, t3 = r["t1"], r["t2"], r["t3"]
    ma = fr(r["max_acc"][0])
    if ma is None: return True, "", 0
    if ma != sign * amax: return False, "max_acc %s is not |a| with the sign of the displacement (%s)" % (float(ma), float(sign * amax)), 0
    T3 = Fraction(t3, 10**9)
    scale = max(abs(p0), abs(p1), max(vmax, abs(v0), abs(v1)) * T3, amax * T3 * T3, 1)
    vscale = max(vmax, abs(v0), abs(v1), amax * T3, Fraction(1, 1000))
    tol_p = K_TOL * EPS * scale
    tol_v = K_TOL * EPS * vscale
    worst = Fraction(0)
    qs = sorted(r["q"], key=lambda q: q["t"])
    vbound = max(vmax, abs(v0), abs(v1))
    prev = None
    for q in qs:
        t, pc = q["t"], q["piece"]
        if "PANIC" in (q["vel"], q["pos"], q["hist"]): prev = None; continue
        if pc in (1, 2, 3):
            acc = fr(q["acc"][0]); vel = fr(q["vel"][0]); pos = fr(q["pos"][0])
            if None in (acc, vel, pos): return True, "", 0
            want_acc = {1: ma, 2: 0, 3: -ma}[pc]
            if acc != want_acc: return False, "commanded acceleration %s in piece %d, expected %s" % (float(acc), pc, float(want_acc)), 0
            if abs(vel) > vbound + tol_v + amax * NS: return False, "speed %s exceeds the largest of max_vel and the start/end speeds (%s) at t=%d" % (float(vel), float(vbound), t), 0
            worst = max(worst, (abs(vel) - vbound - amax * NS) / (EPS * vscale))
            if t == 0:
                if vel != v0: return False, "velocity at t=0 is %s, start velocity %s" % (float(vel), float(v0)), 0
                if pos != p0: return False, "position at t=0 is %s, start position %s" % (float(pos), float(p0)), 0
            if prev is not None and prev["piece"] in (1, 2, 3):
                dt = Fraction(t - prev["t"], 10**9)
                pv, pp = fr(prev["vel"][0]), fr(prev["pos"][0])
                if prev["piece"] == pc:
                    # position is the time integral of velocity: exact trapezoid within a piece
                    err = abs((pos - pp) - (vel + pv) / 2 * dt)
                    worst = max(worst, err / (EPS * scale))
                    if err > 2 * tol_p: return False, "position is not the integral of velocity between t=%d and t=%d (error %s)" % (prev["t"], t, float(err)), 0
                if t - prev["t"] == 1:
                    # continuity across one nanosecond (incl. across the joins)
                    if abs(vel - pv) > 2 * tol_v + amax * NS: return False, "velocity jumps from %s to %s at t=%d" % (float(pv), float(vel), t), 0
                    if abs(pos - pp) > 2 * tol_p + vbound * NS + amax * Fraction(t1, 10**9) * NS: return False, "position jumps from %s to %s at t=%d" % (float(pp), float(pos), t), 0
                    worst = max(worst, (abs(pos - pp) - vbound * NS - amax * Fraction(t1, 10**9) * NS) / (EPS * scale))
            if t == t3 - 1:
                worst = max(worst, (abs(vel - v1) - 4 * amax * NS) / (EPS * vscale), (abs(pos - p1) - 4 * (vbound + amax * T3) * NS) / (EPS * scale))
                if abs(vel - v1) > 2 * tol_v + 4 * amax * NS: return False, "velocity %s just before completion, end velocity %s" % (float(vel), float(v1)), 0
                if abs(pos - p1) > 4 * tol_p + 4 * (vbound + amax * T3) * NS: return False, "position %s just before completion, end position %s" % (float(pos), float(p1)), 0
            prev = q
        else:
            prev = None
    return True, "", worst


def okb(case, io, mo):
    if io and io[0] in ("crash", "garbled"): return False, "implementation crashed"
    ok, why, _ = analyse(case, io)
    return ok, why


def neg_bits(b):
    return b ^ 0x80000000


def run(chk, replay=None):
    gens = gen_sources()
    proof = proof_check_streams(PID, "C06Streams", extra=("C06Formulas",))
    if gens.get("formulas_error"):
        proof["ok"] = False; proof["problems"].append("translator tools/gen_formulas.py cannot read the current source: " + gens["formulas_error"])
    drv = build_driver(); exe = build_harness("default"); cfg = harness_config(exe)
    if replay:
        r = json.load(open(replay)); c = r["case"]
        io, mo = run_sharded(exe, [c])[0], run_sharded(drv, [c])[0]
        print("impl :", io[:40], "\nmodel:", mo[:40], "\noracle:", okb(c, io, mo)); return 0 if io == mo and okb(c, io, mo)[0] else 1
    rng = random.Random(chk.seed)
    big = chk.tier != "quick"
    # the known finding's witness is always included
    w = ([0, f2b(0.1), 0], [0, f2b(0.1), 0], f2b(0.1), f2b(0.01), "zero")
    cases, tags, metas = build_cases(rng, cfg, exe, 1500 if not big else 50000, 6 if not big else 12, extra_profiles=[w])
    impl, model = correspondence(chk, cases, tags, exe, drv, okb=okb,
        describe=lambda c, o: {"start": c[3:6], "end": c[6:9], "max_vel": c[9:12], "max_acc": c[12:15], "times": case_times(c)[:12], "output_head": o[:30]})
    worst = Fraction(0)
    for c, o in zip(cases, impl):
        try:
            worst = max(worst, analyse(c, o)[2])
        except Exception:
            pass
    chk.cov["worst_error_in_units_of_eps_times_scale"] = float(worst)
    chk.cov["tolerance_factor"] = K_TOL
    # negation symmetry on the implementation: negating all positions and velocities negates every output (numerically)
    neg_cases = []
    for (s0, s1, vb, ab, k, ts) in metas:
        n0 = [neg_bits(s0[0]), neg_bits(s0[1]), s0[2]]; n1 = [neg_bits(s1[0]), neg_bits(s1[1]), s1[2]]
        neg_cases.append(mp_case(cfg, n0, n1, vb, ab, ts))
    nout = run_sharded(exe, neg_cases)
    n_neg = 0
    for c, o, nc, no, (s0, s1, vb, ab, k, ts) in zip(cases, impl, neg_cases, nout, metas):
        if (s1[2] & 0x7FFFFFFF) != 0:      # a non-zero end acceleration is not negated by the transformation
            continue
        a, b = parse_mp_output(o, ts), parse_mp_output(no, ts)
        n_neg += 1
        def numeq_neg(x, y):
            if x is None or y is None or "PANIC" in (x, y): return x == y
            fx, fy = b2frac(x[0]), b2frac(y[0])
            return (fx is None and fy is None) or (fx is not None and fy is not None and fx == -fy)
        ok = (a is None) == (b is None)
        if ok and a is not None:
            ok = (a["t1"], a["t2"], a["t3"]) == (b["t1"], b["t2"], b["t3"]) and all(
                x["piece"] == y["piece"] and x["mode"] == y["mode"] and numeq_neg(x["vel"], y["vel"]) and numeq_neg(x["pos"], y["pos"]) and numeq_neg(x["acc"], y["acc"])
                for x, y in zip(a["q"], b["q"]))
        if not ok:
            zero_disp = b2frac(s0[0]) == b2frac(s1[0])
            chk.violation("negating all positions and velocities does not negate the outputs (%s displacement)" % ("zero" if zero_disp else "non-zero"),
                          {"case": c, "negated_case": nc, "impl_head": o[:12], "impl_negated_head": no[:12]}, True,
                          key="negation-zero-displacement" if zero_disp else None)
    chk.cov["negation_pairs_checked"] = n_neg
    chk.notes.append("float tolerance clause is partial: closeness of binary32 outputs to the exact-arithmetic trapezoid is measured with tolerance %d*2^-24*max(|p0|,|p1|,v*t3,a*t3^2,1), not proved; proved: acceleration values, velocity continuity (bit-exact), and on the real instance closed forms, exact integral, initial conditions, join slack" % K_TOL)
    if not proof["ok"] and not chk.violations:
        chk.violation("proof obligations of C07 no longer check: " + "; ".join(proof["problems"])[:1500], {"theorem_file": "coq/theories/Properties/C07.v", "problems": proof["problems"]}, False)
    return chk.finish(proof,
        rule="profiles as in C06 (positions +-1e4, limits 1e-2..1e3, 20% reversed, zero displacement, rejected, tight); query times: boundaries +-1 ns, 0, random in each piece; each profile also run negated; distinct = distinct (class, model output)",
        checker_cmd="make -C coq ; coqc Properties/C07.v", trusted=std_trusted())
