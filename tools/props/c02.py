"""C02 — stateless streams honour their documented error / absent / present contract."""
import itertools, random
from common import *
from common import proof_check_streams

PID = "C02"
CATS = ("E1", "E2", "N", "S")
NAMES = {1: "SumStream", 2: "ProductStream", 3: "Sum2", 4: "Product2", 5: "DifferenceStream", 6: "QuotientStream",
         7: "ExponentStream", 8: "IfStream", 9: "IfElseStream", 10: "AndStream", 11: "OrStream", 12: "NotStream",
         13: "Latest", 14: "Expirer", 15: "NoneToError", 16: "NoneToValue", 17: "NoneGetter",
         18: "Not(And)", 19: "Or(Not,Not)", 20: "Not(Or)", 21: "And(Not,Not)", 22: "ConstantGetter", 23: "TimeGetterFromGetter"}


def weak_orders(k):
    """all weak orderings of k items as rank tuples (ranks 0..)"""
    if k == 0:
        return [()]
    seen = set()
    for ranks in itertools.product(range(k), repeat=k):
        used = sorted(set(ranks))
        canon = tuple(used.index(r) for r in ranks)
        seen.add(canon)
    return sorted(seen)

WO = {k: weak_orders(k) for k in range(0, 6)}


def times_for(rng, ranks):
    base = rng.choice([0, -3, 10**9, -10**12, I64_MAX - 8, I64_MIN, 2**53, -1])
    step = rng.choice([1, 1, 7, 10**6])
    if base > I64_MAX - 8 * step: step = 1
    return [base + r * step for r in ranks]


def mk_out(cat, t, payload):
    if cat == "E1": return oErr(1)
    if cat == "E2": return oErr(2)
    if cat == "N": return oNone()
    return oSome(t, payload)


def okb(case, io, mo):
    """category/time-level contract, evaluated on the implementation's output (values are compared bit-exactly
    with the model by the correspondence)."""
    if io and io[0] in ("crash", "garbled"):
        return False, "implementation crashed"
    comb, ptype, n = case[3], case[4], case[5]
    w = {0: 1, 1: 3, 2: 1}[ptype if comb <= 6 else (2 if comb in (10, 11, 12, 18, 19, 20, 21) else 0)]
    if io == [99] and mo != [99] and comb == 14:
        # Expirer: now - stamp is representable, so nothing can overflow: a panic is a failure of the contract
        i, p2 = dec_out_py(case, 6, 1)
        if i[0] == "S" and case[p2] != 1 and I64_MIN <= case[p2 + 1] - i[1] <= I64_MAX:
            return False, "Expirer panicked although the age %d of the datum is representable (limit %d)" % (case[p2 + 1] - i[1], case[p2 + 2])
    if io == [99] or mo == [99] or io == [97]:
        return True, ""      # panics (unit mismatch, overflow, arity 0) are compared by the correspondence
    # two reads
    half = len(io) // 2
    if io[:half] != io[half:]:
        return False, "reading twice gave different results"
    if comb == 23:
        return True, ""
    r, _ = dec_out_py(io, 0, w)
    pos = 6
    if comb == 7:
        pos += 1 + 3 * case[pos]
    ins = []
    def rd(width):
        nonlocal pos
        o, pos = dec_out_py(case, pos, width)
        return o
    def tout():
        nonlocal pos
        if case[pos] == 1:
            v = ("E", case[pos + 1])
        else:
            v = ("T", case[pos + 1])
        pos += 2
        return v
    if comb in (1, 2, 13):
        ins = [rd(w) for _ in range(n)]
        errs = [i for i in ins if i[0] == "E"]
        pres = [i for i in ins if i[0] == "S"]
        if comb != 13 and errs:
            return (r == errs[0], "%s: an input error must be returned unchanged, earliest first; got %s" % (NAMES[comb], r))
        if not pres:
            return (r == ("N",), "%s: all inputs absent/errored but result %s" % (NAMES[comb], r))
        if r[0] != "S": return False, "%s: present inputs but result %s" % (NAMES[comb], r)
        tmax = max(i[1] for i in pres)
        if r[1] != tmax: return False, "%s: result time %d, newest input time %d" % (NAMES[comb], r[1], tmax)
        if comb == 13:
            first = [i for i in pres if i[1] == tmax][0]
            return (r == first, "Latest: result is not the first newest candidate")
        return True, ""
    if comb in (3, 4):
        a, b = rd(w), rd(w)
        if a[0] == "E": return (r == a, "first input error must be returned")
        if a[0] == "N": return (r == b, "first absent: second input's result must be returned")
        if b[0] == "E": return (r == b, "second input error must be returned")
        if b[0] == "N": return (r == a, "second absent: first must pass through")
        return (r[0] == "S" and r[1] == max(a[1], b[1]), "present result must carry the newest time")
    if comb in (5, 6, 7):
        a, b = rd(w), rd(w)
        if a[0] == "E": return (r == a, "first operand error first")
        if b[0] == "E": return (r == b, "second operand error")
        if a[0] == "N": return (r == ("N",), "absent first operand => absent")
        if b[0] == "N": return (r == a, "absent second operand => first passes through")
        return (r[0] == "S" and r[1] == max(a[1], b[1]), "present result must carry the newest time")
    if comb == 8:
        c, i = rd(1), rd(1)
        if c[0] == "E": return (r == c, "condition error")
        if c[0] == "S" and c[2][0] == 1: return (r == i, "true condition must pass the input through")
        return (r == ("N",), "false/absent condition must give absent")
    if comb == 9:
        c, t, f = rd(1), rd(1), rd(1)
        if c[0] == "E": return (r == c, "condition error")
        if c[0] == "N": return (r == ("N",), "absent condition => absent")
        return (r == (t if c[2][0] == 1 else f), "if-else must select the branch's result")
    if comb in (10, 11, 12, 18, 19, 20, 21):
        def K(o): return None if o[0] == "N" else bool(o[2][0])
        def k_and(x, y):
            if x is False or y is False: return False
            if x is None or y is None: return None
            return True
        def k_or(x, y):
            if x is True or y is True: return True
            if x is None or y is None: return None
            return False
        def k_not(x): return None if x is None else (not x)
        if comb == 12:
            a = rd(1)
            if a[0] == "E": return (r == a, "not: error")
            if a[0] == "N": return (r == ("N",), "not: absent")
            return (r == ("S", a[1], (1 - a[2][0],)), "not: wrong negation")
        a, b = rd(1), rd(1)
        if a[0] == "E": return (r == a, "logic: input 1 error first")
        if b[0] == "E": return (r == b, "logic: input 2 error")
        ka, kb = K(a), K(b)
        exp = {10: k_and(ka, kb), 11: k_or(ka, kb), 18: k_not(k_and(ka, kb)), 19: k_or(k_not(ka), k_not(kb)),
               20: k_not(k_or(ka, kb)), 21: k_and(k_not(ka), k_not(kb))}[comb]
        if exp is None:
            return (r == ("N",), "%s: Kleene value unknown but result %s" % (NAMES[comb], r))
        ts = [x[1] for x in (a, b) if x[0] == "S"]
        return (r == ("S", max(ts), (int(exp),)), "%s: expected %s at %d, got %s" % (NAMES[comb], exp, max(ts), r))
    if comb == 14:
        i = rd(1); now = tout(); lim = case[pos]
        if i[0] != "S": return (r == i, "expirer: error/absent input must be returned")
        if now[0] == "E": return (r == ("E", now[1]), "expirer: time getter error")
        age = now[1] - i[1]
        if not (I64_MIN <= age <= I64_MAX): return True, ""
        return (r == (("N",) if age > lim else i), "expirer: age %d limit %d result %s" % (age, lim, r))
    if comb == 15:
        i = rd(1)
        return (r == (("E", -1) if i[0] == "N" else i), "none-to-error")
    if comb == 16:
        i = rd(1); now = tout(); v = case[pos]
        if i[0] != "N": return (r == i, "none-to-value must pass present/error through")
        if now[0] == "E": return (r == ("E", now[1]), "none-to-value: time getter error")
        return (r == ("S", now[1], (v,)), "none-to-value substitution")
    if comb == 17:
        return (r == ("N",), "NoneGetter")
    if comb == 22:
        now = tout(); v = case[pos]
        return (r == (("E", now[1]) if now[0] == "E" else ("S", now[1], (v,))), "ConstantGetter")
    return True, ""


def gen(rng, tier, cfg, pow_query):
    cases, tags, metas = [], [], []
    big = tier != "quick"
    hdr = lambda comb, ptype, n: [3, cfg["chk"], cfg["std"], comb, ptype, n]
    def pay(ptype, unit=None):
        if ptype == 0: return [rand_f32_bits(rng)]
        if ptype == 1: return [rand_f32_bits(rng)] + list(unit)
        return [rng.randint(0, 1)]
    def add(c, tag):
        cases.append(c); tags.append(tag)
    maxn = 5 if not big else 8
    # n-ary sum / product / newest-of
    for comb in (1, 2, 13):
        for ptype in ((0, 1) if comb != 13 else (0,)):
            for n in range(1, maxn + 1):
                assigns = list(itertools.product(CATS, repeat=n))
                if n > 5:
                    assigns = rng.sample(assigns, 3000)
                for asg in assigns:
                    k = sum(1 for a in asg if a == "S")
                    orders = WO[k] if k <= 5 else [tuple(rng.randint(0, k - 1) for _ in range(k)) for _ in range(6)]
                    if n == 5 and not big and k >= 4:
                        orders = rng.sample(orders, min(len(orders), 40))
                    for ranks in orders:
                        ts = times_for(rng, ranks)
                        unit = (rng.randint(-2, 2), rng.randint(-2, 2))
                        it = iter(ts)
                        c = hdr(comb, ptype, n)
                        for a in asg:
                            c += mk_out(a, next(it) if a == "S" else 0, pay(ptype, unit))
                        add(c, "%s/%d/p%d" % (NAMES[comb], n, ptype))
    add(hdr(1, 0, 0), "SumStream/0"); add(hdr(2, 0, 0), "ProductStream/0"); add(hdr(13, 0, 0), "Latest/0")
    # two-input arithmetic
    reps = 3 if not big else 30
    for comb in (3, 4, 5, 6):
        for ptype in (0, 1):
            for asg in itertools.product(CATS, repeat=2):
                k = sum(1 for a in asg if a == "S")
                for ranks in WO[k]:
                    for _ in range(reps):
                        ts = iter(times_for(rng, ranks))
                        unit = (rng.randint(-2, 2), rng.randint(-2, 2))
                        u2 = unit if rng.random() < 0.85 else (unit[0] + 1, unit[1])
                        c = hdr(comb, ptype, 2)
                        c += mk_out(asg[0], next(ts) if asg[0] == "S" else 0, pay(ptype, unit))
                        c += mk_out(asg[1], next(ts) if asg[1] == "S" else 0, pay(ptype, u2))
                        add(c, "%s/p%d" % (NAMES[comb], ptype))
    # exponent (pow oracle): build cases now, fill the table later
    expo = []
    for asg in itertools.product(CATS, repeat=2):
        k = sum(1 for a in asg if a == "S")
        for ranks in WO[k]:
            for _ in range(reps):
                ts = iter(times_for(rng, ranks))
                b = rng.choice([f2b(x) for x in (0.0, 1.0, 0.5, 2.0, 0.9, 0.25, 10.0, -2.0, 1e-3)] + [rand_f32_bits(rng)])
                e = rng.choice([f2b(x) for x in (0.0, 1.0, 2.0, 0.5, -1.0, 3.0, 1e-3, 0.02)] + [rand_f32_bits(rng)])
                a1 = mk_out(asg[0], next(ts) if asg[0] == "S" else 0, [b])
                a2 = mk_out(asg[1], next(ts) if asg[1] == "S" else 0, [e])
                expo.append((a1, a2, b, e, asg))
    tbl = pow_query([(b, e) for (_, _, b, e, asg) in expo if asg == ("S", "S")])
    for (a1, a2, b, e, asg) in expo:
        t = [1, b, e, tbl[(b, e)]] if asg == ("S", "S") else [0]
        add(hdr(7, 0, 2) + t + a1 + a2, "ExponentStream")
    # logic incl. De Morgan probes
    BC = ("E1", "E2", "N", "T", "F")
    def bout(cat, t):
        if cat in ("E1", "E2", "N"): return mk_out(cat, 0, [])
        return oSome(t, [1 if cat == "T" else 0])
    for comb in (10, 11, 18, 19, 20, 21):
        for asg in itertools.product(BC, repeat=2):
            k = sum(1 for a in asg if a in "TF")
            for ranks in WO[k]:
                for _ in range(reps):
                    ts = iter(times_for(rng, ranks))
                    c = hdr(comb, 2, 2)
                    for a in asg:
                        c += bout(a, next(ts) if a in "TF" else 0)
                    add(c, NAMES[comb])
    for a in BC:
        for _ in range(reps):
            add(hdr(12, 2, 1) + bout(a, times_for(rng, (0,))[0]), "NotStream")
    # flow
    for cnd in BC:
        for ic in CATS:
            for _ in range(reps):
                t1, t2 = times_for(rng, (rng.randint(0, 1), rng.randint(0, 1)))
                add(hdr(8, 0, 2) + bout(cnd, t1) + mk_out(ic, t2, pay(0)), "IfStream")
                for fc in CATS:
                    add(hdr(9, 0, 3) + bout(cnd, t1) + mk_out(ic, t2, pay(0)) + mk_out(fc, t2 + 1 if t2 < I64_MAX else t2, pay(0)), "IfElseStream")
    for ic in CATS:
        for now in ("E1", "E2", "T"):
            for rel in (-1, 0, 1, "ovf"):
                for _ in range(reps):
                    lim = rng.choice([0, 1, 10**9, 5, 123456])
                    t = rng.choice([0, -10**9, 10**12, 77])
                    if rel == "ovf":
                        t, nowv = I64_MIN + rng.randint(0, 3), rng.randint(1, 10**6)
                    else:
                        nowv = t + lim + rel
                    tg = tErr(1 if now == "E1" else 2) if now != "T" else tOk(nowv)
                    add(hdr(14, 0, 1) + mk_out(ic, t, pay(0)) + tg + [lim], "Expirer")
    # limits up to "never expire" (i64::MAX) and negative limits, ages of both signs
    for ic in CATS:
        for lim in (I64_MAX, I64_MAX - 7, 2**62, -1, -10**9, I64_MIN):
            for _ in range(reps):
                t = rng.choice([0, 5, -5, 10**12, -10**12, 2**40, I64_MAX - 3, I64_MIN + 3])
                nowv = max(I64_MIN, min(I64_MAX, t + rng.choice([0, 1, -1, 10**9, -10**9, 2**50])))
                add(hdr(14, 0, 1) + mk_out(ic, t, pay(0)) + tOk(nowv) + [lim], "Expirer/limits")
    for ic in CATS:
        for _ in range(reps):
            t = times_for(rng, (0,))[0]
            add(hdr(15, 0, 1) + mk_out(ic, t, pay(0)), "NoneToError")
            add(hdr(23, 0, 1) + mk_out(ic, t, pay(0)), "TimeGetterFromGetter")
            for now in ("E1", "E2", "T"):
                tg = tErr(1 if now == "E1" else 2) if now != "T" else tOk(times_for(rng, (0,))[0])
                add(hdr(16, 0, 1) + mk_out(ic, t, pay(0)) + tg + pay(0), "NoneToValue")
                add(hdr(22, 0, 0) + tg + pay(0), "ConstantGetter")
    add(hdr(17, 0, 0), "NoneGetter")
    return cases, tags


def make_pow_query(exe, cfg):
    """ask the implementation's own build for powf(b, e) through the public ExponentStream"""
    cache = {}
    def q(pairs):
        need = sorted(set(p for p in pairs if p not in cache))
        if need:
            cs = [[3, cfg["chk"], cfg["std"], 7, 0, 2, 0] + oSome(0, [b]) + oSome(0, [e]) for (b, e) in need]
            outs = run_sharded(exe, cs)
            for (b, e), o in zip(need, outs):
                cache[(b, e)] = o[2] if o and o[0] == 2 else 0x7FC00000
        return cache
    return q


def run(chk, replay=None):
    proof = proof_check_streams(PID, "C02Streams", extra=("C16Slots",))
    drv = build_driver()
    exe = build_harness("default")
    cfg = harness_config(exe)
    if replay:
        r = json.load(open(replay)); c = r["case"]
        io, mo = run_sharded(exe, [c])[0], run_sharded(drv, [c])[0]
        print("impl :", io, "\nmodel:", mo, "\noracle:", okb(c, io, mo))
        return 0 if io == mo and okb(c, io, mo)[0] else 1
    rng = random.Random(chk.seed)
    cases, tags = gen(rng, chk.tier, cfg, make_pow_query(exe, cfg))
    impl, model = correspondence(chk, cases, tags, exe, drv, okb=okb,
                                 describe=lambda c, o: {"combinator": NAMES.get(c[3]), "arity": c[5], "inputs_and_extras": c[6:], "result_twice": o})
    # metamorphic checks on the implementation: Sum2/Product2 = n-ary on [a;b]; De Morgan
    by = {}
    for c, o in zip(cases, impl):
        by.setdefault((c[3], tuple(c[4:])), o)
    n_pairs = 0
    for (comb, rest), o in list(by.items()):
        for a, b, what in ((3, 1, "Sum2 vs SumStream"), (4, 2, "Product2 vs ProductStream"), (18, 19, "De Morgan not(and)"), (20, 21, "De Morgan not(or)")):
            if comb == a and (b, rest) in by:
                n_pairs += 1
                if by[(b, rest)] != o:
                    chk.violation("%s disagree on the same inputs: %s vs %s" % (what, o, by[(b, rest)]),
                                  {"case": [3, cfg["chk"], cfg["std"], a] + list(rest), "other_case": [3, cfg["chk"], cfg["std"], b] + list(rest)}, True)
    # give the n-ary streams the same two-input cases as Sum2/Product2 so that the pairs exist
    extra = [[3, c[1], c[2], {3: 1, 4: 2}[c[3]]] + c[4:] for c in cases if c[3] in (3, 4)]
    eo = run_sharded(exe, extra)
    for c2, o2 in zip(extra, eo):
        orig = by.get(({1: 3, 2: 4}[c2[3]], tuple(c2[4:])))
        n_pairs += 1
        if orig is not None and orig != o2:
            chk.violation("two-input stream and n-ary stream disagree on [a;b]: %s vs %s" % (orig, o2),
                          {"case": c2, "two_input_result": orig, "nary_result": o2}, True)
            break
    chk.cov["metamorphic_pairs_checked"] = n_pairs
    chk.cov["exhaustive"] = True
    chk.cov["exhaustive_part"] = "every assignment of {Err1,Err2,None,Some} (booleans: true/false) to the inputs of each combinator, arities 1..%d for sum/product/newest-of, crossed with every weak order of the present inputs' timestamps (sampled for >=4 present inputs at arity 5 in quick tier and for arities >5); expirer age <,=,> limit and i64 overflow" % (5 if chk.tier == "quick" else 8)
    chk.assumptions.append("powf values are taken from the implementation's own build through ExponentStream (oracle)")
    if not proof["ok"] and not chk.violations:
        chk.violation("proof obligations of C02 no longer check: " + "; ".join(proof["problems"])[:1500],
                      {"theorem_file": "coq/theories/Properties/C02.v", "problems": proof["problems"]}, False)
    return chk.finish(proof,
        rule="one case = one combinator over scripted inputs, read twice; categorical enumeration as in exhaustive_part, values random f32 / Quantity (15% mismatched units for two-input forms) / bool; hook rrtk_verif poisons the scratch arrays; distinct = distinct (combinator/arity, model result)",
        checker_cmd="make -C coq ; coqc Properties/C02.v", trusted=std_trusted() + ["powf oracle: values read from the implementation"])
