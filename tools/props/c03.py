"""C03 — combined data carry the newest contributing timestamp; selection picks newest (value layer,
stream level via C02's cases, device level via C08/C13's cases)."""
import random
from common import *

PID = "C03"
# timestamp pair classes: <, =, >, adjacent, negative, extremes
def tpairs(rng):
    base = [(0, 0), (0, 1), (1, 0), (5, 5), (-1, 0), (0, -1), (-5, -7), (-7, -5), (-3, -3),
            (I64_MAX, I64_MAX - 1), (I64_MAX - 1, I64_MAX), (I64_MAX, I64_MAX), (I64_MIN, I64_MIN + 1), (I64_MIN + 1, I64_MIN),
            (I64_MIN, I64_MIN), (I64_MIN, I64_MAX), (I64_MAX, I64_MIN), (10**9, 10**9 + 1), (10**9 + 1, 10**9),
            (-10**18, 10**18), (10**18, -10**18), (2**53, 2**53 + 1), (2**53 + 1, 2**53), (1, 1), (-1, -1)]
    return base


def payloads(rng):
    rb = lambda: rand_f32_bits(rng)
    u = (rng.randint(-3, 3), rng.randint(-3, 3))
    k = rng.randrange(3)
    return {
        "F": (vF(rb()), vF(rb())),
        "Q": (vQ(rb(), *u), vQ(rb(), *u)),
        "S": (vS(rb(), rb(), rb()), vS(rb(), rb(), rb())),
        "C": (vC(k, rb()), vC(k, rb())),
        "B": (vB(rng.random() < 0.5), vB(rng.random() < 0.5)),
    }

FORMS = []   # (tag, op, lhs payload, rhs payload, rhs is datum?)
for o in range(1, 9):
    base = o if o <= 4 else o - 4
    for p in ("F", "Q"):
        FORMS.append((p + p + str(o) + "dd", o, p, p, True)); FORMS.append((p + p + str(o) + "ds", o, p, p, False))
    if base in (1, 2):
        for p in ("S", "C"):
            FORMS.append((p + p + str(o) + "dd", o, p, p, True)); FORMS.append((p + p + str(o) + "ds", o, p, p, False))
    else:
        for p in ("S", "C"):
            FORMS.append((p + "F" + str(o) + "dd", o, p, "F", True)); FORMS.append((p + "F" + str(o) + "ds", o, p, "F", False))


def okb(case, io, mo):
    e = case[3:]
    if io and io[0] in ("crash", "garbled"):
        return False, "implementation crashed"
    if e[0] != 100: return True, ""
    o, n = e[1], e[2]
    if io in ([99], [98]) or mo in ([99], [98]):
        return True, ""
    if n == 2 and 1 <= o <= 8 and e[3:5] == [0, 13]:
        t1 = e[5]
        a, p = dec_val(e, 4)
        if e[p] != 0: return True, ""
        b, _ = dec_val(e, p + 1)
        r, _ = dec_val(io)
        if r[0] != "Dat": return False, "result is not a datum"
        want = max(t1, b[1]) if b[0] == "Dat" else t1
        return (r[1] == want, "result time %d, newest contributing time is %d" % (r[1], want))
    if n == 1 and o in (9, 10) and e[3:5] == [0, 13]:
        r, _ = dec_val(io)
        return (r[0] == "Dat" and r[1] == e[5], "unary operator changed the timestamp")
    if n == 2 and o in (70, 73) and e[3:5] == [0, 13]:
        a, p = dec_val(e, 4); b, _ = dec_val(e, p + 1)
        r, _ = dec_val(io)
        if o == 73:
            exp = a if a[1] >= b[1] else b
            return (r == exp, "latest() returned %s, expected %s" % (r, exp))
        exp = ("Pair", b, ("B", 1)) if b[1] > a[1] else ("Pair", a, ("B", 0))
        return (r == exp, "replace_if_older_than gave %s, expected %s" % (r, exp))
    if n == 2 and o in (71, 72):
        a, p = dec_val(e, 4); b, _ = dec_val(e, p + 1)
        r, _ = dec_val(io)
        cand = b if o == 71 else (b[1] if b[0] == "Some" else None)
        if cand is None:
            exp = ("Pair", a, ("B", 0))
        elif a[0] == "None" or cand[1] > a[1][1]:
            exp = ("Pair", ("Some", cand), ("B", 1))
        else:
            exp = ("Pair", a, ("B", 0))
        return (r == exp, "replace_if_none_or_older_than gave %s, expected %s" % (r, exp))
    return True, ""


def gen(rng, tier, cfg):
    cases, tags = [], []
    def add(e, tag):
        cases.append(prog_case(cfg, e)); tags.append(tag)
    big = tier != "quick"
    reps = 3 if not big else 25
    for (tag, o, pl, pr, isdat) in FORMS:
        for (t1, t2) in tpairs(rng):
            for _ in range(reps):
                P = payloads(rng)
                lhs = Lit(vDat(t1, P[pl][0]))
                rhs = Lit(vDat(t2, P[pr][1])) if isdat else Lit(P[pr][1])
                add(Op(o, lhs, rhs), tag)
    for (t1, t2) in tpairs(rng):
        for _ in range(reps):
            P = payloads(rng)
            for p in ("F", "Q", "S", "C"):
                add(Op(9, Lit(vDat(t1, P[p][0]))), "neg" + p)
            add(Op(10, Lit(vDat(t1, P["B"][0]))), "notB")
            for p in ("F", "Q", "S", "C", "B"):
                a, b = vDat(t1, P[p][0]), vDat(t2, P[p][1])
                add(Op(70, Lit(a), Lit(b)), "repl_older_" + p)
                add(Op(73, Lit(a), Lit(b)), "latest_" + p)
                add(Op(71, Lit(vSome(a)), Lit(b)), "repl_none_older_some_" + p)
                add(Op(71, Lit(vNone()), Lit(b)), "repl_none_older_none_" + p)
                add(Op(72, Lit(vSome(a)), Lit(vSome(b))), "repl_opt_ss_" + p)
                add(Op(72, Lit(vSome(a)), Lit(vNone())), "repl_opt_sn_" + p)
                add(Op(72, Lit(vNone()), Lit(vSome(b))), "repl_opt_ns_" + p)
                add(Op(72, Lit(vNone()), Lit(vNone())), "repl_opt_nn_" + p)
    # random timestamps
    for _ in range(3000 if not big else 200000):
        (tag, o, pl, pr, isdat) = rng.choice(FORMS)
        t1 = rng.randint(I64_MIN, I64_MAX) if rng.random() < 0.5 else rng.randint(-10**12, 10**12)
        t2 = t1 + rng.choice([-1, 0, 1]) if rng.random() < 0.3 else (rng.randint(I64_MIN, I64_MAX) if rng.random() < 0.5 else rng.randint(-10**12, 10**12))
        t2 = max(I64_MIN, min(I64_MAX, t2))
        P = payloads(rng)
        if rng.random() < 0.1 and pl == "Q":   # mismatched units: the panic must agree
            P["Q"] = (P["Q"][0], vQ(rand_f32_bits(rng), rng.randint(-3, 3), rng.randint(-3, 3)))
        if rng.random() < 0.1 and pl == "C" and pr == "C":
            P["C"] = (P["C"][0], vC(rng.randrange(3), rand_f32_bits(rng)))
        lhs = Lit(vDat(t1, P[pl][0]))
        rhs = Lit(vDat(t2, P[pr][1])) if isdat else Lit(P[pr][1])
        add(Op(o, lhs, rhs), "rnd_" + tag)
    return cases, tags


def impl_inventory():
    """headers of every `impl <Op> ... for Datum<...>` in src/datum.rs, to report coverage of the operator table"""
    import re
    src = open(os.path.join(REPO, "src/datum.rs")).read()
    return re.findall(r"^impl(?:<[^{]*>)?\s+([A-Za-z]+(?:<[^>]*>+)?)\s+for\s+(Datum<[A-Za-z0-9]+>)", src, re.M)


def run(chk, replay=None):
    import gen_datum
    gen_sources()
    try:
        rows = gen_datum.main(REPO, gen_dir())
        chk.cov["datum_impls_translated"] = len(rows)
        # C08Devices.v: the time-stamp rules of the device updates (newest contributing read; axle accumulator from i64::MIN) as translated from src/devices.rs
        proof = proof_check_streams(PID, "C08Devices", extra=("C03DatumOps", "CtorStreams"))
    except gen_datum.ParseError as ex:
        proof = proof_check(PID)
        proof["ok"] = False
        proof["problems"].append("translator tools/gen_datum.py cannot read the current source: %s" % ex)
    drv = build_driver()
    exe = build_harness("default")
    cfg = harness_config(exe)
    if replay:
        r = json.load(open(replay)); c = r["case"]
        io, mo = run_sharded(exe, [c])[0], run_sharded(drv, [c])[0]
        print("impl :", io, "\nmodel:", mo, "\noracle:", okb(c, io, mo))
        return 0 if io == mo and okb(c, io, mo)[0] else 1
    rng = random.Random(chk.seed)
    cases, tags = gen(rng, chk.tier, cfg)
    correspondence(chk, cases, tags, exe, drv, okb=okb,
                   describe=lambda c, o: {"program": c[3:], "result": dec_val(o)[0] if o and isinstance(o[0], int) else o})
    # stream level and device level: the same law where timestamped values are combined by the arithmetic / logic
    # streams (C02's cases and oracle) and by device updates and terminal averaging (C08's cases and oracle)
    import c02, c08, c13
    cs2, tg2 = c02.gen(rng, "quick", cfg, c02.make_pow_query(exe, cfg))
    keep = [i for i, c in enumerate(cs2) if c[3] in (1, 2, 3, 4, 5, 6, 10, 11, 13)]
    if chk.tier == "quick": keep = keep[::3]
    correspondence(chk, [cs2[i] for i in keep], ["stream:" + tg2[i] for i in keep], exe, drv, okb=c02.okb,
                   describe=lambda c, o: {"combinator": c02.NAMES.get(c[3]), "inputs": c[6:], "result_twice": o})
    exe_d = build_harness("devices"); cfg_d = harness_config(exe_d)
    cs8, tg8 = c08.gen(rng, cfg_d, chk.tier != "quick")
    if chk.tier == "quick": cs8, tg8 = cs8[::2], tg8[::2]
    # negative and i64-extreme timestamps on every terminal of an axle / inverter / gear train / differential
    from world_gen import dev_spec, world_case, rstate
    for kind, kw in [(1, {}), (2, {}), (3, {"n": 2}), (3, {"n": 4}), (4, {"distrust": 3}), (4, {"distrust": 1})]:
        for _ in range(20):
            enc, n = dev_spec(rng, kind, **kw)
            base = rng.choice([-10**12, I64_MIN + 5, -7, I64_MAX - 20, 0])
            ops = [[3, i, base + rng.randint(0, 9)] + rstate(rng) for i in range(n)] + [[7], [5, 0], [7]]
            cs8.append(world_case(cfg_d, 0, [enc], ops)); tg8.append("times/%d" % kind)
    correspondence(chk, cs8, ["device:" + t for t in tg8], exe_d, drv, okb=c08.okb,
                   describe=lambda c, o: {"case_head": c[:40], "output_head": o[:40]})
    inv = impl_inventory()
    chk.cov["datum_impl_headers_in_source"] = len(inv)
    chk.cov["operator_forms_exercised"] = len(FORMS) + 2
    chk.cov["exhaustive"] = True
    chk.cov["exhaustive_part"] = "every Datum operator form (%d binary forms x {datum, scalar} rhs, Neg x4, Not) x 25 timestamp pair classes; helpers x 5 payload types x 25 classes; random timestamps are sampled" % (len(FORMS) // 2)
    if len(inv) != 34 + 0 and len(inv) != len(set(inv)):
        chk.notes.append("impl inventory has duplicates")
    if len(inv) > 34:
        chk.notes.append("src/datum.rs now has %d operator impls for Datum (34 when the operator table was written): new impls are not covered until the table is extended" % len(inv))
    if not proof["ok"] and not chk.violations:
        chk.violation("proof obligations of C03 no longer check: " + "; ".join(proof["problems"])[:1500],
                      {"theorem_file": "coq/theories/Properties/C03.v ; coq/gen_theorems/C03DatumOps.v over build/gen/GenDatumOps.v", "problems": proof["problems"]}, False)
    return chk.finish(proof,
        rule="operator form x payload type x timestamp pair class (<,=,>, adjacent, negative, i64 extremes), values random; distinct = distinct (form, model result)",
        checker_cmd="make -C coq ; coqc Properties/C03.v ; coqc gen_theorems/C03DatumOps.v", trusted=std_trusted() + ["translator tools/gen_datum.py (recursive-descent parser for the Rust subset used by the bodies of src/datum.rs; fails rather than skips)"])
