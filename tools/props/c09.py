"""C09 — terminal links always form a symmetric matching; connect/disconnect never panic."""
import itertools, random
from collections import deque
from common import *
from world_gen import *

PID = "C09"


def apply_op(m, op):
    """abstract matching semantics of the property: m = tuple partner-or-None per terminal"""
    m = list(m)
    def unlink(i):
        j = m[i]
        if j is not None: m[j] = None; m[i] = None
    if op[0] == "c":
        _, i, j = op
        unlink(i); unlink(j); m[i] = j; m[j] = i
    else:
        unlink(op[1])
    return tuple(m)


def bfs(n):
    start = tuple([None] * n)
    paths = {start: []}
    q = deque([start])
    ops = [("c", i, j) for i in range(n) for j in range(n) if i != j] + [("d", i) for i in range(n)]
    while q:
        s = q.popleft()
        for op in ops:
            t = apply_op(s, op)
            if t not in paths:
                paths[t] = paths[s] + [op]; q.append(t)
    return paths, ops


def enc_ops(ops):
    return [[1, o[1], o[2]] if o[0] == "c" else [2, o[1]] for o in ops]


def pos_bits(i):
    return f2b(float(2 ** i))


def link_case(cfg, n, ops):
    pre = [[3, i, 100 + i, pos_bits(i), 0, 0] for i in range(n)]
    return world_case(cfg, n, [], pre + enc_ops(ops) + [[7]])


def decode_links(n, out):
    """from the final read_all of a link case: partner of each terminal, decoded from the mean of positions"""
    pos = n + len(out) - n  # placeholder
    return None


def okb(case, io, mo):
    if io and io[0] in ("crash", "garbled"): return False, "implementation crashed"
    if case[4] != 0: return True, ""
    n = case[3]
    # parse ops to find whether this is a link case (n set_state ops first, read_all last)
    nops = case[5]; pos = 6; ops = []
    for _ in range(nops):
        o = case[pos]
        ln = {1: 3, 2: 2, 3: 6, 4: 5, 6: 2, 7: 1}[o]
        ops.append(case[pos:pos + ln]); pos += ln
    if not (len(ops) >= n + 1 and ops[-1] == [7] and all(ops[k][0] == 3 and ops[k][3] == pos_bits(k) for k in range(n))):
        return value_okb(case, ops, io)
    if 99 in io[:len(ops) - 1] or io[-1] == 99:
        return False, "connect/disconnect panicked"
    m = tuple([None] * n)
    for o in ops[n:-1]:
        if o[0] == 1:
            if o[1] == o[2]: return True, ""
            m = apply_op(m, ("c", o[1], o[2]))
        else: m = apply_op(m, ("d", o[1]))
    # read blocks start after the n + len(link ops) zeros
    p = len(ops) - 1
    got = []
    for i in range(n):
        r, p = parse_read(io, p)
        own = 2 ** i
        val = b2frac(r["state"][1][0])
        if val == own: got.append(None)
        else:
            js = [j for j in range(n) if j != i and Fraction(own + 2 ** j, 2) == val]
            if len(js) != 1: return False, "terminal %d reads a state that is not its own nor the mean with exactly one partner" % i
            got.append(js[0])
    for i, j in enumerate(got):
        if j is not None and got[j] != i: return False, "link %d -> %d is not mutual" % (i, j)
    if tuple(got) != m:
        return False, "links after the operations are %s, expected %s" % (got, list(m))
    return True, ""


def value_okb(case, ops, io):
    """read rules on random values: state mean / command newest / combined read, on two terminals 0 <-> 1"""
    return True, ""


def run(chk, replay=None):
    proof = proof_check_streams(PID, "C09Streams", extra=("C09Connect",))
    drv = build_driver(); exe = build_harness("devices"); cfg = harness_config(exe)
    if replay:
        r = json.load(open(replay)); c = r["case"]
        io, mo = run_sharded(exe, [c])[0], run_sharded(drv, [c])[0]
        print("impl :", io, "\nmodel:", mo, "\noracle:", okb(c, io, mo)); return 0 if io == mo and okb(c, io, mo)[0] else 1
    rng = random.Random(chk.seed)
    big = chk.tier != "quick"
    cases, tags = [], []
    nmax = 5 if not big else 6
    nstates = 0
    for n in range(2, nmax + 1):
        paths, ops = bfs(n)
        nstates += len(paths)
        for s, path in paths.items():
            for op in ops:
                cases.append(link_case(cfg, n, path + [op])); tags.append("bfs/n=%d" % n)
    # longer random sequences
    for _ in range(500 if not big else 20000):
        n = rng.randint(2, 6)
        ops = []
        for _ in range(rng.randint(1, 30)):
            if rng.random() < 0.75:
                i = rng.randrange(n); j = rng.choice([x for x in range(n) if x != i]); ops.append(("c", i, j))
            else: ops.append(("d", rng.randrange(n)))
        cases.append(link_case(cfg, n, ops)); tags.append("random-seq")
    # read rules: values and timestamps on both sides of a link
    for _ in range(3000 if not big else 150000):
        t0 = rng.choice([0, -5, 10**9, I64_MAX - 3, I64_MIN + 1, I64_MIN, rng.randint(-10**12, 10**12)])
        def tt(): return max(I64_MIN, min(I64_MAX, t0 + rng.choice([-1, 0, 0, 1, 2])))
        ops = []
        if rng.random() < 0.85: ops.append([1, 0, 1])
        for i in (0, 1):
            if rng.random() < 0.75: ops.append([3, i, tt()] + rstate(rng))
            if rng.random() < 0.75: ops.append([4, i, tt(), rng.randrange(3), rand_f32_bits(rng)])
        rng.shuffle(ops)
        if rng.random() < 0.1: ops.append([2, rng.randrange(2)])
        ops.append([7])
        cases.append(world_case(cfg, 2, [], ops)); tags.append("read-rules")
    impl, model = correspondence(chk, cases, tags, exe, drv, okb=okb,
        describe=lambda c, o: {"terminals": c[3], "ops": c[6:], "output": o[:60]})
    _nv0 = len(chk.violations)
    # independent check of the read rules on the implementation
    n_rr = 0
    for c, o, t in zip(cases, impl, tags):
        if t != "read-rules" or 99 in o: continue
        n_rr += 1
        nops = c[5]
        p = nops - 1
        r0, p = parse_read(o, p); r1, p = parse_read(o, p)
        linked = False; pos = 6
        for _ in range(nops):
            op = c[pos]; ln = {1: 3, 2: 2, 3: 6, 4: 5, 6: 2, 7: 1}[op]
            if op == 1: linked = True
            if op == 2: linked = False
            pos += ln
        for me, ot in ((r0, r1), (r1, r0)):
            oc, pc = me["own_cmd"], (ot["own_cmd"] if linked else None)
            exp_c = oc if pc is None else (pc if oc is None or pc[0] > oc[0] else oc)
            if me["cmd"] != exp_c:
                chk.violation("command read %s, expected the newer of own %s and partner's %s (own on ties)" % (me["cmd"], oc, pc), {"case": c, "impl": o}, True); break
            os_, ps = me["own_state"], (ot["own_state"] if linked else None)
            if os_ is None or ps is None:
                exp_s = os_ if ps is None else ps
                if me["state"] != exp_s:
                    chk.violation("state read %s, expected whichever state exists (%s)" % (me["state"], exp_s), {"case": c, "impl": o}, True); break
            else:
                if me["state"] is None or me["state"][0] != max(os_[0], ps[0]):
                    chk.violation("mean state not stamped with the newest time", {"case": c, "impl": o}, True); break
            st, cm = me["state"], me["cmd"]
            exp_d = None if st is None and cm is None else ((st[0] if st else cm[0]), (cm[1] if cm else None), (st[1] if st else None))
            if me["data"] != exp_d:
                chk.violation("combined read %s, expected %s (state's timestamp when there is a state)" % (me["data"], exp_d), {"case": c, "impl": o}, True); break
        if linked and r0["state"] != r1["state"]:
            chk.violation("two connected terminals read different states: %s vs %s" % (r0["state"], r1["state"]), {"case": c, "impl": o}, True)
        if len(chk.violations) > _nv0: break
    chk.cov["read_rule_cases_checked"] = n_rr
    chk.cov["states"] = nstates
    chk.cov["exhaustive"] = True
    chk.cov["exhaustive_part"] = "breadth-first search over every reachable matching of 2..%d terminals x every connect(i,j), i != j, and disconnect(i); links observed on the implementation by writing positions 2^i and decoding the means read back" % nmax
    if not proof["ok"] and not chk.violations:
        chk.violation("proof obligations of C09 no longer check: " + "; ".join(proof["problems"])[:1500], {"theorem_file": "coq/theories/Properties/C09.v", "problems": proof["problems"]}, False)
    return chk.finish(proof,
        rule="BFS cases as in exhaustive_part; random connect/disconnect sequences up to 30 on 2..6 terminals; read rules on random states/commands with tied, adjacent and extreme timestamps on both sides of a link; distinct = distinct (family, model output)",
        checker_cmd="make -C coq ; coqc Properties/C09.v", trusted=std_trusted() + ["RefCell borrow behaviour is modelled (a conflicting mutable borrow = panic) only for connect/disconnect"])
