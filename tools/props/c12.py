"""C12 — EWMA and moving average are time-weighted convex averages and never panic."""
import random
from streams_common import *

PID = "C12"
E2 = Fraction(1, 2**21)


def parse(case):
    s = case[3]
    pos = 5
    if s in (3, 4): pos += 1 + 3 * case[pos]
    n = case[pos]; pos += 1
    evs = []
    for _ in range(n):
        e, pos2 = dec_out_py(case, pos, IN_W[s]); evs.append(case[pos:pos2]); pos = pos2
    return s, case[4], evs


def okb(case, io, mo):
    if io and io[0] in ("crash", "garbled"): return False, "implementation crashed"
    s, par, evs = parse(case)
    outs = split_outputs(s, io)
    ok, why = generic_okb(s, evs, outs)
    if not ok: return ok, why
    times = [e[1] for e in evs if e[0] == 2]
    nondec = all(a <= b for a, b in zip(times, times[1:])) and all(abs(t) < 2**61 for t in times)
    units = set(tuple(e[3:5]) for e in evs if e[0] == 2 and len(e) > 3)
    if not nondec or len(units) > 1:
        return True, ""
    if s in (5, 6) and par <= 0:
        return True, ""
    if "PANIC" in outs:
        return False, "%s panicked on a history with non-decreasing timestamps and a positive window" % STREAMS[s]
    if s in (3, 4):
        sm = b2frac(par)
        if sm is None or not (0 <= sm <= 1): return True, ""
    # moving average: the exact time-weighted average over the window (each sample covers the interval ending at its time stamp,
    # the oldest one the interval from the window's start), in exact rationals with a forward rounding bound
    if s in (5, 6):
        q = []
        for j, (e, o) in enumerate(zip(evs, outs)):
            u, g, same, _ = o
            if e[0] == 1: q = []; continue
            if e[0] == 0: continue
            x = b2frac(e[2])
            if x is None: break
            q.append((e[1], x))
            while q and q[0][0] <= e[1] - par: q.pop(0)
            if not q: break
            starts = [e[1] - par] + [t for t, _ in q[:-1]]
            ws = [t - st for (t, _), st in zip(q, starts)]
            want = sum(v * w for (_, v), w in zip(q, ws)) / par
            mag = sum(abs(v) * abs(w) for (_, v), w in zip(q, ws)) / par
            if g[0] == "S":
                got = b2frac(g[2][0])
                if got is not None and abs(got - want) > (len(q) + 6) * E2 * mag + Fraction(1, 2**120):
                    return False, "%s: output %s after event %d is not the time-weighted average %s of the %d samples in the window" % (STREAMS[s], float(got), j, float(want), len(q))
    # convexity: output between the smallest and largest contributing sample since the last reset
    contrib = []
    first = True
    for e, o in zip(evs, outs):
        u, g, same, _ = o
        if e[0] == 1:
            contrib, first = [], True; continue
        if e[0] == 0: continue
        x = b2frac(e[2])
        if x is None: return True, ""
        if s in (5, 6):
            contrib = [(t, v) for (t, v) in contrib if t > e[1] - par]
        contrib.append((e[1], x))
        if g[0] != "S": return False, "%s: absent output after a present sample" % STREAMS[s]
        if g[1] != e[1]: return False, "%s: output not stamped with the sample's time" % STREAMS[s]
        got = b2frac(g[2][0])
        if got is None: continue
        vals = [v for _, v in contrib]
        lo, hi = min(vals), max(vals)
        tol = 8 * E2 * max(abs(lo), abs(hi)) + Fraction(1, 2**120)
        if s in (3, 4) and first:
            if got != x and not (got == 0 and x == 0):
                return False, "EWMA: first sample %s returned as %s" % (float(x), float(got))
        if not (lo - tol <= got <= hi + tol):
            return False, "%s: output %s outside [%s, %s] of the contributing samples" % (STREAMS[s], float(got), float(lo), float(hi))
        first = False
    return True, ""


def run(chk, replay=None):
    if replay: return replay_case(replay)
    proof = proof_check_streams(PID, "C12Streams", extra=("C12MA", "C12MAQ", "CtorStreams"))
    drv = build_driver(); exe = build_harness("default"); cfg = harness_config(exe)
    rng = random.Random(chk.seed)
    big = chk.tier != "quick"
    b = Builder(cfg, exe)
    pairs = []
    for _ in range(900 if not big else 40000):
        n = rng.randint(1, 64) if rng.random() < 0.6 else rng.randint(1, 8)
        mode = rng.choices(["nondec", "inc", "bad", "const"], weights=[4, 3, 1, 1])[0]
        word = random_word(rng, n, (8, 1, 0.7, 0.3))
        times = gen_times(rng, n, "nondec" if mode in ("nondec", "const") else mode)
        cb = moderate_bits(rng)
        vals = [cb if mode == "const" else moderate_bits(rng) for _ in range(n)]
        u = (rng.randint(-3, 3), rng.randint(-3, 3))
        for (sf, sq) in ((3, 4), (5, 6)):
            par = params_for(rng, sf)
            if sf == 5 and rng.random() < 0.05: par = [rng.choice([0, -1, -10**9])]
            it1, it2 = iter(vals), iter(vals)
            ef = events_from_word(rng, word, times, lambda: [next(it1)])
            eq = events_from_word(rng, word, times, lambda: [next(it2)] + list(u))
            b.add(sf, par, ef, "%s/%s" % (STREAMS[sf], mode)); b.add(sq, par, eq, "%s/%s" % (STREAMS[sq], mode))
    cases, tags, metas = b.build()
    impl, model = correspondence(chk, cases, tags, exe, drv, okb=okb,
        describe=lambda c, o: {"stream": STREAMS.get(c[3]), "param": c[4], "events": c[5:], "per_event(update,get,same)": o})
    _nv0 = len(chk.violations)
    # the f32 and Quantity variants produce the same numbers (numerically: +-0 identified)
    nv = 0
    for i in range(0, len(cases), 2):
        sf, sq = metas[i][0], metas[i + 1][0]
        a, q = split_outputs(sf, impl[i]), split_outputs(sq, impl[i + 1])
        for x, y in zip(a, q):
            if x == "PANIC" or y == "PANIC":
                if x != y:
                    chk.violation("%s and %s: one variant panics where the other does not" % (STREAMS[sf], STREAMS[sq]), {"case": cases[i], "quantity_case": cases[i + 1], "impl": impl[i], "impl_quantity": impl[i + 1]}, True)
                break
            nv += 1
            gx, gy = x[1], y[1]
            same = gx[0] == gy[0] and (gx[0] != "S" or (gx[1] == gy[1] and (gx[2][0] == gy[2][0] or ((gx[2][0] | gy[2][0]) & 0x7FFFFFFF) == 0 or (is_nan_bits(gx[2][0]) and is_nan_bits(gy[2][0]))))) and (gx[0] != "E" or gx == gy)
            if not same:
                chk.violation("%s and %s produce different numbers: %s vs %s" % (STREAMS[sf], STREAMS[sq], gx, gy), {"case": cases[i], "quantity_case": cases[i + 1], "impl": impl[i], "impl_quantity": impl[i + 1]}, True); break
        if len(chk.violations) > _nv0: break
    chk.cov["variant_outputs_compared"] = nv
    chk.assumptions.append("powf: oracle (implementation's own values); assumed of it in C12_ewma_first_sample_exact: pow(b, 0) = 1; measured on this run's table")
    chk.notes.append("float convexity 'up to rounding' is measured (tolerance 8*2^-21*max|v|), not proved; weights/no-panic are proved (integers), first-sample exactness is proved for binary32")
    return finish_std(chk, proof, PID,
        "event words of 1..64 over {present (non-decreasing, often repeated timestamps), absent, error} plus malformed (decreasing timestamps, window <= 0); windows 1 ns..1 h; smoothing in [0,1] incl. 0 and 1; each word drives the f32 and the Quantity variant of both filters; distinct = distinct (stream/mode, model trace)")
