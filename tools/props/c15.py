"""C15 — Settable bookkeeping, following and history adapters map values and time exactly."""
import random
from common import *

PID = "C15"


def hist(t):
    """the harness's test history: absent at multiples of 5, else value t stamped t/2 (a stamp different from the
    requested time, so that restamping is observable)"""
    if t % 5 == 0: return None
    return (abs(t) // 2 * (1 if t >= 0 else -1), t)


def gen_case(rng, cfg, n):
    ops, desc = [], []
    clock = 0
    for _ in range(n):
        r = rng.random()
        if r < 0.16:
            ops += [1, rng.randint(-10**6, 10**6)]
        elif r < 0.22: ops += [2]
        elif r < 0.26: ops += [3]
        elif r < 0.40: ops += [4]
        elif r < 0.52:
            k = rng.random()
            g = oNone() if k < 0.2 else (oErr(rng.choice([1, 2])) if k < 0.35 else oSome(rng.randint(-10**12, 10**12), [rng.randint(-10**6, 10**6)]))
            ops += [5] + g
        elif r < 0.62:
            k = rng.random()
            if k < 0.1: ops += [6] + tErr(rng.choice([1, 2]))
            else:
                clock = rng.choice([clock + rng.randint(0, 10**10), rng.randint(-2**62, 2**62), rng.randint(-1000, 1000)])
                ops += [6] + tOk(clock)
        elif r < 0.70:
            v = rng.randrange(4)
            ops += [7, v, rng.choice([0, rng.randint(-10**12, 10**12), rng.randint(-2**62, 2**62)])]
        elif r < 0.74: ops += [8, rng.randint(-10**12, 10**12)]
        elif r < 0.79: ops += [9, rng.randint(-10**12, 10**12)]
        elif r < 0.90: ops += [10]
        elif r < 0.91: ops += [11]
        elif r < 0.94: ops += [12]
        elif r < 0.955: ops += [13, rng.randint(-10**6, 10**6)]
        elif r < 0.965: ops += [14]
        elif r < 0.97: ops += [15]
        elif r < 0.98: ops += [16]
        elif r < 0.99: ops += [17]
        else: ops += [18, rng.choice([0, 0, 1, 2])]
    return [5, cfg["chk"], cfg["std"], n] + ops


def okb(case, io, mo):
    """reference bookkeeping in Python on the implementation's output"""
    if io and io[0] in ("crash", "garbled"): return False, "implementation crashed"
    n = case[3]; pos = 4; op = 0
    last = None; received = []; following = False; fail = None
    g = ("N",); clock = ("T", 0); delta = None
    cgv, cgl, cgf = 0, None, False
    out = list(io); oi = 0
    def take(k):
        nonlocal oi
        r = out[oi:oi + k]; oi += k; return r
    def upd_of(r): return ("ok",) if r[0] == 0 else ("err", r[1])
    for _ in range(n):
        if oi < len(out) and out[oi] == 99: return True, ""
        o = case[pos]; pos += 1
        if o in (1, 4):
            if o == 1:
                v = case[pos]; pos += 1
                attempt = v
            else:
                attempt = None
                exp_u = ("ok",)
                if following:
                    if g[0] == "E": exp_u = ("err", g[1])
                    elif g[0] == "S": attempt = g[2][0]
            if attempt is not None:
                if fail is None:
                    received.append(attempt); last = attempt; exp_u = ("ok",)
                else: exp_u = ("err", fail)
            elif o == 1: exp_u = ("ok",)
            u = take(1) if out[oi] == 0 else take(2)
            if upd_of(u) != exp_u: return False, "op %d (%s): result %s, expected %s" % (op, "set" if o == 1 else "update", upd_of(u), exp_u)
            lr = take(1) if out[oi] == 0 else take(2)
            got_last = None if lr[0] == 0 else lr[1]
            if got_last != last: return False, "op %d: last request %s, expected %s (argument of the most recent successful set)" % (op, got_last, last)
            cnt, lastrec = take(2)
            if cnt != len(received) or (received and lastrec != received[-1]):
                return False, "op %d: the inner settable received %d values (last %s), expected %d (last %s)" % (op, cnt, lastrec, len(received), received[-1] if received else None)
        elif o == 2: following = True; take(1)
        elif o == 3: following = False; take(1)
        elif o == 5:
            g, pos = dec_out_py(case, pos, 1); take(1)
        elif o == 6:
            clock = ("E", case[pos + 1]) if case[pos] == 1 else ("T", case[pos + 1]); pos += 2; take(1)
        elif o == 7:
            variant, a = case[pos], case[pos + 1]; pos += 2
            if variant == 0: delta = 0; exp = [0]
            elif variant == 3: delta = a; exp = [0]
            elif clock[0] == "E": delta = None; exp = [1, clock[1]]
            else:
                delta = -clock[1] if variant == 1 else a - clock[1]; exp = [0]
                if not (I64_MIN <= delta <= I64_MAX): return True, ""
            r = take(len(exp))
            if r != exp: return False, "op %d: constructor result %s, expected %s" % (op, r, exp)
        elif o == 8:
            d = case[pos]; pos += 1
            if delta is not None: delta = d
            take(1)
        elif o == 9:
            t = case[pos]; pos += 1
            if delta is None: take(1)
            elif clock[0] == "E":
                r = take(2)
                if r != [1, clock[1]]: return False, "op %d: set_time with an erroring clock returned %s" % (op, r)
            else:
                delta = t - clock[1]
                if not (I64_MIN <= delta <= I64_MAX): return True, ""
                r = take(1)
                if r != [0]: return False, "op %d: set_time failed" % op
        elif o == 10:
            if delta is None: take(1)
            elif clock[0] == "E":
                r = take(2)
                if r != [1, clock[1]]: return False, "op %d: get with an erroring clock returned %s" % (op, r)
            else:
                q = clock[1] + delta
                if not (I64_MIN <= q <= I64_MAX): return True, ""
                hv = hist(q)
                exp = [0] if hv is None else [2, clock[1], hv[1]]
                r = take(len(exp))
                if r != exp: return False, "op %d: history getter at clock %d with offset %d returned %s, expected the history's value at %d restamped with now: %s" % (op, clock[1], delta, r, q, exp)
        elif o == 11: take(1)
        elif o == 12:
            exp = [1, clock[1]] if clock[0] == "E" else [2, clock[1], cgv]
            exp += [0] if cgl is None else [1, cgl]
            r = take(len(exp))
            if r != exp: return False, "op %d: constant getter returned %s, expected %s" % (op, r, exp)
        elif o == 13:
            cgv = cgl = case[pos]; pos += 1; take(1)
        elif o == 14: cgf = True; take(1)
        elif o == 15: cgf = False; take(1)
        elif o == 16:
            exp = [0]
            if cgf:
                if g[0] == "E": exp = [1, g[1]]
                elif g[0] == "S": cgv = cgl = g[2][0]
            r = take(len(exp))
            if r != exp: return False, "op %d: constant getter update returned %s, expected %s" % (op, r, exp)
        elif o == 17:
            exp = [1, g[1]] if g[0] == "E" else ([1, -1] if g[0] == "N" else [3, g[1]])
            r = take(2)
            if r != exp: return False, "op %d: TimeGetterFromGetter returned %s, expected %s" % (op, r, exp)
        elif o == 18:
            e = case[pos]; pos += 1; fail = None if e == 0 else e; take(1)
        op += 1
    return True, ""


def run(chk, replay=None):
    proof = proof_check_streams(PID, "C15Streams", extra=("CtorStreams",))
    drv = build_driver(); exe = build_harness("default"); cfg = harness_config(exe)
    if replay:
        r = json.load(open(replay)); c = r["case"]
        io, mo = run_sharded(exe, [c])[0], run_sharded(drv, [c])[0]
        print("impl :", io, "\nmodel:", mo, "\noracle:", okb(c, io, mo)); return 0 if io == mo and okb(c, io, mo)[0] else 1
    rng = random.Random(chk.seed)
    big = chk.tier != "quick"
    cases = [gen_case(rng, cfg, rng.randint(1, 40)) for _ in range(5000 if not big else 200000)]
    tags = ["ops<=10" if c[3] <= 10 else "ops<=40" for c in cases]
    correspondence(chk, cases, tags, exe, drv, okb=okb, describe=lambda c, o: {"ops": c[4:], "outputs": o})
    chk.notes.append("the history used is one whose data are stamped differently from the requested time (stamp t/2, absent at multiples of 5), so restamping with `now` is observable; MotionProfile as a history is exercised in C06")
    if not proof["ok"] and not chk.violations:
        chk.violation("proof obligations of C15 no longer check: " + "; ".join(proof["problems"])[:1500], {"theorem_file": "coq/theories/Properties/C15.v", "problems": proof["problems"]}, False)
    return chk.finish(proof,
        rule="random operation sequences of 1..40 over {set, follow, stop_following, update, change followed getter output (present/absent/error), clock change (incl. errors, i64-wide values), 4 constructors, set_delta, set_time, get, ConstantGetter ops, TimeGetterFromGetter, set failure mode of the inner settable}; distinct = distinct model traces",
        checker_cmd="make -C coq ; coqc Properties/C15.v", trusted=std_trusted())
