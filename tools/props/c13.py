"""C13 — one-degree-of-freedom devices relay the newest command to every terminal, scaled."""
import itertools, random
from common import *
from world_gen import *

PID = "C13"


def fmul_bits(a, b):
    fa, fb = b2frac(a), b2frac(b)
    if fa is None or fb is None: return None
    if fa == 0 or fb == 0: return ((a ^ b) & 0x80000000)
    return frac_to_f32_bits(fa * fb)

def fdiv_bits(a, b):
    fa, fb = b2frac(a), b2frac(b)
    if fa is None or fb is None or fb == 0: return None
    if fa == 0: return ((a ^ b) & 0x80000000)
    return frac_to_f32_bits(fa / fb)


def map_cmd(kind, enc, src_side, dst_side, c):
    """command (time,(kind,bits)) issued at src_side as seen at dst_side of the device"""
    if c is None or src_side == dst_side: return c
    t, (k, b) = c
    if kind == 1: return (t, (k, b ^ 0x80000000))
    if kind == 3: return c
    r = enc[1]
    nb = fmul_bits(b, r) if (src_side, dst_side) == (0, 1) else fdiv_bits(b, r)
    return None if nb is None else (t, (k, nb))


def okb(case, io, mo):
    if io and io[0] in ("crash", "garbled"): return False, "implementation crashed"
    ops, res, devs, nt = parse_outputs(case, io)
    if "PANIC" in res: return True, ""
    for k in range(1, min(len(ops), len(res)) - 1):
        if ops[k][0] != 5 or res[k - 1] is None or res[k - 1][0] != "readall" or res[k + 1] is None or res[k + 1][0] != "readall":
            continue
        before, after = res[k - 1][1], res[k + 1][1]
        enc, base, n = devs[ops[k][1]]
        kind = enc[0]
        ids = list(range(base, base + n))
        if kind == 4:
            for i in range(nt):
                if before[i]["cmd"] != after[i]["cmd"] or before[i]["own_cmd"] != after[i]["own_cmd"]:
                    return False, "a differential altered the command of terminal %d" % i
            continue
        if kind not in (1, 2, 3): continue
        reads = [before[i]["cmd"] for i in ids]
        pres = [(j, r) for j, r in enumerate(reads) if r is not None]
        if not pres:
            continue
        tmax = max(r[0] for _, r in pres)
        newest = [(j, r) for j, r in pres if r[0] == tmax]
        if len(newest) != 1:
            continue        # tied timestamps: outside the property's quantifier (the correspondence still compares them)
        j, c = newest[0]
        for side, i in enumerate(ids):
            want = map_cmd(kind, enc, j, side, c)
            if want is None: continue
            got = after[i]["cmd"]
            if got is None or got[0] != want[0] or got[1][0] != want[1][0]:
                return False, "after the update terminal %d reads %s, expected the newest command %s (issued at side %d) with its time and kind" % (i, got, want, j)
            if got[1][1] != want[1][1] and not (is_nan_bits(got[1][1]) and is_nan_bits(want[1][1])):
                return False, "after the update terminal %d reads value %08x, expected %08x (newest command mapped from side %d to side %d)" % (i, got[1][1], want[1][1], j, side)
    return True, ""


def chain_okb(case, io, meta):
    """far end of a chain reads the original command scaled by the devices' maps, same time and kind"""
    kinds, encs, cmd = meta
    ops, res, devs, nt = parse_outputs(case, io)
    if "PANIC" in res or not res or res[-1] is None or res[-1][0] != "read": return True, ""
    t, (k, b) = cmd
    for kd, enc in zip(kinds, encs):
        if kd == 1: b = b ^ 0x80000000
        elif kd == 2:
            b = fmul_bits(b, enc[1])
            if b is None: return True, ""
    got = res[-1][1]["cmd"]
    if got is None or got[0] != t or got[1][0] != k: return False, "the command did not reach the far end of the chain with its time and kind: %s" % (got,)
    if got[1][1] != b and not (is_nan_bits(got[1][1]) and is_nan_bits(b)): return False, "far end reads %08x, expected %08x (scaled through %d devices)" % (got[1][1], b, len(kinds))
    return True, ""


def run(chk, replay=None):
    proof = proof_check_streams(PID, "C08Devices")
    drv = build_driver(); exe = build_harness("devices"); cfg = harness_config(exe)
    if replay:
        r = json.load(open(replay)); c = r["case"]
        io, mo = run_sharded(exe, [c])[0], run_sharded(drv, [c])[0]
        print("impl :", io[:80], "\nmodel:", mo[:80], "\noracle:", okb(c, io, mo)); return 0 if io == mo and okb(c, io, mo)[0] else 1
    rng = random.Random(chk.seed)
    big = chk.tier != "quick"
    cases, tags, metas = [], [], []
    reps = 2 if not big else 40
    for kind, kw in [(1, {}), (2, {}), (2, {}), (3, {"n": 1}), (3, {"n": 2}), (3, {"n": 3}), (3, {"n": 5}), (4, {"distrust": 3}), (4, {"distrust": 0})]:
        for _ in range(reps):
            enc, n = dev_spec(rng, kind, **kw)
            # external terminal per device terminal, all connected; command sources: external or own, per terminal: none / rank
            m = min(n, 3)
            for ranks in itertools.product([None, 0, 1, 2], repeat=m):
                for where in (0, 1):
                    t0 = rng.choice([0, -10**9, 10**12, rng.randint(-10**10, 10**10), I64_MIN, I64_MIN, I64_MAX - 4 * 10**6])
                    ops = [[1, i, n + i] for i in range(n)]
                    for i, rk in enumerate(ranks):
                        if rk is not None:
                            ops.append([4, (i if where == 0 else n + i), t0 + rk * rng.choice([1, 1000]), rng.randrange(3), rand_f32_bits(rng)])
                    if rng.random() < 0.3: ops.append([3, rng.randrange(2 * n), t0] + rstate(rng))
                    ops += [[7], [5, 0], [7]]
                    for _ in range(rng.randint(0, 3)):          # further rounds with newer commands
                        t0 += rng.randint(3, 10**6)
                        ops.append([4, rng.randrange(2 * n), t0, rng.randrange(3), rand_f32_bits(rng)])
                        ops += [[7], [5, 0], [7]]
                    cases.append(world_case(cfg, n, [enc], ops)); tags.append({1: "invert", 2: "gear", 3: "axle", 4: "differential"}[kind]); metas.append(None)
    # re-issued commands: the same kind and value again with a newer time stamp (and, for contrast, a changed value with the same
    # time stamp) on a later round, at either side, for several rounds: the newer stamp must reach every terminal
    for kind, kw in [(1, {}), (2, {}), (2, {"ratio": f2b(1.0)}), (2, {"ratio": f2b(-2.0)}), (3, {"n": 2}), (3, {"n": 4})]:
        for _ in range(12 if not big else 300):
            enc, n = dev_spec(rng, kind, **kw)
            ops = [[1, i, n + i] for i in range(n)] if rng.random() < 0.5 else []
            nt = 2 * n
            t0 = rng.choice([0, -10**9, 10**12, I64_MIN - 1, I64_MAX - 6 * 10**6])
            k0, v0 = rng.randrange(3), rng.choice([f2b(1.0), f2b(-3.5), f2b(0.0), rand_f32_bits(rng)])
            src = rng.randrange(nt if ops else n)
            for rnd in range(rng.randint(2, 5)):
                t0 += rng.choice([1, 7, 10**6])
                same = rng.random() < 0.7
                ops.append([4, src if rng.random() < 0.8 else rng.randrange(nt if ops else n), t0, k0, v0 if same else rand_f32_bits(rng)])
                ops += [[7], [5, 0], [7]]
            cases.append(world_case(cfg, n, [enc], ops)); tags.append("reissue/" + {1: "invert", 2: "gear", 3: "axle"}[kind]); metas.append(None)
    # chains of 1..5 devices joined by connected terminals, updated in order
    for _ in range(400 if not big else 20000):
        k = rng.randint(1, 5)
        kinds = [rng.choice([1, 2, 3]) for _ in range(k)]
        encs, bases = [], []
        nt = 1      # one external terminal (id 0) that issues the command
        for kd in kinds:
            enc, n = dev_spec(rng, kd, **({"n": 2} if kd == 3 else {}))
            encs.append(enc); bases.append(nt); nt += n
        ops = [[1, 0, bases[0]]]
        for a in range(k - 1):
            ops.append([1, bases[a] + 1, bases[a + 1]])
        cmd = (rng.choice([rng.randint(-10**9, 10**12), rng.randint(-10**9, 10**12), I64_MIN, I64_MIN + 1, I64_MAX]), (rng.randrange(3), rand_f32_bits(rng)))
        ops.append([4, 0, cmd[0], cmd[1][0], cmd[1][1]])
        ops += [[5, a] for a in range(k)]
        ops.append([6, bases[-1] + 1])
        cases.append(world_case(cfg, 1, encs, ops)); tags.append("chain/%d" % k); metas.append((kinds, encs, cmd))
    def full_okb(c, io, mo):
        return okb(c, io, mo)
    impl, model = correspondence(chk, cases, tags, exe, drv, okb=full_okb, describe=lambda c, o: {"devices": parse_ops(c)[1], "ops": parse_ops(c)[2][:14], "output_head": o[:40]})
    n_chain = 0
    for c, o, m in zip(cases, impl, metas):
        if m is None: continue
        n_chain += 1
        ok, why = chain_okb(c, o, m)
        if not ok:
            chk.violation(why, {"case": c, "impl": o}, True); break
    chk.cov["chains_checked"] = n_chain
    chk.cov["exhaustive_part"] = "per device: every assignment of {no command, timestamp rank 0,1,2} (distinct and tied) to up to three terminals, issued at the device terminal or at the connected external terminal"
    chk.notes.append("proved: inverter and gear-train relay (which slot is written with which mapped command, frame), differential frame, read rules; the axle relay for arbitrary N and the chain theorem are tied by correspondence and checked bit-exactly by the oracle (not proved: partial)")
    if not proof["ok"] and not chk.violations:
        chk.violation("proof obligations of C13 no longer check: " + "; ".join(proof["problems"])[:1500], {"theorem_file": "coq/theories/Properties/C13.v", "problems": proof["problems"]}, False)
    return chk.finish(proof,
        rule="one device with an external terminal connected to each of its terminals, commands issued on either side with distinct/tied timestamps (including i64::MIN and values next to i64::MAX), rounds of {new command, read all, update, read all}; chains of 1..5 devices of mixed type (inverter, gear train, axle) updated in order; distinct = distinct (family, model output)",
        checker_cmd="make -C coq ; coqc Properties/C13.v", trusted=std_trusted())
