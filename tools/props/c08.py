"""C08 — device update projects measured states onto the mechanical constraint."""
import itertools, random
from common import *
from world_gen import *

PID = "C08"
E2 = Fraction(1, 2**22)


def sfr(s): return [b2frac(x) for x in s]


def okb(case, io, mo):
    if io and io[0] in ("crash", "garbled"): return False, "implementation crashed"
    ops, res, devs, nt = parse_outputs(case, io)
    if "PANIC" in res: return True, ""
    for k in range(1, min(len(ops), len(res)) - 1):
        if ops[k][0] != 5 or res[k - 1] is None or res[k - 1][0] != "readall" or res[k + 1] is None or res[k + 1][0] != "readall":
            continue
        before, after = res[k - 1][1], res[k + 1][1]
        enc, base, n = devs[ops[k][1]]
        kind = enc[0]
        ids = list(range(base, base + n))
        # frame: terminals not owned by the device keep their own slots
        for i in range(nt):
            if i not in ids and (before[i]["own_state"] != after[i]["own_state"] or before[i]["own_cmd"] != after[i]["own_cmd"]):
                return False, "update of device %d changed the own slots of terminal %d, which it does not own" % (ops[k][1], i)
        reads = [before[i]["state"] for i in ids]
        owns = [after[i]["own_state"] for i in ids]
        pres = [r for r in reads if r is not None]
        vals = [None if r is None else sfr(r[1]) for r in reads]
        if any(v is not None and None in v for v in vals): continue     # non-finite
        def close(got, want, scale):
            if any(g is None for g in got): return True      # overflow to inf/NaN: outside 'finite states of moderate magnitude'
            return all(abs(g - w) <= 8 * E2 * sc + Fraction(1, 2**120) for g, w, sc in zip(got, want, scale))
        if kind == 1 or kind in (2, 5):
            r = Fraction(-1) if kind == 1 else None
            if kind == 2: r = b2frac(enc[1])
            if kind == 5:
                teeth = [b2frac(x) for x in enc[2:]]
                r = teeth[0] / teeth[-1] * (-1 if len(teeth) % 2 == 0 else 1)
            if r is None or r == 0: continue
            x, y = vals
            if x is None and y is None:
                if owns != [before[i]["own_state"] for i in ids]: return False, "device without information changed its terminals"
                continue
            tmax = max(p[0] for p in pres)
            if x is not None and y is not None:
                d = [(a + r * b) / (r * r + 1) for a, b in zip(x, y)]
                want1, want2 = d, [r * v for v in d]
            elif x is not None:
                want1, want2 = None, [r * v for v in x]
            else:
                want1, want2 = [v / r for v in y], None
            sc = [max(abs(a or 0), abs(b or 0)) * (1 + abs(r)) + Fraction(1, 10**6) for a, b in zip(x or [0, 0, 0], y or [0, 0, 0])]
            sc = [s * max(1, abs(1 / r)) for s in sc]
            if want1 is not None:
                if owns[0] is None or owns[0][0] != tmax: return False, "side 1 not stamped with the newest contributing time"
                if not close(sfr(owns[0][1]), want1, sc): return False, "side 1 state %s is not the projection %s" % ([float(v) for v in sfr(owns[0][1])], [float(v) for v in want1])
            elif owns[0] != before[ids[0]]["own_state"]: return False, "side 1 has data yet was overwritten"
            if want2 is not None:
                if owns[1] is None or owns[1][0] != tmax: return False, "side 2 not stamped with the newest contributing time"
                if not close(sfr(owns[1][1]), want2, sc): return False, "side 2 state %s is not the projection %s" % ([float(v) for v in sfr(owns[1][1])], [float(v) for v in want2])
            elif owns[1] != before[ids[1]]["own_state"]: return False, "side 2 has data yet was overwritten"
            if kind == 1 and x is not None and y is not None:
                if any((a ^ 0x80000000) != b and not ((a | b) & 0x7FFFFFFF) == 0 for a, b in zip(owns[0][1], owns[1][1])):
                    return False, "inverter: side2 is not exactly -side1"
        elif kind == 3:
            if n == 0 or not pres:
                continue
            mean = [sum(v[c] for v in vals if v is not None) / len(pres) for c in range(3)]
            sc = [max(abs(v[c]) for v in vals if v is not None) + Fraction(1, 10**6) for c in range(3)]
            tmax = max(p[0] for p in pres)
            if any(o != owns[0] for o in owns): return False, "axle: own slots are not all identical"
            if owns[0] is None or owns[0][0] != tmax: return False, "axle: state not stamped with the newest contributing time (%s vs %s)" % (owns[0][0] if owns[0] else None, tmax)
            if not close(sfr(owns[0][1]), mean, sc): return False, "axle: state is not the mean of the reads"
        elif kind == 4:
            dt = enc[1]
            s1, s2, sm = vals
            need = {0: (sm, s2), 1: (sm, s1), 2: (s1, s2), 3: (sm, s1, s2)}[dt]
            if any(v is None for v in need):
                if owns != [before[i]["own_state"] for i in ids]: return False, "differential acted although a branch it reads has no data"
                continue
            sc = [sum(abs(v[c]) for v in need) + Fraction(1, 10**6) for c in range(3)]
            if dt == 0: want = {0: [a - b for a, b in zip(sm, s2)]}
            elif dt == 1: want = {1: [a - b for a, b in zip(sm, s1)]}
            elif dt == 2: want = {2: [a + b for a, b in zip(s1, s2)]}
            else:
                want = {2: [(a + b + 2 * c) / 3 for a, b, c in zip(s1, s2, sm)],
                        0: [(2 * a - b + c) / 3 for a, b, c in zip(s1, s2, sm)],
                        1: [(-a + 2 * b + c) / 3 for a, b, c in zip(s1, s2, sm)]}
            for j in range(3):
                if j in want:
                    if owns[j] is None or not close(sfr(owns[j][1]), want[j], sc):
                        return False, "differential (trust mode %d): branch %d is %s, expected %s" % (dt, j, owns[j], [float(v) for v in want[j]])
                elif owns[j] != before[ids[j]]["own_state"]:
                    return False, "differential changed a trusted branch"
    return True, ""


def gen(rng, cfg, big):
    cases, tags = [], []
    specs = [(1, {}), (2, {}), (2, {}), (5, {}), (3, {"n": 0}), (3, {"n": 1}), (3, {"n": 2}), (3, {"n": 3}), (3, {"n": 4}), (3, {"n": 6}),
             (4, {"distrust": 0}), (4, {"distrust": 1}), (4, {"distrust": 2}), (4, {"distrust": 3})]
    reps = 6 if not big else 120
    for kind, kw in specs:
        for _ in range(reps):
            enc, n = dev_spec(rng, kind, **kw)
            ext = n          # one external terminal per device terminal: ids 0..n-1; device terminals n..2n-1
            for connected in (itertools.product([0, 1], repeat=n) if n <= 4 else [tuple(rng.randint(0, 1) for _ in range(n)) for _ in range(8)]):
                for hasdata in (itertools.product([0, 1], repeat=n) if n <= 3 else [tuple(rng.randint(0, 1) for _ in range(n)) for _ in range(6)]):
                    ops = [[1, i, ext + i] for i in range(n) if connected[i]]
                    t = rng.choice([0, -10**9, 10**12, rng.randint(-10**10, 10**10), I64_MIN + 3, I64_MIN + 3])
                    for i in range(n):
                        if hasdata[i]:
                            ops.append([3, i, t + rng.randint(-3, 3)] + rstate(rng))
                    ops += [[7], [5, 0], [7]]
                    for _ in range(rng.randint(0, 3)):        # further rounds
                        t += rng.randint(1, 10**9)
                        if n: ops.append([3, rng.randrange(2 * n), t] + rstate(rng))
                        ops += [[7], [5, 0], [7]]
                    cases.append(world_case(cfg, ext, [enc], ops)); tags.append({1: "invert", 2: "gear", 5: "gear-teeth", 3: "axle", 4: "differential"}[kind])
    # states already on the constraint are left unchanged (fixed points), gear ratio +-1 and powers of two
    for _ in range(200 if not big else 5000):
        s = rstate(rng); t = rng.randint(0, 10**9)
        neg = [x ^ 0x80000000 for x in s]
        cases.append(world_case(cfg, 0, [[1]], [[3, 0, t] + s, [3, 1, t] + neg, [7], [5, 0], [7]])); tags.append("invert-fixed")
        cases.append(world_case(cfg, 0, [[3, 3]], [[3, 0, t] + s, [3, 1, t] + s, [3, 2, t - 1] + s, [7], [5, 0], [7]])); tags.append("axle-fixed")
    # tooth lists incl. too short ones (constructor panics)
    for n in range(0, 7):
        for _ in range(3):
            teeth = [f2b(float(rng.randint(5, 80))) for _ in range(n)]
            cases.append(world_case(cfg, 0, [[5, n] + teeth], [[3, 0, 5] + rstate(rng), [7], [5, 0], [7]])); tags.append("teeth/%d" % n)
    return cases, tags


def ctor_variants(rng, cfg, cases, tags, n):
    """the other constructors: GearTrain::with_ratio(Quantity) (must behave as with_ratio_raw for a dimensionless ratio and
    panic for any other unit when checking is on) and Differential::new() (= with_distrust(Equal)).
    Returns (variant case, reference case or None) pairs; the implementation must give equal outputs on each pair."""
    pairs = []
    idx = [i for i, t in enumerate(tags) if t in ("gear", "differential")]
    rng.shuffle(idx)
    for i in idx:
        if len(pairs) >= n: break
        c = cases[i]
        nfree, devs, ops, nt = parse_ops(c)
        enc = devs[0][0]
        if enc[0] == 2:
            new = [9, enc[1], 0, 0]
        elif enc[0] == 4 and enc[1] == 3:
            new = [10]
        else:
            continue
        flat = [x for o in ops for x in o]
        pairs.append((c[:5] + new + [len(ops)] + flat, c))
    for _ in range(max(4, n // 10)):
        u = (rng.randint(-2, 2), rng.randint(-2, 2))
        if u == (0, 0): u = (1, 0)
        pairs.append((world_case(cfg, 0, [[9, f2b(2.0), u[0], u[1]]], [[3, 0, 5] + rstate(rng), [7], [5, 0], [7]]), None))
    return pairs


def run(chk, replay=None):
    proof = proof_check_streams(PID, "C08Devices", extra=("C08Gear",))
    drv = build_driver(); exe = build_harness("devices"); cfg = harness_config(exe)
    if replay:
        r = json.load(open(replay)); c = r["case"]
        io, mo = run_sharded(exe, [c])[0], run_sharded(drv, [c])[0]
        print("impl :", io[:80], "\nmodel:", mo[:80], "\noracle:", okb(c, io, mo)); return 0 if io == mo and okb(c, io, mo)[0] else 1
    rng = random.Random(chk.seed)
    big = chk.tier != "quick"
    cases, tags = gen(rng, cfg, big)
    correspondence(chk, cases, tags, exe, drv, okb=okb, describe=lambda c, o: {"devices": parse_ops(c)[1], "ops": parse_ops(c)[2][:12], "output_head": o[:40]})
    pairs = ctor_variants(rng, cfg, cases, tags, 150 if not big else 3000)
    vimpl, _ = correspondence(chk, [p[0] for p in pairs], ["ctor:" + ("gear-with-ratio" if p[0][5] == 9 else "differential-new") for p in pairs], exe, drv)
    ref = run_sharded(exe, [p[1] for p in pairs if p[1] is not None])
    k = 0
    for (v, r), vo in zip(pairs, vimpl):
        if r is None:
            if cfg["chk"] and vo != [99]:
                chk.violation("GearTrain::with_ratio accepted a ratio that is not dimensionless although checking is on", {"case": v, "impl": vo}, True)
            continue
        if vo != ref[k]:
            chk.violation("a device built by %s behaves differently from the same device built by the other constructor" % ("GearTrain::with_ratio" if v[5] == 9 else "Differential::new"),
                          {"case": v, "reference_case": r, "impl": vo, "impl_reference": ref[k]}, True)
        k += 1
    chk.cov["constructor_variant_pairs"] = len(pairs)
    chk.cov["exhaustive_part"] = "per device: every subset of its terminals connected to an external terminal x every subset of external terminals holding data (devices with <= 3/4 terminals; sampled above), four differential trust modes, axle sizes 0..6, tooth lists of length 0..6"
    chk.notes.append("projection / constraint within rounding: measured with tolerance 8*2^-22*scale in exact rationals against the reads taken just before the update; exact facts (inverter negation, axle equality, time stamps, frame) are checked exactly")
    if not proof["ok"] and not chk.violations:
        chk.violation("proof obligations of C08 no longer check: " + "; ".join(proof["problems"])[:1500], {"theorem_file": "coq/theories/Properties/C08.v", "problems": proof["problems"]}, False)
    return chk.finish(proof,
        rule="one device plus one external terminal per device terminal; rounds of {set state on a terminal, read all, update, read all}; ratios +-[1e-2,1e2]; state triples of moderate magnitude; distinct = distinct (device family, model output)",
        checker_cmd="make -C coq ; coqc Properties/C08.v", trusted=std_trusted())
