"""C20 — device wrappers relay data between getters/settables and terminals unaltered."""
import random
from common import *
from world_gen import *
from streams_gen import split_outputs

PID = "C20"


def okb(case, io, mo):
    if io and io[0] in ("crash", "garbled"): return False, "implementation crashed"
    ops, res, devs, nt = parse_outputs(case, io)
    if "PANIC" in res: return True, ""
    enc, base, n = devs[0]
    kind = enc[0]
    fail = None; iu, iout = ("ok",), ("N",)
    cnt = 0; last = None
    for k, (op, r) in enumerate(zip(ops, res)):
        if op[0] == 9: fail = None if op[2] == 0 else op[2]
        if op[0] == 8:
            iu = ("ok",) if op[2] == 0 else ("err", op[3])
            iout, _ = dec_out_py(op, 4, 3)
        if op[0] == 5 and k >= 1 and k + 1 < len(res) and res[k - 1] and res[k - 1][0] == "readall" and res[k + 1] and res[k + 1][0] == "readall":
            before, after = res[k - 1][1], res[k + 1][1]
            data = before[base]["data"]
            if kind == 6:
                if data is None: exp_u = ("upd", "ok")
                elif fail is None:
                    cnt += 1; last = data; exp_u = ("upd", "ok")
                else: exp_u = ("upd", "err", fail)
                if r != exp_u: return False, "actuator update returned %s, expected %s" % (r, exp_u)
                for i in range(nt):
                    if before[i]["own_state"] != after[i]["own_state"] or before[i]["own_cmd"] != after[i]["own_cmd"]:
                        return False, "actuator wrapper altered terminal %d" % i
            elif kind == 7:
                exp_own = before[base]["own_state"]
                if iu[0] == "err": exp_u = ("upd", "err", iu[1])
                elif iout[0] == "E": exp_u = ("upd", "err", iout[1])
                elif iout[0] == "N": exp_u = ("upd", "ok")
                else:
                    exp_u = ("upd", "ok"); exp_own = (iout[1], tuple(iout[2]))
                if r != exp_u: return False, "encoder update returned %s, expected %s" % (r, exp_u)
                if after[base]["own_state"] != exp_own:
                    return False, "encoder wrapper: terminal state %s, expected the inner getter's state unchanged %s" % (after[base]["own_state"], exp_own)
        if op[0] == 10 and r is not None and r[0] == "inner" and kind == 6:
            if r[1] != cnt or (cnt and r[2] != last):
                return False, "actuator: inner settable received %d values (last %s), expected %d (last %s): exactly the combined data the terminal saw" % (r[1], r[2], cnt, last)
    return True, ""


def standalone_case(cfg, case, io):
    """the equivalent stand-alone CommandPID run (kind 4, stream 2) for a PID-wrapper case; returns (case, expected last values)"""
    ops, res, devs, nt = parse_outputs(case, io)
    enc, base, n = devs[0]
    t0 = enc[1]; s0 = enc[2:5]; c0 = enc[5:7]; ks = enc[7:16]
    st, cm = list(s0), list(c0)
    evs = []; marks = []
    fail = None
    for k, (op, r) in enumerate(zip(ops, res)):
        if r == "PANIC": break
        if op[0] == 9: fail = None if op[2] == 0 else op[2]
        if op[0] == 5 and k >= 1 and res[k - 1] and res[k - 1][0] == "readall":
            data = res[k - 1][1][base]["data"]
            if data is not None:
                t, c, s = data
                if s is not None: st = list(s)
                if c is not None: cm = list(c)
                evs.append([0] + oSome(t, cm) + oSome(t, st))
            marks.append((k, len(evs), fail))
    c2 = [4, cfg["chk"], cfg["std"], 2] + c0 + ks + [len(evs)]
    for e in evs: c2 += e
    return c2, marks


def run(chk, replay=None):
    proof = proof_check_streams(PID, "C20Devices", extra=("C20Wiring",))
    drv = build_driver(); exe = build_harness("devices"); cfg = harness_config(exe)
    if replay:
        r = json.load(open(replay)); c = r["case"]
        io, mo = run_sharded(exe, [c])[0], run_sharded(drv, [c])[0]
        print("impl :", io[:80], "\nmodel:", mo[:80], "\noracle:", okb(c, io, mo)); return 0 if io == mo and okb(c, io, mo)[0] else 1
    rng = random.Random(chk.seed)
    big = chk.tier != "quick"
    cases, tags = [], []
    for _ in range(1500 if not big else 60000):
        kind = rng.choice([6, 7, 8])
        enc, n = dev_spec(rng, kind, t0=rng.randint(-10**6, 10**6))
        # terminal ids: 0 = external, 1 = wrapper's terminal
        ops = []
        if rng.random() < 0.85: ops.append([1, 0, 1])
        t = rng.randint(0, 10**9)
        for _ in range(rng.randint(1, 32 if rng.random() < 0.3 else 8)):
            t += rng.choice([rng.randint(1, 10**9), rng.randint(1, 10**7)])
            r = rng.random()
            first_cmd = rng.random() < 0.3
            what = rng.choice(["s", "c", "sc", "", "cs"]) if not first_cmd else rng.choice(["c", "cs"])
            tgt = rng.choice([0, 0, 1])
            for ch in what:
                if ch == "s": ops.append([3, tgt, t + rng.randint(-2, 2)] + rstate(rng))
                else: ops.append([4, tgt, t + rng.randint(-2, 2), rng.randrange(3), rand_f32_bits(rng)])
            if kind == 7 and rng.random() < 0.7:
                io = rng.choices([oSome(t, rstate(rng)), oNone(), oErr(rng.choice([1, 2]))], weights=[6, 2, 1])[0]
                ops.append([8, 0, 0 if rng.random() < 0.9 else 1, 2] + io)
            if kind in (6, 8) and rng.random() < 0.15: ops.append([9, 0, rng.choice([0, 0, 1, 2])])
            ops += [[7], [5, 0], [7]]
            if kind in (6, 8): ops.append([10, 0])
        cases.append(world_case(cfg, 1, [enc], ops)); tags.append({6: "actuator", 7: "encoder", 8: "pid-wrapper"}[kind])
    impl, model = correspondence(chk, cases, tags, exe, drv, okb=okb, describe=lambda c, o: {"devices": parse_ops(c)[1], "ops": parse_ops(c)[2][:14], "output_head": o[:40]})
    # PID wrapper vs a stand-alone CommandPID fed the same sequence of times, states and commands seen at the terminal
    sa, ref = [], []
    for c, o, t in zip(cases, impl, tags):
        if t != "pid-wrapper": continue
        c2, marks = standalone_case(cfg, c, o)
        sa.append(c2); ref.append((c, o, marks))
    so = run_sharded(exe, sa)
    n_cmp = 0
    found = False
    for (c, o, marks), c2, o2 in zip(ref, sa, so):
        outs = split_outputs(2, o2)
        ops, res, devs, nt = parse_outputs(c, o)
        if "PANIC" in res or "PANIC" in outs: continue
        for (k, nev, fail) in marks:
            # after wrapper update k the inner motor was offered the stand-alone controller's current output
            if nev == 0 or k + 2 >= len(res) or res[k + 2] is None or res[k + 2][0] != "inner": continue
            if res[k][0:2] != ("upd", "ok"): continue
            g = outs[nev - 1][1]
            n_cmp += 1
            if g[0] == "S" and fail is None:
                if res[k + 2][2] != g[2][0] and not (is_nan_bits(res[k + 2][2] or 0) and is_nan_bits(g[2][0])):
                    chk.violation("PID wrapper drove its inner motor with %s, a stand-alone command PID fed the same data outputs %08x" % (res[k + 2][2], g[2][0]),
                                  {"case": c, "standalone_case": c2, "impl": o, "impl_standalone": o2}, True); found = True; break
        if found: break
    chk.cov["pid_wrapper_vs_standalone_compared"] = n_cmp
    if not proof["ok"] and not chk.violations:
        chk.violation("proof obligations of C20 no longer check: " + "; ".join(proof["problems"])[:1500], {"theorem_file": "coq/theories/Properties/C20.v", "problems": proof["problems"]}, False)
    return chk.finish(proof,
        rule="one wrapper whose terminal is (usually) connected to an external terminal; 1..32 rounds in which the terminals receive new state and/or command data (command-first included) or nothing, the inner getter is present/absent/erroring (update or get), the inner settable accepts/rejects; recording inner settables; distinct = distinct (wrapper, model output)",
        checker_cmd="make -C coq ; coqc Properties/C20.v", trusted=std_trusted())
