"""Shared pipeline for the motion-profile properties C06 and C07."""
import random
from fractions import Fraction
from common import *
from mp_gen import *


def build_cases(rng, cfg, exe, n_prof, n_random_times, extra_profiles=()):
    profs = list(extra_profiles) + [gen_profile(rng) for _ in range(n_prof)]
    c0 = [mp_case(cfg, s0, s1, vb, ab, []) for (s0, s1, vb, ab, k) in profs]
    i0 = run_sharded(exe, c0)
    cases, tags, metas = [], [], []
    for (s0, s1, vb, ab, k), o in zip(profs, i0):
        if o and o[0] == 0:
            ts = query_times(rng, o[1], o[2], o[3], n_random_times)
        else:
            ts = [0]
        ts = sorted(set(ts))
        cases.append(mp_case(cfg, s0, s1, vb, ab, ts)); tags.append(k); metas.append((s0, s1, vb, ab, k, ts))
    return cases, tags, metas


def case_times(case):
    n = case[15]
    return case[16:16 + n]


def case_inputs(case):
    return case[3:6], case[6:9], case[9], case[12]
