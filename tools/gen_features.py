#!/usr/bin/env python3
"""Translator: Cargo.toml [features] and the dimension-checking cfg expressions used in src/ -> GenFeatures.v"""
import os, re, sys

def main(repo, outdir):
    toml = open(os.path.join(repo, "Cargo.toml")).read()
    m = re.search(r"^\[features\]\s*\n(.*?)(?=^\[|\Z)", toml, re.S | re.M)
    feats = []
    for line in m.group(1).splitlines():
        mm = re.match(r"\s*([a-z_]+)\s*=\s*\[(.*)\]", line)
        if mm:
            deps = [d.strip().strip('"') for d in mm.group(2).split(",") if d.strip()]
            feats.append((mm.group(1), deps))
    exprs = set()
    for root, _, files in os.walk(os.path.join(repo, "src")):
        for f in files:
            if not f.endswith(".rs"): continue
            src = open(os.path.join(root, f)).read()
            for e in re.findall(r"cfg(?:_attr)?\(\s*((?:not\()?\s*any\(\s*feature\s*=\s*\"dim_check_release\".*?\)\s*\)(?:\s*\))?)", src, re.S):
                e = re.sub(r"\s+", "", e)
                e = re.sub(r",+\)", ")", e)
                # cfg_attr(any(...), derive(...)) : keep the predicate only
                exprs.add(e)
    norm = set()
    for e in exprs:
        e2 = e
        # strip a trailing unmatched ')' or attribute remainder
        depth = 0; out = ""
        for ch in e2:
            if ch == "(": depth += 1
            if ch == ")":
                if depth == 0: break
                depth -= 1
            out += ch
        norm.add(out)
    os.makedirs(outdir, exist_ok=True)
    with open(os.path.join(outdir, "GenFeatures.v"), "w") as f:
        f.write("(* GENERATED from Cargo.toml and src/ by tools/gen_features.py *)\nFrom Coq Require Import List String Bool.\nImport ListNotations.\nLocal Open Scope string_scope.\n")
        f.write("Definition features : list (string * list string) := [\n")
        f.write(";\n".join('  ("%s", [%s])' % (n, "; ".join('"%s"' % d for d in deps)) for n, deps in feats))
        f.write("\n].\nDefinition dim_check_cfgs : list string := [\n")
        f.write(";\n".join('  "%s"' % e.replace('"', "'") for e in sorted(norm)))
        f.write("\n].\n")
    return feats, sorted(norm)

if __name__ == "__main__":
    f, e = main(sys.argv[1], sys.argv[2])
    for x in f: print(x)
    for x in e: print(x)
