#!/usr/bin/env python3
"""Assemble /verif/seeded/<id>/ from the sub-agents' output, my independent verification and the detection sweep."""
import json, os, shutil, sys
OUT, VER, DET, DST = "/tmp/mut/out", "/tmp/mut/verify", "/tmp/mut/detect", "/verif/seeded"
rows = []
for p in range(1, 21):
    pid = "C%02d" % p
    for m in ("m1", "m2", "m3"):
        src = os.path.join(OUT, pid, m)
        if not os.path.isdir(src): continue
        sid = "%s_%s" % (pid, m)
        d = os.path.join(DST, sid); os.makedirs(d, exist_ok=True)
        shutil.copy(os.path.join(src, "patch.diff"), os.path.join(d, "patch.diff"))
        for f in os.listdir(src):
            if f.startswith("demo"):
                shutil.copy(os.path.join(src, f), os.path.join(d, f))
        am = json.load(open(os.path.join(src, "meta.json")))
        ver = json.load(open(os.path.join(VER, sid + ".json")))
        det = open(os.path.join(DET, sid + ".txt")).read().strip().splitlines()
        meta = {
            "id": sid, "property": pid,
            "what_changed": am.get("summary"),
            "needs_to_manifest": am.get("needs_to_manifest"),
            "demonstration": {"file": [f for f in os.listdir(d) if f.startswith("demo")],
                              "place_in_repo_as": am.get("demo_path_in_repo"), "features": am.get("demo_features", ""),
                              "command": ver.get("demo_cmd")},
            "author": "sub-agent given only the property text and a scratch git worktree of /repo",
            "what_the_author_ran": am.get("commands_run"),
            "confirmed_here": {
                "how": "fresh scratch worktree of /repo at HEAD (outside /repo and /verif, removed afterwards): git apply; cargo test --workspace --no-fail-fast --offline; cargo test --offline --features devices; demonstration with and without the change",
                "applies_to_current_tree": bool(ver["applies"]),
                "baseline_suite_passes_with_change": bool(ver["baseline_passes_with_change"]),
                "devices_suite_passes_with_change": bool(ver["devices_tests_pass_with_change"]),
                "demonstration_fails_with_change": bool(ver["demo_fails_with_change"]),
                "demonstration_passes_without_change": not bool(ver["demo_fails_without_change"]),
            },
            "detection": {"command": "git -C /repo apply seeded/%s/patch.diff; bin/check %s --tier quick; git -C /repo checkout -- ." % (sid, pid),
                          "output_head": det,
                          "detected": any(l.startswith("VIOLATION") for l in det),
                          "concrete_failing_input": any(l.startswith("VIOLATION") and "no-failing-input-found" not in l for l in det)},
        }
        json.dump(meta, open(os.path.join(d, "meta.json"), "w"), indent=1)
        rows.append((sid, (am.get("summary") or "")[:150].replace("\n", " ").replace("|", "/"), meta["detection"]["detected"], meta["detection"]["concrete_failing_input"],
                     (det[1].strip() if len(det) > 1 else "")[:170].replace("|", "/")))
with open(os.path.join(DST, "INDEX.md"), "w") as f:
    f.write("# Seeded changes\n\nEach directory: `patch.diff` (apply with `git -C /repo apply`, undo with `git -C /repo checkout -- .`), the demonstration test, `meta.json`.\n"
            "None of these is ever committed in /repo. Detection = quick check of the change's own property.\n\n| id | change | detected | concrete input | first line reported |\n|---|---|---|---|---|\n")
    for r in rows:
        f.write("| %s | %s | %s | %s | %s |\n" % (r[0], r[1], "yes" if r[2] else "NO", "yes" if r[3] else "no", r[4]))
print(len(rows), "seeded;", sum(1 for r in rows if r[2]), "detected;", sum(1 for r in rows if r[3]), "with concrete input")
