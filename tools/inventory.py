#!/usr/bin/env python3
"""Inventory of the tie between /repo/src and the Coq development (self-validation, not a MANIFEST command):
every `fn` item of src/**/*.rs, and how it is tied to the model:
  T  its body is translated on every run and a generated theorem proves it equal to the model (directly, or inlined
     into a translated caller),
  S  only its signature / a table row is translated (constants, accessor and constructor signatures, macro arms, features),
  C  hand-written model + bit-exact correspondence only.
Writes /verif/INVENTORY.md."""
import os, re, sys, glob
sys.path.insert(0, os.path.dirname(os.path.abspath(__file__)))
import rustmini, gen_streams, gen_ops, gen_constants

REPO = ([a for a in sys.argv[1:] if not a.startswith("-")] or ["/repo"])[0]

def sig(e):
    return str(e["toks"])

def main():
    files = sorted(glob.glob(os.path.join(REPO, "src", "**", "*.rs"), recursive=True))
    rows = []          # (file, type key, fn, entry)
    for f in files:
        fns, enums = {}, {}
        t = rustmini.tokenize(open(f).read())
        rustmini.scan_items(t, 0, len(t), fns, enums)
        for (key, fn), lst in fns.items():
            if "tests::" in key or key.startswith("tests"):
                continue
            for e in lst:
                rows.append((os.path.relpath(f, REPO), key, fn, e))
    covered = {}       # sig -> how
    outdir = "/tmp/inventory_gen"
    items, _ = gen_constants.main(REPO, outdir)
    consts = {it[0]: (int(it[1]), int(it[2])) for it in items}
    gen_streams.main(REPO, outdir, consts)
    for name, f, used in gen_streams.USED:
        covered.setdefault(sig(f), "T: %s (gen_streams)" % name)
        for u in used:
            covered.setdefault(sig(u), "T: inlined into %s" % name)
    dual = {}
    for t in gen_ops.main(REPO, outdir, consts):
        covered.setdefault(sig(t["entry"]), "T: %s (gen_ops, OpsTable.v)" % t["name"])
        if t.get("dual"):
            # translated once per dimension-check configuration from the cfg-stripped source: matched by impl, not by tokens
            what = t["what"]
            m = re.match(r"impl (\w+)(?:<(\w+)>)? for Unit", what)
            if m: dual[("Unit", m.group(1))] = t["name"]
            m = re.match(r"Unit::(\w+)", what)
            if m: dual[("Unit", "fn:" + m.group(1))] = t["name"]
    import gen_ref
    gen_ref.main(REPO, outdir)
    reflang = {("Terminal", "disconnect")}
    formulas = {("MotionProfile", "new"), ("MotionProfile", "get_acceleration"), ("MotionProfile", "get_velocity"), ("MotionProfile", "get_position"),
                ("State", "update"), ("PIDKValues", "evaluate")}
    out = []
    n = {"T": 0, "S": 0, "C": 0}
    for (f, key, fn, e) in sorted(rows, key=lambda r: (r[0], r[1], r[2])):
        how = covered.get(sig(e))
        if how is None and key == "Unit" and ((key, e.get("trait")) in dual or (key, "fn:" + fn) in dual) and not (e.get("trait") == "TryFrom"):
            how = "T: %s (gen_ops, OpsTable.v; one translation per dimension-check configuration)" % (dual.get((key, e.get("trait"))) or dual.get((key, "fn:" + fn)))
        if how is None and (key.split("<")[0], fn) in reflang:
            how = "T: RefLang translator (C09Connect.v; the free function `connect` likewise)"
        if how is None and (key.split("<")[0], fn) in formulas:
            how = "T: formula translator (C06Formulas.v)"
        if how is None and f == "src/datum.rs" and e.get("trait") in ("Add", "Sub", "Mul", "Div", "Neg", "Not", "AddAssign", "SubAssign", "MulAssign", "DivAssign"):
            how = "T: datum operator translator (C03DatumOps.v)"
        if how is None and f in ("src/devices.rs", "src/devices/wrappers.rs") and fn.startswith("get_") and "terminal" in fn or (how is None and fn in ("get_side_1", "get_side_2", "get_sum")):
            how = "S: accessor signature (C16Signatures.v); body is an unsafe lifetime cast (known finding)"
        if how is None and f == "src/reference.rs":
            how = "S/C: constructor signatures and to_dyn! arms translated (C16Signatures.v, C17ToDyn.v); heap model + correspondence"
        if how is None:
            how = "C: hand model + correspondence"
        n[how[0]] += 1
        tr = e.get("trait")
        out.append("| %s | %s%s | %s | %s |" % (f, key, (" (%s%s)" % (tr, "<" + ",".join(e.get("targs") or []) + ">" if e.get("targs") else "")) if tr else "", fn, how))
    hdr = ["# Inventory: every `fn` of /repo/src and how it is tied to the Coq development",
           "",
           "Written by `tools/inventory.py` (self-validation; re-run after changing a translator). T = body translated on every run and proved equal to",
           "the model by a generated theorem (directly or inlined into a translated caller); S = signature / table row translated; C = hand-written",
           "model tied by bit-exact correspondence only. Unit constants (`dimensions/constants.rs`) and `Cargo.toml` features are tables, not functions",
           "(C01Constants.v, C19Features.v).",
           "",
           "Totals: **T %d, S %d, C %d** of %d functions." % (n["T"], n["S"], n["C"], len(out)),
           "",
           "| file | impl | fn | tie |", "|---|---|---|---|"]
    open(os.path.join(os.path.dirname(os.path.dirname(os.path.abspath(__file__))), "INVENTORY.md"), "w").write("\n".join(hdr + out) + "\n")
    print("T %d S %d C %d of %d" % (n["T"], n["S"], n["C"], len(out)))
    if "-v" in sys.argv:
        for l in out:
            if "| C:" in l: print(l)

if __name__ == "__main__":
    main()
